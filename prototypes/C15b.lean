import Lt.C15
open Cal

/-- stdlib `_isoweek1monday` -/
def isoWeek1Monday (y : Int) : Int :=
  let firstday := ymd2ord y 1 1
  let firstweekday := (firstday + 6) % 7
  let w1 := firstday - firstweekday
  if firstweekday > 3 then w1 + 7 else w1

def isoWeeksInYear (y : Int) : Int := (isoWeek1Monday (y + 1) - isoWeek1Monday y) / 7

theorem gp_shift (y k : Int) : gp (y + 400 * k) = gp y + 497 * k := by unfold gp; omega

theorem long_periodic (y k : Int) : Gen.is_long_year (y + 400 * k) = Gen.is_long_year y := by
  unfold Gen.is_long_year
  simp only []
  have e1 : ∀ z : Int, ((z + 400 * k) + (z + 400 * k) / 4 - (z + 400 * k) / 100 + (z + 400 * k) / 400) % 7
      = (z + z / 4 - z / 100 + z / 400) % 7 := by intro z; omega
  have h2 : y + 400 * k - 1 = (y - 1) + 400 * k := by omega
  rw [h2, e1 y, e1 (y - 1)]

theorem dby_shift (y k : Int) : daysBeforeYear (y + 400 * k) = daysBeforeYear y + 146097 * k := by
  unfold daysBeforeYear; simp only []; omega

theorem w1_shift (y k : Int) : isoWeek1Monday (y + 400 * k) = isoWeek1Monday y + 146097 * k := by
  unfold isoWeek1Monday ymd2ord
  have hl : isLeap (y + 400 * k) = isLeap y := by
    rw [isLeap_mod (y + 400 * k), isLeap_mod y]; congr 1; omega
  rw [hl, dby_shift]
  simp only [daysBeforeMonth]
  split <;> split <;> omega

theorem weeks_periodic (y k : Int) : isoWeeksInYear (y + 400 * k) = isoWeeksInYear y := by
  unfold isoWeeksInYear
  have : y + 400 * k + 1 = (y + 1) + 400 * k := by omega
  rw [this, w1_shift, w1_shift]; omega

def longOK : Bool := (List.range 400).all fun r =>
  let y : Int := (r : Int) + 400
  (Gen.is_long_year y) == decide (isoWeeksInYear y = 53)

theorem longOK_true : longOK = true := by decide +kernel

/-- C15: `is_long_year` ⇔ the ISO year has 53 weeks, for every integer year -/
theorem is_long_year_iff (y : Int) : Gen.is_long_year y = true ↔ isoWeeksInYear y = 53 := by
  have hy : y = (y % 400 + 400) + 400 * (y / 400 - 1) := by omega
  rw [hy, long_periodic, weeks_periodic]
  have hr : (y % 400).toNat < 400 := by omega
  have h := all_range longOK_true _ hr
  simp only [beq_iff_eq] at h
  have e1 : ((y % 400).toNat : Int) = y % 400 := by omega
  rw [e1] at h
  rw [h]; simp

/-- `Date.day_of_year` closed form -/
def dayOfYear (leap : Bool) (m d : Int) : Int :=
  let k : Int := if leap then 1 else 2
  (275 * m) / 9 - k * ((m + 9) / 12) + d - 30

theorem dayOfYear_spec (leap : Bool) (m d : Int) (hm : 1 ≤ m ∧ m ≤ 12) :
    dayOfYear leap m d = daysBeforeMonth leap m + d := by
  obtain ⟨h1, h2⟩ := hm
  have : m = 1 ∨ m = 2 ∨ m = 3 ∨ m = 4 ∨ m = 5 ∨ m = 6 ∨ m = 7 ∨ m = 8 ∨ m = 9 ∨ m = 10 ∨ m = 11 ∨ m = 12 := by omega
  rcases this with h|h|h|h|h|h|h|h|h|h|h|h <;> subst h <;> cases leap <;> simp [dayOfYear, daysBeforeMonth] <;> omega

theorem dn_shift (y m d k : Int) : Gen.day_number (y + 400 * k) m d = Gen.day_number y m d + 146097 * k := by
  unfold Gen.day_number; simp only []; omega

theorem dn_day (y m d : Int) : Gen.day_number y m d = Gen.day_number y m 0 + d := by
  unfold Gen.day_number; simp only []; omega

theorem ord_shift (y m d k : Int) : ymd2ord (y + 400 * k) m d = ymd2ord y m d + 146097 * k := by
  unfold ymd2ord
  have hl : isLeap (y + 400 * k) = isLeap y := by
    rw [isLeap_mod (y + 400 * k), isLeap_mod y]; congr 1; omega
  rw [hl, dby_shift]; omega

theorem ord_day (y m d : Int) : ymd2ord y m d = ymd2ord y m 0 + d := by unfold ymd2ord; omega

def dnOK : Bool := (List.range 400).all fun r => (List.range 12).all fun m =>
  let y : Int := (r : Int) + 400
  let m : Int := (m : Int) + 1
  Gen.day_number y m 0 == ymd2ord y m 0 + 305

theorem dnOK_true : dnOK = true := by decide +kernel

/-- `_day_number` is the proleptic ordinal shifted by a constant, so its differences are day counts -/
theorem day_number_eq (y m d : Int) (hm : 1 ≤ m ∧ m ≤ 12) :
    Gen.day_number y m d = ymd2ord y m d + 305 := by
  have hy : y = (y % 400 + 400) + 400 * (y / 400 - 1) := by omega
  rw [hy, dn_shift, ord_shift, dn_day, ord_day]
  have hr : (y % 400).toNat < 400 := by omega
  have hm' : (m - 1).toNat < 12 := by omega
  have h := all_range (all_range dnOK_true _ hr) _ hm'
  simp only [beq_iff_eq] at h
  have e1 : ((y % 400).toNat : Int) = y % 400 := by omega
  have e2 : (((m - 1).toNat : Int) + 1) = m := by omega
  rw [e1, e2] at h
  omega

#print axioms is_long_year_iff
#print axioms dayOfYear_spec
#print axioms day_number_eq
