import Lt.Cal
open Cal
namespace PD

def dim (leap : Bool) (m : Int) : Int :=
  match m with
  | 1 => 31 | 2 => if leap then 29 else 28 | 3 => 31 | 4 => 30 | 5 => 31 | 6 => 30
  | 7 => 31 | 8 => 31 | 9 => 30 | 10 => 31 | 11 => 30 | _ => 31

def validDate (y m d : Int) : Prop := 1 ≤ m ∧ m ≤ 12 ∧ 1 ≤ d ∧ d ≤ dim (isLeap y) m

/-- date part of the repaired precise_diff, for (y1,m1,d1) ≤ (y2,m2,d2), no time borrow -/
def pdDate (y1 m1 d1 y2 m2 d2 : Int) : Int × Int × Int :=
  let yd := y2 - y1
  let md := m2 - m1
  let dd := d2 - d1
  let py := if m2 = 1 then y2 - 1 else y2
  let pm := if m2 = 1 then 12 else m2 - 1
  let dlm := dim (isLeap py) pm
  let dimo := dim (isLeap y2) m2
  let md' := if dd < 0 then (if d2 = dimo then md else md - 1) else md
  let dd' := if dd < 0 then (if d2 = dimo then 0 else dd + max dlm d1) else dd
  let yd' := if md' < 0 then yd - 1 else yd
  let md'' := if md' < 0 then md' + 12 else md'
  (yd', md'', dd')

/-- add_duration's year/month step (months already in 0..11, years ≥ 0) with clamping -/
def addYM (y m d years months : Int) : Int × Int × Int :=
  let y' := y + years
  let m' := m + months
  let y'' := if m' > 12 then y' + 1 else y'
  let m'' := if m' > 12 then m' - 12 else m'
  (y'', m'', min (dim (isLeap y'') m'') d)

theorem dby_succ (y : Int) : daysBeforeYear (y + 1) = daysBeforeYear y + 365 + (if isLeap y then 1 else 0) := by
  unfold daysBeforeYear isLeap
  simp only [Int.add_sub_cancel]
  by_cases h4 : y % 4 = 0 <;> by_cases h100 : y % 100 = 0 <;> by_cases h400 : y % 400 = 0 <;>
    simp [h4, h100, h400] <;> omega


def dbm (leap : Bool) (m : Int) : Int := daysBeforeMonth leap m

theorem dbm_succ (leap : Bool) (m : Int) (h1 : 1 ≤ m) (h2 : m ≤ 11) :
    daysBeforeMonth leap (m + 1) = daysBeforeMonth leap m + dim leap m := by
  have : m = 1 ∨ m = 2 ∨ m = 3 ∨ m = 4 ∨ m = 5 ∨ m = 6 ∨ m = 7 ∨ m = 8 ∨ m = 9 ∨ m = 10 ∨ m = 11 := by omega
  rcases this with h|h|h|h|h|h|h|h|h|h|h <;> subst h <;> cases leap <;> simp [daysBeforeMonth, dim]

theorem dim_bounds (leap : Bool) (m : Int) : 28 ≤ dim leap m ∧ dim leap m ≤ 31 := by
  unfold dim; split <;> (try split) <;> omega

/-- lexicographic order on dates -/
def dateLe (y1 m1 d1 y2 m2 d2 : Int) : Prop :=
  y1 < y2 ∨ (y1 = y2 ∧ (m1 < m2 ∨ (m1 = m2 ∧ d1 ≤ d2)))

theorem rebuild (y1 m1 d1 y2 m2 d2 : Int)
    (ha : validDate y1 m1 d1) (hb : validDate y2 m2 d2) (hle : dateLe y1 m1 d1 y2 m2 d2) :
    let r := pdDate y1 m1 d1 y2 m2 d2
    let a := addYM y1 m1 d1 r.1 r.2.1
    0 ≤ r.1 ∧ 0 ≤ r.2.1 ∧ r.2.1 ≤ 11 ∧ 0 ≤ r.2.2 ∧ r.2.2 ≤ 30 ∧
    ymd2ord a.1 a.2.1 a.2.2 + r.2.2 = ymd2ord y2 m2 d2 := by
  obtain ⟨ha1, ha2, ha3, ha4⟩ := ha
  obtain ⟨hb1, hb2, hb3, hb4⟩ := hb
  have hdim1 := dim_bounds (isLeap y1) m1
  have hdim2 := dim_bounds (isLeap y2) m2
  unfold dateLe at hle
  simp only [pdDate, addYM]
  by_cases hdd : d2 - d1 < 0
  · by_cases hfull : d2 = dim (isLeap y2) m2
    · -- clamped full month: anchor is (y2, m2, d2)
      by_cases hmd : m2 - m1 < 0
      · simp only [if_pos hdd, if_pos hfull, if_pos hmd]
        have e1 : m1 + (m2 - m1 + 12) > 12 := by omega
        have e2 : y1 + (y2 - y1 - 1) + 1 = y2 := by omega
        have e3 : m1 + (m2 - m1 + 12) - 12 = m2 := by omega
        simp only [if_pos e1, e2, e3]
        have e4 : min (dim (isLeap y2) m2) d1 = d2 := by omega
        rw [e4]
        refine ⟨by omega, by omega, by omega, by omega, by omega, by omega⟩
      · simp only [if_pos hdd, if_pos hfull, if_neg hmd]
        have e1 : ¬ (m2 > 12) := by omega
        have e2 : y1 + (y2 - y1) = y2 := by omega
        have e3 : m1 + (m2 - m1) = m2 := by omega
        simp only [e2, e3, if_neg e1]
        have e4 : min (dim (isLeap y2) m2) d1 = d2 := by omega
        rw [e4]
        refine ⟨by omega, by omega, by omega, by omega, by omega, by omega⟩
    · -- borrow from the month before (y2, m2)
      simp only [if_pos hdd, if_neg hfull]
      by_cases hm1 : m2 = 1
      · -- previous month is December of y2 - 1
        subst hm1
        have hmd : (1:Int) - m1 - 1 < 0 := by omega
        simp only [if_pos hmd, if_true]
        have e1 : ¬ (m1 + (1 - m1 - 1 + 12) > 12) := by omega
        have e2 : y1 + (y2 - y1 - 1) = y2 - 1 := by omega
        have e3 : m1 + (1 - m1 - 1 + 12) = 12 := by omega
        simp only [e2, e3]
        have h12 : ¬ ((12:Int) > 12) := by omega
        simp only [if_neg h12]
        have hd12 : dim (isLeap (y2 - 1)) 12 = 31 := by simp [dim]
        have hd1 : dim (isLeap y2) 1 = 31 := by simp [dim]
        rw [hd12]
        have hs := dby_succ (y2 - 1)
        simp only [Int.sub_add_cancel] at hs
        unfold ymd2ord
        have hb12 : daysBeforeMonth (isLeap (y2 - 1)) 12 = 334 + (if isLeap (y2 - 1) then 1 else 0) := by
          simp [daysBeforeMonth]
        have hb1 : daysBeforeMonth (isLeap y2) 1 = 0 := by simp [daysBeforeMonth]
        rw [hb12, hb1, hs]
        rw [hd1] at hfull hb4
        refine ⟨by omega, by omega, by omega, by omega, by omega, by omega⟩
      · -- previous month is m2 - 1 of the same year
        have hm2 : 2 ≤ m2 := by omega
        simp only [if_neg hm1]
        have hsucc := dbm_succ (isLeap y2) (m2 - 1) (by omega) (by omega)
        simp only [Int.sub_add_cancel] at hsucc
        have hdimp := dim_bounds (isLeap y2) (m2 - 1)
        by_cases hmd : m2 - m1 - 1 < 0
        · simp only [if_pos hmd]
          have e1 : m1 + (m2 - m1 - 1 + 12) > 12 := by omega
          have e2 : y1 + (y2 - y1 - 1) + 1 = y2 := by omega
          have e3 : m1 + (m2 - m1 - 1 + 12) - 12 = m2 - 1 := by omega
          simp only [if_pos e1, e2, e3]
          unfold ymd2ord
          rw [hsucc]
          refine ⟨by omega, by omega, by omega, by omega, by omega, by omega⟩
        · simp only [if_neg hmd]
          have e1 : ¬ (m2 - 1 > 12) := by omega
          have e2 : y1 + (y2 - y1) = y2 := by omega
          have e3 : m1 + (m2 - m1 - 1) = m2 - 1 := by omega
          simp only [e2, e3, if_neg e1]
          unfold ymd2ord
          rw [hsucc]
          refine ⟨by omega, by omega, by omega, by omega, by omega, by omega⟩
  · -- no borrow: anchor is (y2, m2, d1)
    simp only [if_neg hdd]
    by_cases hmd : m2 - m1 < 0
    · simp only [if_pos hmd]
      have e1 : m1 + (m2 - m1 + 12) > 12 := by omega
      have e2 : y1 + (y2 - y1 - 1) + 1 = y2 := by omega
      have e3 : m1 + (m2 - m1 + 12) - 12 = m2 := by omega
      simp only [if_pos e1, e2, e3]
      have e4 : min (dim (isLeap y2) m2) d1 = d1 := by omega
      rw [e4]; unfold ymd2ord
      refine ⟨by omega, by omega, by omega, by omega, by omega, by omega⟩
    · simp only [if_neg hmd]
      have e1 : ¬ (m2 > 12) := by omega
      have e2 : y1 + (y2 - y1) = y2 := by omega
      have e3 : m1 + (m2 - m1) = m2 := by omega
      simp only [e2, e3, if_neg e1]
      have e4 : min (dim (isLeap y2) m2) d1 = d1 := by omega
      rw [e4]; unfold ymd2ord
      refine ⟨by omega, by omega, by omega, by omega, by omega, by omega⟩

#print axioms rebuild
end PD
