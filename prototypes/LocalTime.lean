import Lt.Cal
namespace LT
open Cal

/-- civil date from day index inside a 400-year cycle starting at a year ≡ 0 mod 400 (day 0 = Jan 1 of year 0 of cycle).
    Reference: simple year/month stepping (spec side). Returns (yearInCycle, month, day). -/
def refYear (fuel : Nat) (d : Nat) (y : Nat) : Nat × Nat :=
  match fuel with
  | 0 => (y, d)
  | f+1 =>
    let len := if isLeap (y : Int) then 366 else 365
    if d < len then (y, d) else refYear f (d - len) (y+1)

def mlen (leap : Bool) (m : Nat) : Nat :=
  match m with
  | 1 => 31 | 2 => if leap then 29 else 28 | 3 => 31 | 4 => 30 | 5 => 31 | 6 => 30
  | 7 => 31 | 8 => 31 | 9 => 30 | 10 => 31 | 11 => 30 | _ => 31

def refMonth (fuel : Nat) (leap : Bool) (d : Nat) (m : Nat) : Nat × Nat :=
  match fuel with
  | 0 => (m, d+1)
  | f+1 => if d < mlen leap m then (m, d+1) else refMonth f leap (d - mlen leap m) (m+1)

def refCivil (d : Nat) : Nat × Nat × Nat :=
  let (y, r) := refYear 400 d 0
  let (m, dd) := refMonth 12 (isLeap (y : Int)) r 1
  (y, m, dd)

/-- pendulum local_time day part, inside the 400-year cycle (seconds already reduced), in days -/
def moff (leap : Bool) (m : Nat) : Nat :=
  match m with
  | 1 => 0 | 2 => 31 | 3 => 59 + leap.toNat | 4 => 90 + leap.toNat | 5 => 120 + leap.toNat
  | 6 => 151 + leap.toNat | 7 => 181 + leap.toNat | 8 => 212 + leap.toNat | 9 => 243 + leap.toNat
  | 10 => 273 + leap.toNat | 11 => 304 + leap.toNat | 12 => 334 + leap.toNat | _ => 365 + leap.toNat

def loop (fuel : Nat) (d y step : Nat) (size : Bool → Nat) (leap leapAfter : Bool) : Nat × Nat × Bool :=
  match fuel with
  | 0 => (d, y, leap)
  | f+1 => if d ≥ size leap then loop f (d - size leap) (y + step) step size leapAfter leapAfter else (d, y, leap)

def pendCivil (d : Nat) : Nat × Nat × Nat :=
  let (d, y, lp) := loop 4 d 0 100 (fun l => if l then 36525 else 36524) true false
  let (d, y, lp) := loop 25 d y 4 (fun l => if l then 1461 else 1460) lp true
  let (d, y, lp) := loop 4 d y 1 (fun l => if l then 366 else 365) lp false
  -- months: from December down
  let day := d + 1
  let rec go (fuel : Nat) (m : Nat) : Nat × Nat :=
    match fuel with
    | 0 => (m, day)
    | f+1 => if m == 1 then (1, day) else
        if day > moff lp m then (m, day - moff lp m) else go f (m - 1)
  let (m, dd) := go 12 12
  (y, m, dd)

def cycleCheck (n : Nat) : Bool := (List.range n).all fun d => pendCivil d == refCivil d

end LT
