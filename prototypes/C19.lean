namespace C19

/-- model of `Interval.range` (forward direction): `step i` is `self.start.add(unit = i)`; the loop variable `i`
    advances by `amount`; values are yielded while `cur ≤ stop`. Fuel makes the definition total. -/
def rangeLoop (step : Int → Int) (amount stop : Int) : Nat → Int → Int → List Int
  | 0, _, _ => []
  | fuel+1, cur, i => if cur ≤ stop then cur :: rangeLoop step amount stop fuel (step i) (i + amount) else []

def range (step : Int → Int) (amount stop : Int) (fuel : Nat) : List Int :=
  rangeLoop step amount stop fuel (step 0) amount

/-- k-th candidate, computed from the start (no drift) -/
def cand (step : Int → Int) (amount : Int) (k : Nat) : Int := step (amount * k)

theorem loop_shape (step : Int → Int) (amount stop : Int) :
    ∀ (fuel k : Nat), rangeLoop step amount stop fuel (cand step amount k) (amount * (k + 1)) =
      ((List.range fuel).map (fun j => cand step amount (k + j))).takeWhile (fun v => decide (v ≤ stop)) := by
  intro fuel
  induction fuel with
  | zero => intro k; simp [rangeLoop]
  | succ f ih =>
    intro k
    simp only [rangeLoop]
    rw [List.range_succ_eq_map, List.map_cons, List.map_map]
    by_cases h : cand step amount k ≤ stop
    · simp only [h, if_true, Nat.add_zero, List.takeWhile_cons, decide_true]
      have e1 : step (amount * (↑k + 1)) = cand step amount (k + 1) := by
        unfold cand; congr 1
      have e2 : amount * (↑k + 1) + amount = amount * (((k + 1 : Nat) : Int) + 1) := by
        simp [Int.natCast_add, Int.mul_add]
      rw [e1, e2, ih (k + 1)]
      congr 2
      apply List.map_congr_left
      intro j _
      simp only [Function.comp]
      congr 1; omega
    · simp [h, List.takeWhile_cons]

/-- every yielded value is a candidate computed from the start, in order, and all are ≤ stop -/
theorem range_spec (step : Int → Int) (amount stop : Int) (fuel : Nat) :
    range step amount stop fuel =
      ((List.range fuel).map (fun j => cand step amount j)).takeWhile (fun v => decide (v ≤ stop)) := by
  have h := loop_shape step amount stop fuel 0
  simp only [Nat.zero_add] at h
  unfold range
  have e0 : step 0 = cand step amount 0 := by unfold cand; simp
  have e1 : amount = amount * (((0 : Nat) : Int) + 1) := by simp
  rw [e0]
  conv => lhs; arg 6; rw [e1]
  exact h

#print axioms range_spec
end C19
