/-! feasibility prototype: calendar -/
namespace Cal

def isLeap (y : Int) : Bool := y % 4 == 0 && (y % 100 != 0 || y % 400 == 0)

/-- days before Jan 1 of year y (stdlib `_days_before_year`) -/
def daysBeforeYear (y : Int) : Int :=
  let y' := y - 1
  y' * 365 + y' / 4 - y' / 100 + y' / 400

def daysBeforeMonth (leap : Bool) (m : Int) : Int :=
  match m with
  | 1 => 0 | 2 => 31
  | 3 => 59 + (if leap then 1 else 0)
  | 4 => 90 + (if leap then 1 else 0)
  | 5 => 120 + (if leap then 1 else 0)
  | 6 => 151 + (if leap then 1 else 0)
  | 7 => 181 + (if leap then 1 else 0)
  | 8 => 212 + (if leap then 1 else 0)
  | 9 => 243 + (if leap then 1 else 0)
  | 10 => 273 + (if leap then 1 else 0)
  | 11 => 304 + (if leap then 1 else 0)
  | _ => 334 + (if leap then 1 else 0)

def ymd2ord (y m d : Int) : Int := daysBeforeYear y + daysBeforeMonth (isLeap y) m + d

/-- stdlib isoweekday: Monday=1..Sunday=7 ; ordinal 1 is a Monday -/
def isoweekday (y m d : Int) : Int := (ymd2ord y m d + 6) % 7 + 1

def dowTable (m : Int) : Int :=
  match m with
  | 1 => 0 | 2 => 3 | 3 => 2 | 4 => 5 | 5 => 0 | 6 => 3
  | 7 => 5 | 8 => 1 | 9 => 4 | 10 => 6 | 11 => 2 | _ => 4

/-- pendulum._helpers.week_day -/
def weekDay (year month day : Int) : Int :=
  let year := if month < 3 then year - 1 else year
  let w := (year + year / 4 - year / 100 + year / 400 + dowTable month + day) % 7
  if w == 0 then 7 else w


/-- gregorian "p" function -/
def gp (y : Int) : Int := y + y / 4 - y / 100 + y / 400

theorem gp_decomp (y : Int) : gp y = 497 * (y / 400) + gp (y % 400) := by
  unfold gp; omega

theorem dby_decomp (y : Int) : daysBeforeYear (y+1) = 146097 * (y / 400) + daysBeforeYear (y % 400 + 1) := by
  unfold daysBeforeYear; simp only []; omega

/-- finite check over one 400-year cycle, as a Bool computed on Nat -/
def cycleOK : Bool :=
  (List.range 400).all fun r =>
    let r : Int := r
    (gp r - daysBeforeYear (r+1)) % 7 == 0

theorem cycleOK_true : cycleOK = true := by decide +kernel

end Cal
