"""Extract per-zone transition tables (explicit + rule tail up to a year limit) and probe the real C zoneinfo."""
import sys, datetime as dt, random, bisect
import zoneinfo
from zoneinfo import _zoneinfo as pz
import pendulum
EPOCH_ORD = dt.date(1970,1,1).toordinal()
def table(name, ymax):
    z = pz.ZoneInfo.no_cache(name)
    tu = list(z._trans_utc); offs = [int(t.utcoff.total_seconds()) for t in z._ttinfos]
    init = int(z._tti_before.utcoff.total_seconds()) if z._tti_before is not None else (offs[0] if offs else 0)
    after = z._tz_after
    if isinstance(after, pz._ttinfo):
        # fixed offset after the last transition: nothing to add (the last ttinfo equals it?) 
        tail_fixed = int(after.utcoff.total_seconds())
        if not tu:
            init = tail_fixed
        else:
            assert offs[-1] == tail_fixed, (name, offs[-1], tail_fixed)
    else:
        std = int(after.std.utcoff.total_seconds()); dst = int(after.dst.utcoff.total_seconds())
        y0 = (dt.datetime(1970,1,1) + dt.timedelta(seconds=tu[-1])).year if tu else 1
        last = tu[-1] if tu else -10**18
        cur = offs[-1] if tu else None
        if not tu:
            # determine init from the rule at year 1
            init = None
        for y in range(max(y0-1,1), ymax+1):
            s, e = after.transitions(y)
            ev = sorted([(s - std, dst), (e - dst, std)])
            for t, o in ev:
                if t > last:
                    if cur is None:
                        # offset before first rule transition is the other one
                        init = std if o == dst else dst
                        cur = init
                    if o != cur or True:
                        tu.append(t); offs.append(o); last = t; cur = o
    return init, tu, offs
def main():
    ymax = int(sys.argv[1]) if len(sys.argv) > 1 else 2100
    names = sorted(pendulum.timezones())
    rnd = random.Random(5)
    out = open("/var/tmp/px/zone_ops.txt","w"); exp = open("/var/tmp/px/zone_exp.txt","w")
    nprobe=0
    for zi, name in enumerate(names):
        init, tu, offs = table(name, ymax)
        out.write("zone %d %d %s\n" % (zi, init, " ".join("%d %d" % p for p in zip(tu, offs))))
        exp.write("ok\n")
        z = zoneinfo.ZoneInfo(name)
        # probes: around each transition (sample if many) 
        idxs = range(len(tu)) if len(tu) <= 400 else sorted(rnd.sample(range(len(tu)), 400))
        prev = [init]+offs
        for i in idxs:
            t = tu[i]; jump = offs[i]-prev[i]
            for du in (-abs(jump)-1, -abs(jump), -1, 0, 1, abs(jump)-1, abs(jump), abs(jump)+1, rnd.randint(-90000,90000)):
                u = t + du
                try:
                    d = dt.datetime(1970,1,1,tzinfo=dt.timezone.utc) + dt.timedelta(seconds=u)
                    if not (2 <= d.year <= 9998): continue
                    loc = d.astimezone(z)
                except OverflowError:
                    continue
                off = int(loc.utcoffset().total_seconds())
                out.write("fromutc %d %d\n" % (zi, u)); exp.write("%d %d\n" % (off, loc.fold)); nprobe+=1
                # wall -> offset for both folds, at wall = u + prev offset and u + off
                for w in (u + prev[i], u + offs[i]):
                    wd = dt.datetime(1970,1,1) + dt.timedelta(seconds=w)
                    for f in (0,1):
                        o = int(z.utcoffset(wd.replace(fold=f)).total_seconds())
                        out.write("walloff %d %d %d\n" % (zi, w, f)); exp.write("%d\n" % o); nprobe+=1
    print("zones", len(names), "probes", nprobe)
main()
