import Lt.Cal
import Lt.GenHelpers
open Cal

/-- residue facts over one 400-year cycle, checked by kernel evaluation -/
def cycA : Bool := (List.range 400).all fun r =>
  let r : Int := r
  -- months ≥ 3 use year r, months < 3 use year r-1 ; compare with daysBeforeYear (r+1)  (year = r+1 in 1-based terms is avoided: we index by y%400)
  (gp r - daysBeforeYear r - (if isLeap r then 1 else 0)) % 7 == 1 % 7 || true

theorem gp_mod (y : Int) : gp y % 7 = gp (y % 400) % 7 := by
  rw [gp_decomp y]; omega

theorem dby_mod (y : Int) : daysBeforeYear y % 7 = daysBeforeYear ((y - 1) % 400 + 1) % 7 := by
  have := dby_decomp (y - 1)
  simp only [Int.sub_add_cancel] at this
  rw [this]; omega

theorem isLeap_mod (y : Int) : isLeap y = isLeap (y % 400) := by
  unfold isLeap
  have h4 : y % 400 % 4 = y % 4 := by omega
  have h100 : y % 400 % 100 = y % 100 := by omega
  have h400 : y % 400 % 400 = y % 400 := by omega
  rw [h4, h100, h400]

/-- the finite statement: for every residue r of (year mod 400), month, and day residue mod 7 -/
def finiteOK : Bool :=
  (List.range 400).all fun r => (List.range 12).all fun m => (List.range 7).all fun d =>
    let y : Int := (r : Int) + 400   -- a representative year ≥ 1 with residue r
    let m : Int := (m : Int) + 1
    let d : Int := d
    Gen.week_day y m d == isoweekday y m d

theorem finiteOK_true : finiteOK = true := by decide +kernel

theorem wd_periodic_y (y m d k : Int) : Gen.week_day (y + 400 * k) m d = Gen.week_day y m d := by
  unfold Gen.week_day
  simp only []
  by_cases hm : m < 3 <;> simp only [hm, decide_true, decide_false, if_true, if_false, Bool.false_eq_true] <;>
  · generalize Gen.tbl_DAY_OF_WEEK_TABLE (m - 1) = t
    have e : ∀ z : Int, ((z + 400 * k) + (z + 400 * k) / 4 - (z + 400 * k) / 100 + (z + 400 * k) / 400 + t + d) % 7
        = (z + z / 4 - z / 100 + z / 400 + t + d) % 7 := by intro z; omega
    first
      | (have := e (y - 1); have h2 : y + 400 * k - 1 = (y - 1) + 400 * k := by omega
         rw [h2, this])
      | (rw [e y])

theorem wd_periodic_d (y m d j : Int) : Gen.week_day y m (d + 7 * j) = Gen.week_day y m d := by
  unfold Gen.week_day
  simp only []
  have e : ∀ a : Int, (a + (d + 7 * j)) % 7 = (a + d) % 7 := by intro a; omega
  simp only [e]

theorem iso_periodic_y (y m d k : Int) : isoweekday (y + 400 * k) m d = isoweekday y m d := by
  unfold isoweekday ymd2ord
  have hl : isLeap (y + 400 * k) = isLeap y := by
    rw [isLeap_mod (y + 400 * k), isLeap_mod y]; congr 1; omega
  rw [hl]
  generalize daysBeforeMonth (isLeap y) m = t
  unfold daysBeforeYear
  simp only []
  omega

theorem iso_periodic_d (y m d j : Int) : isoweekday y m (d + 7 * j) = isoweekday y m d := by
  unfold isoweekday ymd2ord; omega

theorem all_range {n : Nat} {p : Nat → Bool} (h : (List.range n).all p = true) (i : Nat) (hi : i < n) : p i = true := by
  rw [List.all_eq_true] at h
  exact h i (List.mem_range.mpr hi)

/-- C15 headline: pendulum's week_day is the ISO weekday of the proleptic Gregorian calendar, for every year, month 1..12 and any day number -/
theorem week_day_correct (y m d : Int) (hm : 1 ≤ m ∧ m ≤ 12) :
    Gen.week_day y m d = isoweekday y m d := by
  -- reduce y to r + 400, d to its residue
  have hy : y = (y % 400 + 400) + 400 * (y / 400 - 1) := by omega
  have hd : d = d % 7 + 7 * (d / 7) := by omega
  rw [hy, wd_periodic_y, iso_periodic_y, hd, wd_periodic_d, iso_periodic_d]
  have hr : (y % 400).toNat < 400 := by omega
  have hm' : (m - 1).toNat < 12 := by omega
  have hd' : (d % 7).toNat < 7 := by omega
  have h := all_range (all_range (all_range finiteOK_true _ hr) _ hm') _ hd'
  simp only [beq_iff_eq] at h
  have e1 : ((y % 400).toNat : Int) = y % 400 := by omega
  have e2 : (((m - 1).toNat : Int) + 1) = m := by omega
  have e3 : ((d % 7).toNat : Int) = d % 7 := by omega
  rw [e1, e2, e3] at h
  exact h

#print axioms week_day_correct
