import Lt.Zone4
import Lt.Ops
namespace Zone

/-- an abstract calendar unit on wall-clock values: `lo w` is the first and `hi w` the last wall value of the
    unit containing `w` (instantiated by second … century in the framework; laws proved there from Cal) -/
structure WallUnit where
  lo : Int → Int
  hi : Int → Int
  lo_le : ∀ w, lo w ≤ w
  le_hi : ∀ w, w ≤ hi w
  lo_mono : ∀ v w, v ≤ w → lo v ≤ lo w
  hi_mono : ∀ v w, v ≤ w → hi v ≤ hi w
  lo_lo : ∀ w, lo (lo w) = lo w
  hi_hi : ∀ w, hi (hi w) = hi w
  lo_hi : ∀ w, lo (hi w) = lo w
  hi_lo : ∀ w, hi (lo w) = hi w

def sameUnit (U : WallUnit) (v w : Int) : Prop := U.lo v = U.lo w

def Z.unique (z : Z) (T : Int) : Prop := z.skipped T = false ∧ z.woff false T = z.woff true T

/-- `start_of(unit)`: re-create the truncated wall value in the zone with the instance's fold -/
def startOf (U : WallUnit) (z : Z) (x : Local) : Except ConvErr Local := convertNaive z ⟨U.lo x.w, x.fold⟩ false
def endOf (U : WallUnit) (z : Z) (x : Local) : Except ConvErr Local := convertNaive z ⟨U.hi x.w, x.fold⟩ false

theorem unique_convert (z : Z) (T : Int) (f : Bool) (hu : z.unique T) :
    convertNaive z ⟨T, f⟩ false = .ok ⟨T, f⟩ := by
  unfold convertNaive
  have : ¬ (z.woff true T > z.woff false T) := by have := hu.2; omega
  simp [this]

theorem unique_toUtc (z : Z) (T : Int) (f : Bool) (hu : z.unique T) :
    toUtc z ⟨T, f⟩ = T - z.woff false T := by
  unfold toUtc; cases f <;> simp [hu.2]

/-- C12 (partial: the unit's first wall value is an ordinary local time) -/
theorem startOf_spec (U : WallUnit) (z : Z) (h : z.WF) (u : Int) (f : Bool)
    (hu : z.unique (U.lo (u + z.off u))) :
    let x : Local := ⟨u + z.off u, f⟩
    ∃ s, startOf U z x = .ok s ∧
      sameUnit U s.w x.w ∧                                   -- lies in the same calendar unit
      toUtc z s ≤ u ∧                                        -- not after x, as instants
      ¬ sameUnit U ((toUtc z s - 1) + z.off (toUtc z s - 1)) x.w ∧   -- the tick before is in another unit
      startOf U z s = .ok s := by                            -- idempotent
  intro x
  have hT := hu
  refine ⟨⟨U.lo x.w, f⟩, unique_convert z _ f hu, ?_, ?_, ?_, ?_⟩
  · unfold sameUnit; exact U.lo_lo _
  · rw [unique_toUtc z _ f hu]
    apply Classical.byContradiction; intro hgt
    have hlt : u < U.lo (u + z.off u) - z.woff false (U.lo (u + z.off u)) := by omega
    have := lt_of_lt_unique z.trs z.init _ u h hu.1 hu.2 hlt
    have := U.lo_le (u + z.off u)
    unfold Z.off at *; omega
  · rw [unique_toUtc z _ f hu]
    unfold sameUnit
    intro hsame
    have hxw : x.w = u + z.off u := rfl
    rw [hxw] at hsame
    have hlt := lt_of_lt_unique z.trs z.init (U.lo (u + z.off u))
      (U.lo (u + z.off u) - z.woff false (U.lo (u + z.off u)) - 1) h hu.1 hu.2 (by unfold Z.woff; omega)
    have h1 := U.lo_le ((U.lo (u + z.off u) - z.woff false (U.lo (u + z.off u)) - 1) +
      z.off (U.lo (u + z.off u) - z.woff false (U.lo (u + z.off u)) - 1))
    unfold Z.off Z.woff at *
    omega
  · show convertNaive z ⟨U.lo (U.lo x.w), f⟩ false = _
    rw [U.lo_lo]; exact unique_convert z _ f hu

#print axioms startOf_spec
end Zone
