namespace Misc

def sgn (x : Int) : Int := if x < 0 then -1 else 1      -- helpers._sign (copysign(1, x)); sign(0) = 1
def abs' (x : Int) : Int := if x < 0 then -x else x

/-! ### C04: the year/month step of `helpers.add_duration` -/

/-- literal model of the code: normalise |months| > 11 with the sign trick, then one-step overflow -/
def addYM (y m years months : Int) : Int × Int :=
  let s := sgn months
  let q := (months * s) / 12
  let r := (months * s) % 12
  let months' := if abs' months > 11 then r * s else months
  let years' := if abs' months > 11 then years + q * s else years
  let year := y + years'
  let month := m
  let month1 := if months' ≠ 0 then month + months' else month
  let year2 := if months' ≠ 0 then (if month1 > 12 then year + 1 else if month1 < 1 then year - 1 else year) else year
  let month2 := if months' ≠ 0 then (if month1 > 12 then month1 - 12 else if month1 < 1 then month1 + 12 else month1) else month1
  (year2, month2)

/-- spec: month-index arithmetic -/
def addYMspec (y m years months : Int) : Int × Int :=
  let k := y * 12 + (m - 1) + years * 12 + months
  (k / 12, k % 12 + 1)

theorem addYM_spec (y m years months : Int) (hm : 1 ≤ m ∧ m ≤ 12) :
    addYM y m years months = addYMspec y m years months := by
  unfold addYM addYMspec sgn abs'
  simp only []
  by_cases hneg : months < 0
  · simp only [hneg, if_true]
    repeat' split
    all_goals (simp only [Prod.mk.injEq]; omega)
  · simp only [hneg, if_false]
    repeat' split
    all_goals (simp only [Prod.mk.injEq]; omega)

/-! ### C03: the h/m/s/µs carry normalisation of `add_duration` is value-preserving -/

def carry (x : Int) (lim base : Int) (next : Int) : Int × Int :=
  if abs' x > lim then
    let s := sgn x
    (((x * s) % base) * s, next + ((x * s) / base) * s)
  else (x, next)

def normTime (days hours minutes seconds micros : Int) : Int × Int × Int × Int × Int :=
  let (us, sec) := carry micros 999999 1000000 seconds
  let (sec, mi) := carry sec 59 60 minutes
  let (mi, h) := carry mi 59 60 hours
  let (h, d) := carry h 23 24 days
  (d, h, mi, sec, us)

def totalUs (d h mi s us : Int) : Int := (((d * 24 + h) * 60 + mi) * 60 + s) * 1000000 + us

theorem carry_total (x lim base next : Int) :
    (carry x lim base next).1 + base * (carry x lim base next).2 = x + base * next := by
  unfold carry
  by_cases hbig : abs' x > lim
  · simp only [hbig, if_true]
    unfold sgn
    by_cases hneg : x < 0
    · simp only [hneg, if_true]
      have h1 := Int.emod_add_mul_ediv (x * -1) base
      have e1 : x * -1 % base * -1 = -(x * -1 % base) := by omega
      have e2 : base * (next + x * -1 / base * -1) = base * next - base * (x * -1 / base) := by
        rw [Int.mul_add, Int.mul_comm (x * -1 / base) (-1), ← Int.mul_assoc, Int.mul_neg_one, Int.neg_mul]; omega
      rw [e1, e2]; omega
    · simp only [hneg, if_false, Int.mul_one]
      have h1 := Int.emod_add_mul_ediv x base
      rw [Int.mul_add]; omega
  · simp only [hbig, if_false]

/-! ### C20: time-of-day arithmetic -/

def DAY : Int := 86400000000

def timeAdd (t delta : Int) : Int := (t + delta) % DAY

theorem timeAdd_range (t d : Int) : 0 ≤ timeAdd t d ∧ timeAdd t d < DAY := by
  unfold timeAdd DAY; omega

theorem timeAdd_mod (t d : Int) : (timeAdd t d - (t + d)) % DAY = 0 := by
  unfold timeAdd DAY; omega

theorem time_sub_inverse (t d : Int) (ht : 0 ≤ t ∧ t < DAY) : timeAdd (timeAdd t d) (-d) = t := by
  unfold timeAdd DAY at *; omega

/-! ### C05: truncation toward zero of in_seconds/in_minutes/in_hours -/
def inUnit (lenUs unit : Int) : Int := Int.tdiv lenUs unit

theorem inUnit_swap (l u : Int) : inUnit (-l) u = - inUnit l u := by
  unfold inUnit; exact Int.neg_tdiv l u

#print axioms addYM_spec
#print axioms carry_total
#print axioms time_sub_inverse
end Misc
