namespace Iso

def digitVal (c : Char) : Option Nat :=
  if '0' ≤ c ∧ c ≤ '9' then some (c.toNat - 48) else none

def digitChar (d : Nat) : Char := Char.ofNat (48 + d)

theorem digitVal_digitChar (d : Nat) (h : d < 10) : digitVal (digitChar d) = some d := by
  have : d = 0 ∨ d = 1 ∨ d = 2 ∨ d = 3 ∨ d = 4 ∨ d = 5 ∨ d = 6 ∨ d = 7 ∨ d = 8 ∨ d = 9 := by omega
  rcases this with h|h|h|h|h|h|h|h|h|h <;> subst h <;> decide

/-- parse exactly k digits (Rust `parse_integer(k)`) -/
def parseInt : Nat → Nat → List Char → Option (Nat × List Char)
  | 0, acc, cs => some (acc, cs)
  | k+1, acc, c :: cs => match digitVal c with
      | some d => parseInt k (10 * acc + d) cs
      | none => none
  | _+1, _, [] => none

/-- k-digit zero-padded decimal rendering -/
def digits : Nat → Nat → List Char
  | 0, _ => []
  | k+1, n => digitChar (n / 10 ^ k % 10) :: digits k n

theorem parseInt_digits (k : Nat) : ∀ (acc n : Nat) (rest : List Char),
    parseInt k acc (digits k n ++ rest) = some (acc * 10 ^ k + n % 10 ^ k, rest) := by
  induction k with
  | zero => intro acc n rest; simp [parseInt, digits, Nat.mod_one]
  | succ k ih =>
    intro acc n rest
    have hd : n / 10 ^ k % 10 < 10 := Nat.mod_lt _ (by decide)
    simp only [digits, List.cons_append, parseInt, digitVal_digitChar _ hd]
    rw [ih]
    congr 1
    congr 1
    have h1 : n % 10 ^ (k + 1) = (n / 10 ^ k % 10) * 10 ^ k + n % 10 ^ k := by
      rw [Nat.pow_succ, Nat.mod_mul, Nat.add_comm, Nat.mul_comm]
    rw [h1, Nat.pow_succ, Nat.add_mul]
    have e : 10 * acc * 10 ^ k = acc * (10 ^ k * 10) := by
      rw [Nat.mul_comm 10 acc, Nat.mul_assoc, Nat.mul_comm 10]
    rw [e]
    omega

/-- a miniature of the extended calendar-date production: YYYY-MM-DD, whole input -/
def parseYMD (cs : List Char) : Option (Nat × Nat × Nat) :=
  match parseInt 4 0 cs with
  | some (y, '-' :: r1) => match parseInt 2 0 r1 with
    | some (m, '-' :: r2) => match parseInt 2 0 r2 with
      | some (d, []) => some (y, m, d)
      | _ => none
    | _ => none
  | _ => none

def renderYMD (y m d : Nat) : List Char := digits 4 y ++ '-' :: (digits 2 m ++ '-' :: digits 2 d)

theorem parse_render (y m d : Nat) (hy : y < 10000) (hm : m < 100) (hd : d < 100) :
    parseYMD (renderYMD y m d) = some (y, m, d) := by
  unfold parseYMD renderYMD
  rw [parseInt_digits 4 0 y]
  simp only [Nat.zero_mul, Nat.zero_add]
  rw [parseInt_digits 2 0 m]
  simp only [Nat.zero_mul, Nat.zero_add]
  have := parseInt_digits 2 0 d []
  simp only [List.append_nil, Nat.zero_mul, Nat.zero_add] at this
  rw [this]
  simp [Nat.mod_eq_of_lt hy, Nat.mod_eq_of_lt hm, Nat.mod_eq_of_lt hd]

#print axioms parse_render
end Iso
