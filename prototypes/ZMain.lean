import Lt.Zone
open Zone

def parseInts (ws : List String) : List Int := ws.filterMap String.toInt?

def mkTrs : List Int → List Tr
  | t :: o :: rest => ⟨t, o⟩ :: mkTrs rest
  | _ => []

def wfB (init : Int) : List Tr → Bool
  | [] => true
  | [_] => true
  | a :: b :: rest => decide (b.t - a.t ≥ absI (a.off - init) + absI (b.off - a.off)) && decide (a.t < b.t) && wfB a.off (b :: rest)

partial def loop (h : IO.FS.Stream) (zones : Array (Int × List Tr)) : IO Unit := do
  let line ← h.getLine
  if line.isEmpty then return ()
  let ws := (line.trimAscii.toString.splitOn " ")
  match ws with
  | "zone" :: rest =>
    let xs := parseInts rest
    match xs with
    | _id :: init :: tl =>
      let trs := mkTrs tl
      IO.println (if wfB init trs then "ok" else "notwf")
      loop h (zones.push (init, trs))
    | _ => IO.println "bad-op"; loop h zones
  | ["fromutc", zi, u] =>
    match zi.toNat?, u.toInt? with
    | some zi, some u =>
      let (init, l) := zones[zi]!
      IO.println s!"{offAt init l u} {if foldAt init l u then 1 else 0}"
    | _, _ => IO.println "bad-op"
    loop h zones
  | ["walloff", zi, w, f] =>
    match zi.toNat?, w.toInt? with
    | some zi, some w =>
      let (init, l) := zones[zi]!
      IO.println s!"{wallOff (f == "1") init l w}"
    | _, _ => IO.println "bad-op"
    loop h zones
  | _ => IO.println "bad-op"; loop h zones

def main : IO Unit := do loop (← IO.getStdin) #[]
