import Lt.Ops
open Zone

def parseInts (ws : List String) : List Int := ws.filterMap String.toInt?

def mkTrs : List Int → List Tr
  | t :: o :: rest => ⟨t, o⟩ :: mkTrs rest
  | _ => []

def wfB (init : Int) : List Tr → Bool
  | [] => true
  | [_] => true
  | a :: b :: rest => decide (b.t - a.t ≥ absI (a.off - init) + absI (b.off - a.off)) && decide (a.t < b.t) && wfB a.off (b :: rest)

partial def loop (h : IO.FS.Stream) (zones : Array (Int × List Tr)) : IO Unit := do
  let line ← h.getLine
  if line.isEmpty then return ()
  let ws := (line.trimAscii.toString.splitOn " ")
  match ws with
  | "zone" :: rest =>
    let xs := parseInts rest
    match xs with
    | _id :: init :: tl =>
      let trs := mkTrs tl
      IO.println (if wfB init trs then "ok" else "notwf")
      loop h (zones.push (init, trs))
    | _ => IO.println "bad-op"; loop h zones
  | ["fromutc", zi, u] =>
    match zi.toNat?, u.toInt? with
    | some zi, some u =>
      let (init, l) := zones[zi]!
      IO.println s!"{offAt init l u} {if foldAt init l u then 1 else 0}"
    | _, _ => IO.println "bad-op"
    loop h zones
  | ["walloff", zi, w, f] =>
    match zi.toNat?, w.toInt? with
    | some zi, some w =>
      let (init, l) := zones[zi]!
      IO.println s!"{wallOff (f == "1") init l w}"
    | _, _ => IO.println "bad-op"
    loop h zones
  | ["create", zi, w, f, r] =>
    match zi.toNat?, w.toInt? with
    | some zi, some w =>
      let (init, l) := zones[zi]!
      let z : Z := ⟨init, l⟩
      match convertNaive z ⟨w, f == "1"⟩ (r == "1") with
      | .ok res => IO.println s!"ok {res.w} {z.woff res.fold res.w} {if res.fold then 1 else 0}"
      | .error .nonExisting => IO.println "err NonExistingTime"
      | .error .ambiguous => IO.println "err AmbiguousTime"
    | _, _ => IO.println "bad-op"
    loop h zones
  | ["intz", zi, w, f, zj] =>
    match zi.toNat?, w.toInt?, zj.toNat? with
    | some zi, some w, some zj =>
      let (i1, l1) := zones[zi]!
      let (i2, l2) := zones[zj]!
      let res := inTz ⟨i1, l1⟩ ⟨i2, l2⟩ ⟨w, f == "1"⟩
      IO.println s!"ok {res.w} {(Z.mk i2 l2).woff res.fold res.w} {if res.fold then 1 else 0}"
    | _, _, _ => IO.println "bad-op"
    loop h zones
  | _ => IO.println "bad-op"; loop h zones

def main : IO Unit := do loop (← IO.getStdin) #[]
