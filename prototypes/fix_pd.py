import warnings; warnings.filterwarnings("ignore")
import datetime as dt, random
from pendulum import _helpers
from pendulum._helpers import PreciseDiff, is_leap, DAYS_PER_MONTHS, _day_number
from pendulum.helpers import add_duration
src = open("/repo/src/pendulum/_helpers.py").read()
old = '''        if d_diff < days_in_month - days_in_last_month:
            # We don't have a full month, we calculate days
            if days_in_last_month < d1.day:
                d_diff += d1.day
            else:
                d_diff += days_in_last_month
        elif d_diff == days_in_month - days_in_last_month:
            # We have exactly a full month
            # We remove the days difference
            # and add one to the months difference
            d_diff = 0
            m_diff += 1
        else:
            # We have a full month
            d_diff += days_in_last_month
'''
new = '''        if d2.day == days_in_month and d2.day - d1.day == d_diff:
            # d2 is the last day of its month and d1's day does not exist in it:
            # adding the months to d1 clamps exactly onto d2's day
            d_diff = 0
            m_diff += 1
        else:
            d_diff += max(days_in_last_month, d1.day)
'''
assert old in src
ns = {}
exec(compile(src.replace(old,new), "fixed_helpers", "exec"), ns)
pd_fixed = ns["precise_diff"]
def check(pd, a, b):
    r = add_duration(a, years=pd.years, months=pd.months, days=pd.days, **({} if not isinstance(a, dt.datetime) else dict(hours=pd.hours, minutes=pd.minutes, seconds=pd.seconds, microseconds=pd.microseconds)))
    ok_range = 0 <= pd.months <= 11 and 0 <= pd.days <= 30 and 0<=pd.hours<=23 and 0<=pd.minutes<=59 and 0<=pd.seconds<=59 and 0<=pd.microseconds<=999999
    return r == b, ok_range
start = dt.date(2019,1,1)
days = [start + dt.timedelta(days=i) for i in range(0, 3*365+1)]
bad=rb=n=0; ex=[]
for i,a in enumerate(days):
    for b in days[i+1:i+800]:
        n+=1
        ok, rg = check(pd_fixed(a,b), a, b)
        bad += (not ok); rb += (not rg)
        if not ok and len(ex)<5: ex.append((a,b,pd_fixed(a,b)))
print("dates", n, "bad", bad, "range", rb, ex)
rnd = random.Random(3)
bad=rb=n=0; ex=[]; oldbad=0
for _ in range(400000):
    a = dt.datetime(1999,1,1) + dt.timedelta(days=rnd.randint(0,3000), seconds=rnd.choice([0,1,43200,86399,rnd.randint(0,86399)]), microseconds=rnd.choice([0,1,999999]))
    b = a + dt.timedelta(days=rnd.choice([0,1,27,28,29,30,31,32,59,60,365,366,rnd.randint(0,2000)]), seconds=rnd.choice([0,1,43200,86399,rnd.randint(0,86399)]), microseconds=rnd.choice([0,1,999999]))
    if b<=a: continue
    n+=1
    ok, rg = check(pd_fixed(a,b), a, b)
    bad += (not ok); rb += (not rg)
    if not ok and len(ex)<5: ex.append((a,b,pd_fixed(a,b)))
    ok2,_ = check(_helpers.precise_diff(a,b), a, b); oldbad += (not ok2)
print("datetimes", n, "bad", bad, "range", rb, "old bad", oldbad, ex)
# existing test expectations
import re
t = open("/repo/tests/test_helpers.py").read()
print(len(re.findall("assert_diff", t)))
