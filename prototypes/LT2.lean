import Lt.Cal
open Cal
namespace LT2

/-- `while s >= B: s -= B; n += 1` with fuel -/
def whileSub : Nat → Int → Int → Int → Int × Int
  | 0, s, _, n => (s, n)
  | f+1, s, B, n => if s ≥ B then whileSub f (s - B) B (n + 1) else (s, n)

theorem whileSub_closed (fuel : Nat) : ∀ (s B n : Int), 0 ≤ s → 0 < B → s / B < fuel →
    whileSub fuel s B n = (s % B, n + s / B) := by
  induction fuel with
  | zero => intro s B n hs hB hf; have := Int.ediv_nonneg hs (Int.le_of_lt hB); omega
  | succ f ih =>
    intro s B n hs hB hf
    simp only [whileSub]
    by_cases h : s ≥ B
    · simp only [h, if_true]
      have e1 : (s - B) / B = s / B - 1 := by
        have : s - B = s + B * (-1) := by omega
        rw [this, Int.add_mul_ediv_left _ _ (by omega)]; omega
      have e2 : (s - B) % B = s % B := by
        have : s - B = s + B * (-1) := by omega
        rw [this, Int.add_mul_emod_self_left]
      rw [ih (s - B) B (n + 1) (by omega) hB (by omega), e1, e2]
      congr 1; omega
    · simp only [h, if_false]
      have h1 : s / B = 0 := Int.ediv_eq_zero_of_lt hs (by omega)
      have h2 : s % B = s := Int.emod_eq_of_lt hs (by omega)
      rw [h1, h2]; simp

/-- one Python loop: first comparison against size `A` (the incoming leap flag's size), then against `B` -/
def stage (fuel : Nat) (s A B : Int) : Int × Int :=
  if s ≥ A then whileSub fuel (s - A) B 1 else (s, 0)

theorem stage_closed (fuel : Nat) (s A B : Int) (hs : 0 ≤ s) (hB : 0 < B) (hf : (s - A) / B < fuel) :
    stage fuel s A B = if s ≥ A then ((s - A) % B, 1 + (s - A) / B) else (s, 0) := by
  unfold stage
  by_cases h : s ≥ A
  · simp only [h, if_true]; exact whileSub_closed fuel (s - A) B 1 (by omega) hB hf
  · simp only [h, if_false]

def D : Int := 86400
def C1 : Int := 36525 * 86400
def C0 : Int := 36524 * 86400
def Q1 : Int := 1461 * 86400
def Q0 : Int := 1460 * 86400
def Y1 : Int := 366 * 86400
def Y0 : Int := 365 * 86400
def S400 : Int := 146097 * 86400

/-- the year part of `local_time` inside one 400-year cycle: input seconds since Jan 1 of a year ≡ 0 (mod 400);
    output (years elapsed in the cycle, leap flag of the year reached, seconds into that year) -/
def yearPart (s0 : Int) : Int × Bool × Int :=
  let (s1, n1) := stage 8 s0 C1 C0
  let leap1 : Bool := decide (n1 = 0)
  let (s2, n2) := stage 40 s1 (if leap1 then Q1 else Q0) Q1
  let leap2 : Bool := if n2 = 0 then leap1 else true
  let (s3, n3) := stage 8 s2 (if leap2 then Y1 else Y0) Y0
  let leap3 : Bool := if n3 = 0 then leap2 else false
  (100 * n1 + 4 * n2 + n3, leap3, s3)

/-- days from Jan 1 of cycle-year 0 to Jan 1 of cycle-year y -/
def daysBeforeCycleYear (y : Int) : Int := 365 * y + (y + 3) / 4 - (y + 99) / 100 + (y + 399) / 400

def isLeapCycleP (y : Int) : Prop := y % 4 = 0 ∧ (y % 100 ≠ 0 ∨ y % 400 = 0)

def closed (s A B : Int) : Int × Int := if s ≥ A then ((s - A) % B, 1 + (s - A) / B) else (s, 0)

/-- century stage -/
theorem st1 (s0 : Int) (h0 : 0 ≤ s0) (h1 : s0 < S400) :
    let r := closed s0 C1 C0
    0 ≤ r.1 ∧ 0 ≤ r.2 ∧ r.2 ≤ 3 ∧ r.1 < (if r.2 = 0 then C1 else C0) ∧
    r.1 + (if r.2 = 0 then 0 else C1 + (r.2 - 1) * C0) = s0 := by
  unfold closed C1 C0 S400 at *
  simp only []
  split
  · refine ⟨by omega, by omega, by omega, ?_, ?_⟩
    · split <;> omega
    · split <;> omega
  · simp; omega

/-- 4-year stage inside a century whose first year is leap (`lp`) or not -/
theorem st2 (s1 : Int) (lp : Bool) (h0 : 0 ≤ s1) (h1 : s1 < (if lp then C1 else C0)) :
    let r := closed s1 (if lp then Q1 else Q0) Q1
    0 ≤ r.1 ∧ 0 ≤ r.2 ∧ r.2 ≤ 24 ∧ r.1 < (if r.2 = 0 then (if lp then Q1 else Q0) else Q1) ∧
    r.1 + (if r.2 = 0 then 0 else (if lp then Q1 else Q0) + (r.2 - 1) * Q1) = s1 := by
  unfold closed C1 C0 Q1 Q0 at *
  cases lp <;> simp only [if_true, if_false, Bool.false_eq_true] at * <;>
  · split
    · refine ⟨by omega, by omega, by omega, ?_, ?_⟩
      · split <;> omega
      · split <;> omega
    · simp; omega

/-- year stage inside a 4-year chunk whose first year is leap (`lp`) or not -/
theorem st3 (s2 : Int) (lp : Bool) (h0 : 0 ≤ s2) (h1 : s2 < (if lp then Q1 else Q0)) :
    let r := closed s2 (if lp then Y1 else Y0) Y0
    0 ≤ r.1 ∧ 0 ≤ r.2 ∧ r.2 ≤ 3 ∧ r.1 < (if r.2 = 0 then (if lp then Y1 else Y0) else Y0) ∧
    r.1 + (if r.2 = 0 then 0 else (if lp then Y1 else Y0) + (r.2 - 1) * Y0) = s2 := by
  unfold closed Q1 Q0 Y1 Y0 at *
  cases lp <;> simp only [if_true, if_false, Bool.false_eq_true] at * <;>
  · split
    · refine ⟨by omega, by omega, by omega, ?_, ?_⟩
      · split <;> omega
      · split <;> omega
    · simp; omega

/-- pure arithmetic: the chunk sizes subtracted by the three loops add up to the days before the year reached,
    and the final leap flag is the Gregorian rule -/
theorem compose (n1 n2 n3 : Int) (h1 : 0 ≤ n1 ∧ n1 ≤ 3) (h2 : 0 ≤ n2 ∧ n2 ≤ 24) (h3 : 0 ≤ n3 ∧ n3 ≤ 3) :
    let leap1 : Bool := decide (n1 = 0)
    let leap2 : Bool := if n2 = 0 then leap1 else true
    let leap3 : Bool := if n3 = 0 then leap2 else false
    let acc1 := if n1 = 0 then 0 else C1 + (n1 - 1) * C0
    let acc2 := if n2 = 0 then 0 else (if leap1 then Q1 else Q0) + (n2 - 1) * Q1
    let acc3 := if n3 = 0 then 0 else (if leap2 then Y1 else Y0) + (n3 - 1) * Y0
    acc1 + acc2 + acc3 = D * daysBeforeCycleYear (100 * n1 + 4 * n2 + n3) ∧
    (leap3 = true ↔ isLeapCycleP (100 * n1 + 4 * n2 + n3)) := by
  unfold daysBeforeCycleYear isLeapCycleP D C1 C0 Q1 Q0 Y1 Y0
  simp only []
  by_cases c1 : n1 = 0 <;> by_cases c2 : n2 = 0 <;> by_cases c3 : n3 = 0 <;>
    simp only [c1, c2, c3, if_true, if_false, decide_true, decide_false, Bool.false_eq_true] <;>
    (refine ⟨by omega, ?_⟩; simp; try omega)

#print axioms compose
#print axioms st1
end LT2
