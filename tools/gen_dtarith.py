"""Translator: the arithmetic entry points of src/pendulum/datetime.py and src/pendulum/date.py
                ->  lean/Pendulum/Gen/DTArith.lean

Translated, statement by statement / branch by branch (each Python method becomes one Lean definition in
`Pendulum.Gen.DTArith`; a statement after an `if` whose arms do not return is continued in both arms):
  DateTime: `add` -> `dt_add`, `subtract` -> `dt_subtract`, `_add_timedelta_` -> `dt_add_timedelta`,
            `_subtract_timedelta` -> `dt_subtract_timedelta`, `diff` -> `dt_diff`, `__sub__` -> `dt_op_sub`,
            `__rsub__` -> `dt_op_rsub`, `__add__` -> `dt_op_add`, `__radd__` -> `dt_op_radd`;
  Date:     `add` -> `date_add`, `subtract` -> `date_subtract`, `_add_timedelta` -> `date_add_timedelta`,
            `_subtract_timedelta` -> `date_subtract_timedelta`, `diff` -> `date_diff`, `__add__` -> `date_op_add`,
            `__sub__` -> `date_op_sub`.
A method's result is the *request* it ends in:
  `Req.create y m d h mi s us fold`    = `self.__class__.create(y, m, d, h, mi, s, us, tz=self.tz, fold=fold)` (`fold` is the default
                                         of `create`'s own signature when the call does not pass one);
  `Req.construct y m d h mi s us fold` = `self.__class__(y, m, d, h, mi, s, us, tzinfo=self.tz, fold=fold)`;
  `Req.date y m d`                     = `self.__class__(y, m, d)` (Date);
  `Res.notImplemented`, `Res.value req`, `Res.super_add` (`super().__add__(other)`),
  `Res.interval start end absolute`    = `Interval(start, end, absolute=absolute)`, the endpoints being *which object* (`Who`).
What is not pendulum arithmetic source is a parameter (see the generated header): the instance's own fields, `tz is not None`,
`utcoffset()`, the callees `helpers.add_duration` (regenerated separately: Gen/AddDuration.lean), native `datetime - timedelta`,
`self.tz.convert(<UTC datetime>)` (`Timezone.convert`), and what the code reads from the other operand (`Operand`: its kind
for the `isinstance` tests, `tzinfo is None`, the datetime fields, the Duration/Interval properties, the `_signature`
entries, `days`, `total_seconds()`); `-delta` is a second operand `neg_delta`; the name of the calling frame that
`__add__` reads through `traceback.extract_stack(limit=2)[0].name` is the parameter `caller` (that expression is pinned verbatim
as `caller_source`).  A float `seconds=` argument is carried as its numerator in microseconds (`Sec.us`).
Anything outside this subset is a fallback (prefix "DTArith:").
"""
from __future__ import annotations

import ast
import os
from pathlib import Path

REPO = Path(os.environ.get("VERIF_REPO", "/repo"))
AMOUNTS = ["years", "months", "weeks", "days", "hours", "minutes", "seconds", "microseconds"]
F7 = ["year", "month", "day", "hour", "minute", "second", "microsecond"]
KINDS = ["timedelta", "duration", "interval", "date", "datetime", "pendulumDT", "other"]
DELTAS = frozenset(["timedelta", "duration", "interval"])
DURS = frozenset(["duration", "interval"])
DTLIKE = frozenset(["datetime", "pendulumDT"])
DATELIKE = frozenset(["date", "datetime", "pendulumDT"])
DUR_PROPS = ["years", "months", "weeks", "remaining_days", "hours", "minutes", "remaining_seconds", "microseconds"]
CALLER_SRC = "traceback.extract_stack(limit=2)[0].name"


class Bad(Exception):
    pass


def L(v):
    return f"({v} : Int)"


# ----------------------------------------------------------------------------- symbolic values

class I:            # Int term
    def __init__(self, e):
        self.e = e


class Bv:           # Bool term
    def __init__(self, e):
        self.e = e


class SecV:         # `Sec` term (a `seconds=` amount)
    def __init__(self, e):
        self.e = e


class FS:           # float seconds: numerator in µs (Int term)
    def __init__(self, e):
        self.e = e


class NV:           # a native datetime (n=7) / date (n=3): field terms; tz = None | "UTC"; fold = Bool term | None
    def __init__(self, f, tz=None, fold=None):
        self.f, self.tz, self.fold = list(f), tz, fold


class OptOff:       # `self.utcoffset()`: Option Int term
    def __init__(self, e):
        self.e = e


class OffV:         # a utcoffset known to be a non-zero timedelta: Int term (µs)
    def __init__(self, e):
        self.e = e


class Op:           # operand parameter of unknown kind; S = kinds still possible on this path
    def __init__(self, name, S):
        self.name, self.S = name, frozenset(S)


class SigV:         # `<operand>._signature`
    def __init__(self, name):
        self.name = name


class TzInfo:       # `<operand>.tzinfo`
    def __init__(self, name):
        self.name = name


class WhoV:         # an object used as an Interval endpoint / diff receiver: `Who` term
    def __init__(self, e):
        self.e = e


class OptWho:       # `Option Who` parameter (the `dt` of diff)
    def __init__(self, e):
        self.e = e


class EX:           # effectful value: `Except String τ` term; `mk(name)` builds the bound value
    def __init__(self, e, ty, mk):
        self.e, self.ty, self.mk = e, ty, mk


class REQ:          # `Req` term
    def __init__(self, e, fields=None):
        self.e, self.fields = e, fields


class RESV:         # `Res` term
    def __init__(self, e):
        self.e = e


class RES:          # result of a translated method: term of type `Except String Req` (ty="Req") / `Except String Res` / `Res` (pure)
    def __init__(self, e, ty):
        self.e, self.ty = e, ty


class STRC:
    def __init__(self, s):
        self.s = s


class _Tok:
    def __init__(self, n):
        self.n = n


SELF, TZV, CLS, NONE, UTCM, NOTIMPL, CALLER, SUPER = (_Tok(n) for n in
                                                      ("self", "self.tz", "self.__class__", "None", "UTC", "NotImplemented", "caller", "super()"))


def kind_test(name, kinds):
    ks = [k for k in KINDS if k in kinds]
    if not ks:
        return "false"
    return "(" + " || ".join(f"decide ({name}.kind = OKind.{k})" for k in ks) + ")"


# ----------------------------------------------------------------------------- context

class Cx:
    def __init__(self, kind, fns, info):
        self.kind, self.fns, self.info = kind, fns, info
        self.sigs: dict = {}          # python method name -> (lean name, shape)
        self.pre = "dt" if kind == "dt" else "date"

    def classes(self, x):
        xs = x.elts if isinstance(x, ast.Tuple) else [x]
        out = frozenset()
        for c in xs:
            s = ast.unparse(c)
            k = self.info["class_kinds"][self.kind].get(s)
            if k is None:
                raise Bad("isinstance against " + s)
            out |= k
        return out


class Tr:
    def __init__(self, cx: Cx, fname, mode, self_who="Who.self"):
        self.cx, self.fname, self.mode, self.n, self.self_who = cx, fname, mode, 0, self_who

    def fresh(self, base):
        self.n += 1
        return f"{base.strip('_')}_{self.n}"

    # ---- conversions
    def as_bool(self, v, what):
        if isinstance(v, Bv):
            return v.e
        if isinstance(v, I):
            return f"(decide ({v.e} ≠ (0 : Int)))"
        if isinstance(v, SecV):
            return f"(Sec.nonzero {v.e})"
        if isinstance(v, FS):
            return f"(decide ({v.e} ≠ (0 : Int)))"
        raise Bad(f"{what}: not a truth value")

    def as_sec(self, v, what):
        if isinstance(v, SecV):
            return v.e
        if isinstance(v, I):
            return f"(Sec.int {v.e})"
        if isinstance(v, FS):
            return f"(Sec.us {v.e})"
        raise Bad(f"{what}: not a seconds amount")

    def as_who(self, v, what):
        if isinstance(v, WhoV):
            return v.e
        if v is SELF:
            return self.self_who
        if isinstance(v, Op):
            want = frozenset(["pendulumDT"]) if self.cx.kind == "dt" else DATELIKE
            if v.S and v.S <= want:
                return f"Who.{v.name}"
            raise Bad(f"{what}: operand `{v.name}` may be of kind {sorted(v.S - want)} here")
        if isinstance(v, REQ) and v.fields is not None and len(v.fields) == 3:
            return "(Who.date " + " ".join(v.fields) + ")"
        raise Bad(f"{what}: not an object that can be an Interval endpoint")

    def need(self, name):
        if name not in self.cx.sigs:
            raise Bad(f"depends on `{name}`, which could not be translated")
        return self.cx.sigs[name]

    def bind_kw(self, call, names, defaults, what, env, expand=True):
        """arguments of `call` against a signature -> {name: value}"""
        if len(call.args) > len(names):
            raise Bad(f"{what}: too many positional arguments")
        got = {}
        for n, a in zip(names, call.args):
            if isinstance(a, ast.Starred):
                raise Bad(f"{what}: *args")
            got[n] = self.ev(a, env)
        for kw in call.keywords:
            if kw.arg is None:
                v = self.ev(kw.value, env)
                if not (expand and isinstance(v, SigV)):
                    raise Bad(f"{what}: ** of something that is not `<Duration>._signature`")
                for k in self.cx.info["sig_keys"]:
                    if k not in names or k in got:
                        raise Bad(f"{what}: `_signature` key {k} is not a free parameter")
                    got[k] = I(f"{v.name}.sig_{k}")
                continue
            if kw.arg not in names or kw.arg in got:
                raise Bad(f"{what}: unexpected keyword {kw.arg}")
            got[kw.arg] = self.ev(kw.value, env)
        for n in names:
            if n not in got:
                if n not in defaults:
                    raise Bad(f"{what}: argument {n} missing")
                got[n] = defaults[n]
        return got

    def amounts(self, got, names, what):
        out = []
        for n in names:
            v = got[n]
            if n == "seconds":
                out.append(self.as_sec(v, what))
            elif isinstance(v, I):
                out.append(v.e)
            else:
                raise Bad(f"{what}: argument {n} is not an integer expression")
        return out

    # ---- expressions
    def ev(self, x, env):
        cx = self.cx
        if isinstance(x, ast.Constant):
            if x.value is None:
                return NONE
            if isinstance(x.value, bool):
                return Bv("true" if x.value else "false")
            if isinstance(x.value, int):
                return I(L(x.value))
            if isinstance(x.value, str):
                return STRC(x.value)
            raise Bad("constant " + repr(x.value))
        if isinstance(x, ast.Name):
            if x.id == "self":
                return SELF
            if x.id in env:
                return env[x.id]
            if x.id == "NotImplemented":
                return NOTIMPL
            if x.id == "UTC" and cx.info["utc_imported"]:
                return UTCM
            raise Bad("unknown name " + x.id)
        if cx.info.get("caller_src") and ast.unparse(x) == cx.info["caller_src"]:
            return CALLER                              # pinned verbatim as `caller_source`
        if isinstance(x, ast.Attribute):
            return self.attribute(x, env)
        if isinstance(x, ast.UnaryOp) and isinstance(x.op, ast.USub):
            v = self.ev(x.operand, env)
            if isinstance(v, I):
                return I(f"(-{v.e})")
            if isinstance(v, SecV):
                return SecV(f"(Sec.neg {v.e})")
            if isinstance(v, FS):
                return FS(f"(-{v.e})")
            if isinstance(v, Op) and not v.name.startswith("neg_"):
                return Op("neg_" + v.name, KINDS)         # `-delta`: another operand, of a kind not known here
            raise Bad("unary minus on an unsupported value: " + ast.unparse(x)[:80])
        if isinstance(x, ast.UnaryOp) and isinstance(x.op, ast.Not):
            return Bv(f"(!{self.as_bool(self.ev(x.operand, env), 'not')})")
        if isinstance(x, ast.BoolOp):
            op = " && " if isinstance(x.op, ast.And) else " || "
            return Bv("(" + op.join(self.as_bool(self.ev(v, env), "and/or") for v in x.values) + ")")
        if isinstance(x, ast.Compare) and len(x.ops) == 1:
            return self.compare(x, env)
        if isinstance(x, ast.BinOp) and isinstance(x.op, ast.Sub):
            a, b = self.ev(x.left, env), self.ev(x.right, env)
            if isinstance(a, NV) and len(a.f) == 7 and a.tz is None and isinstance(b, OffV):
                return EX(f"(self.sub_td {self.n7(a)} {b.e})", "N7", lambda n: NV([f"{n}.{f}" for f in F7]))
            if isinstance(a, I) and isinstance(b, I):
                return I(f"({a.e} - {b.e})")
            raise Bad("subtraction outside the subset: " + ast.unparse(x)[:100])
        if isinstance(x, ast.BinOp) and type(x.op) in (ast.Add, ast.Mult):
            a, b = self.ev(x.left, env), self.ev(x.right, env)
            if isinstance(a, I) and isinstance(b, I):
                return I(f"({a.e} {'+' if isinstance(x.op, ast.Add) else '*'} {b.e})")
            raise Bad("arithmetic outside the subset: " + ast.unparse(x)[:100])
        if isinstance(x, ast.Call):
            return self.call(x, env)
        raise Bad("expression outside the subset: " + ast.unparse(x)[:120])

    def n7(self, v):
        base = v.f[0][:-len(".year")] if v.f[0].endswith(".year") else None
        if base and "." not in base and " " not in base and v.f == [f"{base}.{f}" for f in F7]:
            return base                                # all seven fields of one bound native value: that value
        return "(N7.mk " + " ".join(v.f) + ")"

    def compare(self, x, env):
        op, r = x.ops[0], x.comparators[0]
        if isinstance(op, (ast.Is, ast.IsNot)):
            if not (isinstance(r, ast.Constant) and r.value is None):
                raise Bad("`is` against something other than None")
            v = self.ev(x.left, env)
            neg = isinstance(op, ast.IsNot)
            if v is TZV:
                return Bv("self.hasTz" if neg else "(!self.hasTz)")
            if isinstance(v, TzInfo):
                return Bv(f"{v.name}.aware" if neg else f"(!{v.name}.aware)")
            if isinstance(v, OptWho):
                return Bv(f"({v.e}).isSome" if neg else f"({v.e}).isNone")
            if isinstance(v, OptOff):
                return Bv(f"({v.e}).isSome" if neg else f"({v.e}).isNone")
            raise Bad("`is None` on an unsupported value: " + ast.unparse(x)[:80])
        a, b = self.ev(x.left, env), self.ev(r, env)
        sym = {ast.Eq: "=", ast.NotEq: "≠", ast.Lt: "<", ast.LtE: "≤", ast.Gt: ">", ast.GtE: "≥"}.get(type(op))
        if sym is None:
            raise Bad("comparison outside the subset: " + ast.unparse(x)[:80])
        if a is CALLER and isinstance(b, STRC) and sym in ("=", "≠"):
            return Bv(f'(decide (caller {sym} "{b.s}"))')
        if isinstance(a, I) and isinstance(b, I):
            return Bv(f"(decide ({a.e} {sym} {b.e}))")
        raise Bad("comparison of unsupported values: " + ast.unparse(x)[:80])

    def attribute(self, x, env):
        cx = self.cx
        v = self.ev(x.value, env)
        a = x.attr
        if v is SELF:
            own = F7 if cx.kind == "dt" else F7[:3]
            if a in own:
                return I("self." + a)
            if a == "fold" and cx.kind == "dt":
                return Bv("self.fold")
            if a == "tz" and cx.kind == "dt":
                if not cx.info["tz_is_timezone"]:
                    raise Bad("property tz is no longer `return self.timezone`")
                return TZV
            if a == "__class__":
                return CLS
            raise Bad("unsupported attribute self." + a)
        if isinstance(v, NV):
            names = F7[:len(v.f)]
            if a in names:
                return I(v.f[names.index(a)])
            if a == "fold" and v.fold is not None:
                return Bv(v.fold)
            raise Bad("attribute of a native value outside the subset: ." + a)
        if isinstance(v, Op):
            if a in DUR_PROPS:
                if not (v.S and v.S <= DURS) and not (a == "microseconds" and v.S and v.S <= DELTAS):
                    raise Bad(f".{a}: operand `{v.name}` may be of kind {sorted(v.S - DURS)} here")
                return I(f"{v.name}.{a}")
            if a == "days":
                if not (v.S and v.S <= DELTAS):
                    raise Bad(f".days: operand `{v.name}` may be of kind {sorted(v.S - DELTAS)} here")
                return I(f"{v.name}.days")
            if a == "_signature":
                if not (v.S and v.S <= DURS):
                    raise Bad(f"._signature: operand `{v.name}` may be of kind {sorted(v.S - DURS)} here")
                return SigV(v.name)
            if a in F7 or a == "tzinfo":
                want = DTLIKE if (a in F7[3:] or a == "tzinfo") else DATELIKE
                if not (v.S and v.S <= want):
                    raise Bad(f".{a}: operand `{v.name}` may be of kind {sorted(v.S - want)} here")
                return TzInfo(v.name) if a == "tzinfo" else I(f"{v.name}.{a}")
            raise Bad(f"attribute of the operand outside the subset: .{a}")
        if isinstance(v, WhoV) and a in F7[:3]:
            return _WhoField(v.e, a)
        raise Bad("attribute outside the subset: " + ast.unparse(x)[:100])

    def call(self, x, env):
        cx = self.cx
        f = x.func
        fsrc = ast.unparse(f)
        kws = {k.arg: k.value for k in x.keywords}
        if fsrc == "cast" and len(x.args) == 2 and not kws:
            return self.ev(x.args[1], env)
        if fsrc == "any" and len(x.args) == 1 and not kws and isinstance(x.args[0], (ast.List, ast.Tuple)):
            return Bv("(" + " || ".join(self.as_bool(self.ev(e, env), "any([...])") for e in x.args[0].elts) + ")")
        if fsrc == "isinstance" and len(x.args) == 2 and not kws:
            v = self.ev(x.args[0], env)
            if isinstance(v, Op):
                return Bv(kind_test(v.name, cx.classes(x.args[1])))
            raise Bad("isinstance of something that is not the operand")
        if fsrc == "int" and len(x.args) == 1 and not kws:
            v = self.ev(x.args[0], env)
            if isinstance(v, I):
                return v
            if isinstance(v, FS):
                return I(f"(Int.tdiv {v.e} (1000000 : Int))")
            raise Bad("int() of an unsupported value")
        if fsrc == cx.info["native_dt"][cx.kind]:
            if cx.kind != "dt":
                raise Bad("native datetime constructed in Date code")
            if set(kws) - {"tzinfo", "fold"} or None in kws:
                raise Bad("datetime.datetime(...) with unexpected keywords")
            fs = [self.int_arg(a, env) for a in x.args]
            if len(fs) != 7:
                raise Bad("datetime.datetime(...) is not given all seven fields")
            tz = None
            if "tzinfo" in kws:
                if self.ev(kws["tzinfo"], env) is not UTCM:
                    raise Bad("datetime.datetime(..., tzinfo=<not UTC>)")
                tz = "UTC"
            fold = self.as_bool(self.ev(kws["fold"], env), "fold=") if "fold" in kws else None
            return NV(fs, tz, fold)
        if fsrc == cx.info["native_date"][cx.kind] and cx.kind == "date":
            if kws or len(x.args) != 3:
                raise Bad("date(...) call outside the subset")
            return NV([self.int_arg(a, env) for a in x.args])
        if fsrc == "add_duration":
            if not cx.info["add_duration_imported"][cx.kind]:
                raise Bad("`add_duration` is no longer pendulum.helpers.add_duration")
            names, defaults = cx.info["add_duration_sig"]
            got = self.bind_kw(x, names, {k: I(L(v)) for k, v in defaults.items()}, "add_duration", env, expand=False)
            dt = got["dt"]
            if not isinstance(dt, NV) or dt.tz is not None or dt.fold is not None:
                raise Bad("add_duration is not applied to a plain native value")
            args = " ".join(self.amounts(got, names[1:], "add_duration"))
            if len(dt.f) == 7:
                return EX(f"(self.add_duration {self.n7(dt)} {args})", "N7", lambda n: NV([f"{n}.{f}" for f in F7]))
            return EX(f"(self.add_duration (N3.mk {' '.join(dt.f)}) {args})", "N3", lambda n: NV([f"{n}.{f}" for f in F7[:3]]))
        if fsrc == "self.__class__.create" and cx.kind == "dt":
            if set(kws) - {"tz", "fold"} or "tz" not in kws:
                raise Bad("create(...) keywords: " + ast.unparse(x)[:120])
            if self.ev(kws["tz"], env) is not TZV:
                raise Bad("create(...) is no longer called with the instance's own tz")
            fs = [self.int_arg(a, env) for a in x.args]
            if len(fs) != 7:
                raise Bad("create(...) is not given all seven fields")
            if "fold" in kws:
                fold = self.as_bool(self.ev(kws["fold"], env), "create(fold=)")
            else:
                fold = cx.info["create_fold_default"]
            return REQ("(Req.create " + " ".join(fs) + " " + fold + ")")
        if fsrc == "self.__class__":
            if cx.kind == "dt":
                if set(kws) != {"tzinfo", "fold"}:
                    raise Bad("self.__class__(...) keywords: " + ast.unparse(x)[:120])
                if self.ev(kws["tzinfo"], env) is not TZV:
                    raise Bad("self.__class__(...) is no longer given tzinfo=self.tz")
                fs = [self.int_arg(a, env) for a in x.args]
                if len(fs) != 7:
                    raise Bad("self.__class__(...) is not given all seven fields")
                return REQ("(Req.construct " + " ".join(fs) + " " + self.as_bool(self.ev(kws["fold"], env), "fold=") + ")")
            if kws or len(x.args) != 3:
                raise Bad("self.__class__(...) call outside the subset")
            fs = [self.int_arg(a, env) for a in x.args]
            return REQ("(Req.date " + " ".join(fs) + ")", fs)
        if fsrc == "Date" and cx.kind == "date" and len(x.args) == 3 and not kws:
            vs = [self.ev(a, env) for a in x.args]
            if all(isinstance(v, _WhoField) for v in vs) and [v.a for v in vs] == F7[:3] and len({v.w for v in vs}) == 1:
                return WhoV(f"(Who.as_date {vs[0].w})")
            raise Bad("Date(...) of something that is not the three fields of one object")
        if fsrc == "pendulum.naive" and cx.kind == "dt":
            names, defaults = cx.info["naive_sig"]
            got = self.bind_kw(x, names, {k: I(L(v)) for k, v in defaults.items()}, "pendulum.naive", env, expand=False)
            fs = self.amounts(got, F7, "pendulum.naive")
            return WhoV("(Who.naive " + " ".join(fs) + ")")
        if fsrc == "Interval" and len(x.args) == 2 and set(kws) == {"absolute"}:
            if not cx.info["interval_imported"][cx.kind]:
                raise Bad("`Interval` is no longer pendulum.interval.Interval")
            a, b = (self.as_who(self.ev(e, env), "Interval(...)") for e in x.args)
            return RESV(f"(Res.interval {a} {b} {self.as_bool(self.ev(kws['absolute'], env), 'absolute=')})")
        if fsrc == "super().__add__" and len(x.args) == 1 and not kws:
            v = self.ev(x.args[0], env)
            if isinstance(v, Op) and v.name == "other":
                return RESV("Res.super_add")
            raise Bad("super().__add__ of something that is not the operand")
        if not isinstance(f, ast.Attribute):
            raise Bad("call outside the subset: " + ast.unparse(x)[:120])
        recv, m = self.ev(f.value, env), f.attr
        what = f".{m}()"
        if recv is TZV and m == "convert" and len(x.args) == 1 and not kws and cx.kind == "dt":
            d = self.ev(x.args[0], env)
            if isinstance(d, NV) and len(d.f) == 7 and d.tz == "UTC" and d.fold is None:
                return EX(f"(self.convert_utc {self.n7(d)})", "N7 × Bool",
                          lambda n: NV([f"{n}.1.{f}" for f in F7], tz="self", fold=f"{n}.2"))
            raise Bad("self.tz.convert(...) of something that is not a native UTC datetime")
        if isinstance(recv, Op) and m == "total_seconds" and not x.args and not kws:
            if not (recv.S and recv.S <= DELTAS):
                raise Bad(f".total_seconds(): operand `{recv.name}` may be of kind {sorted(recv.S - DELTAS)} here")
            return FS(f"{recv.name}.total_seconds")
        if recv is SELF:
            if m == "utcoffset" and not x.args and not kws and cx.kind == "dt":
                return OptOff("self.utcoffset")
            if m in ("add", "subtract"):
                lean, (names, defaults) = self.need(m)
                got = self.bind_kw(x, names, {k: I(L(v)) for k, v in defaults.items()}, what, env)
                return RES(f"({lean} self " + " ".join(self.amounts(got, names, what)) + ")", "Req")
            if m in ("_add_timedelta_", "_add_timedelta", "_subtract_timedelta") and len(x.args) == 1 and not kws:
                lean, _ = self.need(m)
                v = self.ev(x.args[0], env)
                if not isinstance(v, Op):
                    raise Bad(what + ": the argument is not the operand")
                if m == "_subtract_timedelta" and cx.kind == "dt":
                    if v.name.startswith("neg_"):
                        raise Bad(what + ": negated operand")
                    return RES(f"({lean} self {v.name} neg_{v.name})", "Req")
                return RES(f"({lean} self {v.name})", "Req")
            if m == "instance" and len(x.args) == 1 and not kws and cx.kind == "dt":
                v = self.ev(x.args[0], env)
                if isinstance(v, Op) and v.S and v.S <= frozenset(["datetime"]) and not v.name.startswith("neg_"):
                    return WhoV(f"(Who.instance_{v.name})")
                raise Bad("self.instance(...) of something that may not be a native datetime")
            if m == "now" and cx.kind == "dt" and len(x.args) == 1 and not kws and self.ev(x.args[0], env) is TZV:
                return WhoV(f"(Who.now {self.self_who})")
            if m == "today" and cx.kind == "date" and not x.args and not kws:
                return WhoV("Who.today")
            if m == "__add__" and len(x.args) == 1 and not kws:
                lean, _ = self.need("__add__")
                v = self.ev(x.args[0], env)
                if isinstance(v, Op) and v.name == "other":
                    if cx.kind == "dt":
                        return RES(f'({lean} self "{self.fname}" other)', "Res")   # the calling frame is this method
                    return RES(f"({lean} self other)", "Res")
                raise Bad("self.__add__ of something that is not the operand")
        if m == "diff":
            lean, _ = self.need("diff")
            names, defaults = cx.info["diff_sig"][cx.kind]
            got = self.bind_kw(x, names, defaults, what, env, expand=False)
            who = self.as_who(recv, what)
            dt = got["dt"]
            dt = "none" if dt is NONE else f"(some {self.as_who(dt, what)})"
            return RES(f"({lean} {who} {dt} {self.as_bool(got['abs'], what)})", "ResPure")
        raise Bad("call outside the subset: " + ast.unparse(x)[:120])

    def int_arg(self, a, env):
        if isinstance(a, ast.Starred):
            raise Bad("*args")
        v = self.ev(a, env)
        if not isinstance(v, I):
            raise Bad("an integer field is expected: " + ast.unparse(a)[:80])
        return v.e

    # ---- statements
    def ret(self, v):
        mode = self.mode
        if mode == "Req":
            if isinstance(v, REQ):
                return f"(.ok {v.e})"
            if isinstance(v, RES) and v.ty == "Req":
                return v.e
        if mode == "Res":
            if v is NOTIMPL:
                return "(.ok Res.notImplemented)"
            if isinstance(v, RESV):
                return f"(.ok {v.e})"
            if isinstance(v, RES) and v.ty == "Req":
                return f"(Except.map Res.value {v.e})"
            if isinstance(v, RES) and v.ty == "Res":
                return v.e
            if isinstance(v, RES) and v.ty == "ResPure":
                return f"(.ok {v.e})"
        if mode == "ResPure":
            if isinstance(v, RESV):
                return v.e
        raise Bad(f"return value of the wrong kind for this method ({type(v).__name__})")

    def block(self, stmts, env):
        if not stmts:
            raise Bad("control falls off the end of " + self.fname)
        s, rest = stmts[0], stmts[1:]
        if isinstance(s, ast.Expr) and isinstance(s.value, ast.Constant):
            return self.block(rest, env)
        if isinstance(s, ast.Return) and s.value is not None:
            return self.ret(self.ev(s.value, env))
        if isinstance(s, ast.AnnAssign) and s.value is not None:
            s = ast.Assign(targets=[s.target], value=s.value)
        if isinstance(s, ast.Assign) and len(s.targets) == 1 and isinstance(s.targets[0], ast.Name):
            name = s.targets[0].id
            v = self.ev(s.value, env)
            env = dict(env)
            if isinstance(v, EX):
                if self.mode == "ResPure":
                    raise Bad("a call that may raise in a method translated without an error channel")
                n = self.fresh(name)
                env[name] = v.mk(n)
                return (f"match {v.e} with\n  | .error e => .error e\n  | .ok {n} =>\n  (" + self.block(rest, env) + ")")
            if isinstance(v, NV) and v.tz != "self":
                n = self.fresh(name)
                ty = "N7" if len(v.f) == 7 else "N3"
                env[name] = NV([f"{n}.{f}" for f in F7[:len(v.f)]], v.tz, v.fold)
                return f"let {n} : {ty} := ({ty}.mk {' '.join(v.f)})\n  " + self.block(rest, env)
            for cls, ty in ((I, "Int"), (Bv, "Bool"), (SecV, "Sec"), (FS, "Int"), (OptOff, "Option Int"), (WhoV, "Who")):
                if isinstance(v, cls):
                    n = self.fresh(name)
                    env[name] = cls(n)
                    return f"let {n} : {ty} := {v.e}\n  " + self.block(rest, env)
            if isinstance(v, (Op, NV, REQ, OptWho)) or v in (CALLER, TZV, SELF):
                env[name] = v                      # alias, no binding needed
                return self.block(rest, env)
            raise Bad("assignment of a value outside the subset: " + ast.unparse(s)[:120])
        if isinstance(s, ast.If):
            test, neg = s.test, False
            if isinstance(test, ast.UnaryOp) and isinstance(test.op, ast.Not):
                test, neg = test.operand, True
            # isinstance narrowing
            if (isinstance(test, ast.Call) and ast.unparse(test.func) == "isinstance" and len(test.args) == 2
                    and isinstance(test.args[0], ast.Name) and isinstance(env.get(test.args[0].id), Op)):
                nm = test.args[0].id
                o = env[nm]
                ks = self.cx.classes(test.args[1])
                c = kind_test(o.name, ks)
                yes, no = dict(env), dict(env)
                yes[nm], no[nm] = Op(o.name, o.S & ks), Op(o.name, o.S - ks)
                env_t, env_f = (no, yes) if neg else (yes, no)
                if neg:
                    c = f"(!{c})"
                th = self.branch(list(s.body) + ([] if terminates(s.body) else rest), env_t)
                el = self.branch(list(s.orelse) + ([] if terminates(s.orelse) else rest), env_f)
                return f"if {c} then\n  ({th})\n  else\n  ({el})"
            # truthiness of `self.utcoffset()`: a timedelta that is not None and not zero
            if not neg and isinstance(test, ast.Name) and isinstance(env.get(test.id), OptOff):
                n = self.fresh(test.id)
                yes = dict(env)
                yes[test.id] = OffV(n)
                th = self.block(list(s.body) + ([] if terminates(s.body) else rest), yes)
                el = self.block(list(s.orelse) + ([] if terminates(s.orelse) else rest), env)
                return (f"match td_truthy {env[test.id].e} with\n  | some {n} =>\n  ({th})\n  | none =>\n  ({el})")
            # `if dt is None: dt = <default>` on the optional argument of diff
            if (not neg and isinstance(test, ast.Compare) and isinstance(test.left, ast.Name)
                    and isinstance(env.get(test.left.id), OptWho) and isinstance(test.ops[0], ast.Is)
                    and len(s.body) == 1 and not s.orelse and isinstance(s.body[0], ast.Assign)
                    and ast.unparse(s.body[0].targets[0]) == test.left.id):
                nm = test.left.id
                d = self.ev(s.body[0].value, env)
                if not isinstance(d, WhoV):
                    raise Bad("default of the optional argument is not an object")
                n = self.fresh(nm)
                env = dict(env)
                old = env[nm].e
                env[nm] = WhoV(n)
                return f"let {n} : Who := (match {old} with | none => {d.e} | some w => w)\n  " + self.block(rest, env)
            c = self.as_bool(self.ev(s.test, env), "if")
            th = self.block(list(s.body) + ([] if terminates(s.body) else rest), env)
            el = self.block(list(s.orelse) + ([] if terminates(s.orelse) else rest), env)
            return f"if {c} then\n  ({th})\n  else\n  ({el})"
        raise Bad("statement outside the subset: " + ast.unparse(s)[:120])

    def branch(self, stmts, env):
        if any(isinstance(v, Op) and not v.S for v in env.values()):
            if self.mode == "ResPure":
                raise Bad("dead branch in a method translated without an error channel")
            return '.error "unreachable"'                      # no operand kind reaches this path
        return self.block(stmts, env)


class _WhoField:     # `<object>.year/month/day`, only usable inside `Date(x.year, x.month, x.day)`
    def __init__(self, w, a):
        self.w, self.a = w, a


def terminates(stmts):
    if not stmts:
        return False
    s = stmts[-1]
    if isinstance(s, (ast.Return, ast.Raise)):
        return True
    if isinstance(s, ast.If):
        return terminates(s.body) and terminates(s.orelse)
    return False


# ----------------------------------------------------------------------------- generated prelude

HEADER = '''/-! GENERATED by tools/gen_dtarith.py from src/pendulum/datetime.py and src/pendulum/date.py — do not edit.

The arithmetic entry points (`add`, `subtract`, `_add_timedelta_`, `_subtract_timedelta`, `diff`, `__add__`, `__radd__`,
`__sub__`, `__rsub__` of DateTime; `add`, `subtract`, `_add_timedelta`, `_subtract_timedelta`, `diff`, `__add__`, `__sub__` of Date),
statement by statement. What is not that source is a parameter:
  `Inst`     the DateTime a method runs on: its fields, `fold`, `hasTz` (`self.tz is not None`), `utcoffset` (`self.utcoffset()` in µs,
             `none` = None) and the callees
               `sub_td n d`          native `<naive datetime n> - <timedelta of d µs>`
               `add_duration n ..`   `helpers.add_duration(n, years=.., .., microseconds=..)`   (regenerated: Gen/AddDuration.lean)
               `convert_utc n`       `self.tz.convert(datetime.datetime(<fields n>, tzinfo=UTC))`: fields and fold of the result
  `DateInst` the Date a method runs on: its fields and `add_duration` on a native `date`
  `Operand`  what the code reads from the other operand: `kind` (answers every `isinstance`), `aware` (`tzinfo is not None`), the
             datetime fields, the Duration/Interval properties, `days`, the entries of `_signature` (`sig_*`) and the numerator in
             µs of `total_seconds()`; `neg_delta` / `neg_other` is `-delta` / `-other`
  `caller`   `traceback.extract_stack(limit=2)[0].name` (pinned verbatim as `caller_source`)
  `Sec`      a `seconds=` amount: an int, or a float given by its numerator in µs
Results: `Req` = the constructor call a method ends in; `Res` = what an operator returns; `Who` = which object an Interval
endpoint is. An exception raised by a callee is passed on (`Except String`). -/
set_option linter.unusedVariables false
namespace Pendulum.Gen.DTArith

structure N7 where
  year : Int
  month : Int
  day : Int
  hour : Int
  minute : Int
  second : Int
  microsecond : Int
deriving DecidableEq, Repr

structure N3 where
  year : Int
  month : Int
  day : Int
deriving DecidableEq, Repr

inductive Sec
  | int (n : Int)
  | us (t : Int)
deriving DecidableEq, Repr

def Sec.neg : Sec → Sec
  | .int n => .int (-n)
  | .us t => .us (-t)

def Sec.nonzero : Sec → Bool
  | .int n => decide (n ≠ 0)
  | .us t => decide (t ≠ 0)

/-- truth value of a `timedelta | None`: the offset when it is neither None nor zero -/
def td_truthy : Option Int → Option Int
  | some o => if o ≠ 0 then some o else none
  | none => none

structure Inst where
  year : Int
  month : Int
  day : Int
  hour : Int
  minute : Int
  second : Int
  microsecond : Int
  fold : Bool
  hasTz : Bool
  utcoffset : Option Int
  sub_td : N7 → Int → Except String N7
  add_duration : N7 → Int → Int → Int → Int → Int → Int → Sec → Int → Except String N7
  convert_utc : N7 → Except String (N7 × Bool)

structure DateInst where
  year : Int
  month : Int
  day : Int
  add_duration : N3 → Int → Int → Int → Int → Int → Int → Sec → Int → Except String N3

inductive OKind | timedelta | duration | interval | date | datetime | pendulumDT | other
deriving DecidableEq, Repr

structure Operand where
  kind : OKind
  aware : Bool
  year : Int
  month : Int
  day : Int
  hour : Int
  minute : Int
  second : Int
  microsecond : Int
  years : Int
  months : Int
  weeks : Int
  days : Int
  remaining_days : Int
  hours : Int
  minutes : Int
  remaining_seconds : Int
  microseconds : Int
  sig_years : Int
  sig_months : Int
  sig_weeks : Int
  sig_days : Int
  sig_hours : Int
  sig_minutes : Int
  sig_seconds : Int
  sig_microseconds : Int
  total_seconds : Int

inductive Req
  | create (year month day hour minute second microsecond : Int) (fold : Bool)
  | construct (year month day hour minute second microsecond : Int) (fold : Bool)
  | date (year month day : Int)
deriving DecidableEq, Repr

inductive Who
  | self
  | other
  | naive (year month day hour minute second microsecond : Int)
  | instance_other
  | date (year month day : Int)
  | now (tzOf : Who)
  | today
  | as_date (w : Who)
deriving DecidableEq, Repr

inductive Res
  | notImplemented
  | value (r : Req)
  | super_add
  | interval (start end_ : Who) (absolute : Bool)
deriving DecidableEq, Repr
'''


# ----------------------------------------------------------------------------- driver

def _sig(fn):
    a = fn.args
    if a.vararg or a.kwarg or a.kwonlyargs or a.posonlyargs:
        raise Bad(f"{fn.name}: signature outside the subset")
    names = [x.arg for x in a.args]
    defaults = dict(zip(names[len(names) - len(a.defaults):], a.defaults)) if a.defaults else {}
    return names, defaults


def _int_defaults(defaults, what):
    out = {}
    for k, d in defaults.items():
        if isinstance(d, ast.Constant) and isinstance(d.value, int) and not isinstance(d.value, bool):
            out[k] = d.value
        else:
            raise Bad(f"{what}: default of {k} is not an integer literal")
    return out


def _body(fn):
    return [s for s in fn.body if not (isinstance(s, ast.Expr) and isinstance(s.value, ast.Constant))]


def _methods(tree, cname):
    cls = next((n for n in tree.body if isinstance(n, ast.ClassDef) and n.name == cname), None)
    if cls is None:
        raise Bad(f"class {cname} not found")
    fns = {}
    for n in cls.body:
        if isinstance(n, ast.FunctionDef) and not any(ast.unparse(d) == "overload" for d in n.decorator_list):
            fns.setdefault(n.name, n)
    return cls, fns


def _imports(tree):
    mods, names = set(), {}
    for n in tree.body:
        if isinstance(n, ast.Import):
            for a in n.names:
                if a.asname is None:
                    mods.add(a.name)
        elif isinstance(n, ast.ImportFrom):
            for a in n.names:
                names[a.asname or a.name] = (n.module, a.name)
    return mods, names


def _func(tree, name):
    fns = [n for n in tree.body if isinstance(n, ast.FunctionDef) and n.name == name
           and not any(ast.unparse(d) == "overload" for d in n.decorator_list)]
    if len(fns) != 1:
        raise Bad(f"function {name}: {len(fns)} definitions")
    return fns[0]


def load():
    src = REPO / "src/pendulum"
    dt_tree = ast.parse((src / "datetime.py").read_text())
    d_tree = ast.parse((src / "date.py").read_text())
    h_tree = ast.parse((src / "helpers.py").read_text())
    i_tree = ast.parse((src / "__init__.py").read_text())
    du_tree = ast.parse((src / "duration.py").read_text())
    iv_tree = ast.parse((src / "interval.py").read_text())
    info = {}
    dcls, dfn = _methods(dt_tree, "DateTime")
    tcls, tfn = _methods(d_tree, "Date")
    dmods, dnames = _imports(dt_tree)
    tmods, tnames = _imports(d_tree)
    _, inames = _imports(i_tree)
    # what the class names used in `isinstance` denote
    if "datetime" not in dmods or "pendulum" not in dmods or "traceback" not in dmods:
        raise Bad("datetime.py no longer imports the modules datetime / pendulum / traceback")
    if "pendulum" not in tmods:
        raise Bad("date.py no longer imports the module pendulum")
    for nm in ("date", "datetime", "timedelta"):
        if tnames.get(nm) != ("datetime", nm):
            raise Bad(f"the name `{nm}` in date.py is no longer datetime.{nm}")
    if inames.get("Duration") != ("pendulum.duration", "Duration") or inames.get("Interval") != ("pendulum.interval", "Interval"):
        raise Bad("pendulum.Duration / pendulum.Interval are no longer pendulum.duration.Duration / pendulum.interval.Interval")
    ducls, dufn = _methods(du_tree, "Duration")
    ivcls, _ = _methods(iv_tree, "Interval")
    if "timedelta" not in [ast.unparse(b) for b in ducls.bases]:
        raise Bad("Duration no longer derives from timedelta")
    if "Duration" not in [ast.unparse(b) for b in ivcls.bases]:
        raise Bad("Interval no longer derives from Duration")
    bases = [ast.unparse(b) for b in dcls.bases]
    if bases != ["datetime.datetime", "Date"]:
        raise Bad(f"DateTime bases are now {bases}")
    info["class_kinds"] = {
        "dt": {"datetime.timedelta": DELTAS, "pendulum.Duration": DURS, "pendulum.Interval": frozenset(["interval"]),
               "datetime.datetime": DTLIKE, "self.__class__": frozenset(["pendulumDT"])},
        "date": {"timedelta": DELTAS, "pendulum.Duration": DURS, "pendulum.Interval": frozenset(["interval"]),
                 "date": DATELIKE, "datetime": DTLIKE},
    }
    info["native_dt"] = {"dt": "datetime.datetime", "date": "datetime"}
    info["native_date"] = {"dt": "datetime.date", "date": "date"}
    info["utc_imported"] = dnames.get("UTC") == ("pendulum.tz", "UTC")
    info["add_duration_imported"] = {"dt": dnames.get("add_duration") == ("pendulum.helpers", "add_duration"),
                                     "date": tnames.get("add_duration") == ("pendulum.helpers", "add_duration")}
    info["interval_imported"] = {"dt": dnames.get("Interval") == ("pendulum.interval", "Interval"),
                                 "date": tnames.get("Interval") == ("pendulum.interval", "Interval")}
    names, defaults = _sig(_func(h_tree, "add_duration"))
    if names != ["dt"] + AMOUNTS:
        raise Bad(f"add_duration signature {names}")
    info["add_duration_sig"] = (names, _int_defaults(defaults, "add_duration"))
    names, defaults = _sig(_func(i_tree, "naive"))
    nv = _func(i_tree, "naive")
    if names[:7] != F7 or ast.unparse(_body(nv)[-1]) != \
            "return DateTime(year, month, day, hour, minute, second, microsecond, fold=fold)":
        raise Bad("pendulum.naive is no longer DateTime(year, month, day, hour, minute, second, microsecond, fold=fold)")
    info["naive_sig"] = (names[:7], {k: v for k, v in _int_defaults(defaults, "pendulum.naive").items() if k in F7})
    # create(): parameter order and the default of `fold`
    cn, cd = _sig(dfn["create"])
    if cn[:8] != ["cls"] + F7 or "fold" not in cd:
        raise Bad(f"create signature {cn}")
    fd = cd["fold"]
    if not (isinstance(fd, ast.Constant) and fd.value in (0, 1)):
        raise Bad("default of create(fold=) is not 0/1")
    info["create_fold_default"] = "true" if fd.value else "false"
    tz = dfn.get("tz")
    info["tz_is_timezone"] = tz is not None and ast.unparse(_body(tz)[-1]) == "return self.timezone"
    # Duration._signature: the keys
    new = dufn.get("__new__")
    keys = None
    for n in ast.walk(new) if new is not None else []:
        if isinstance(n, ast.Assign) and ast.unparse(n.targets[0]) == "self._signature" and isinstance(n.value, ast.Dict):
            keys = [k.value if isinstance(k, ast.Constant) else None for k in n.value.keys]
    if keys is None or sorted(keys, key=str) != sorted(AMOUNTS):
        raise Bad(f"Duration._signature keys are {keys}")
    info["sig_keys"] = keys
    info["diff_sig"] = {}
    return info, dfn, tfn


def generate(changed, fallbacks, _write):
    from tools.gen_lean import GEN
    out = [HEADER]

    def finish():
        out.append("end Pendulum.Gen.DTArith\n")
        _write(GEN / "DTArith.lean", "\n".join(out), changed)
        return 0

    try:
        info, dfn, tfn = load()
    except (Bad, OSError, SyntaxError, StopIteration, KeyError) as e:
        fallbacks.append(f"DTArith: cannot read the sources: {e}")
        return finish()

    # the expression `__add__` reads its calling frame with is not translated: it is pinned verbatim (theorem `caller_guard_pinned`)
    caller_src = ""
    for n in ast.walk(dfn["__add__"]) if "__add__" in dfn else []:
        if isinstance(n, ast.Assign) and len(n.targets) == 1 and ast.unparse(n.targets[0]) == "caller":
            caller_src = ast.unparse(n.value)
    info["caller_src"] = caller_src
    if caller_src != CALLER_SRC:
        fallbacks.append(f"DTArith: `__add__` no longer reads its calling frame with `{CALLER_SRC}` (now: `{caller_src[:120]}`)")
    esc = caller_src.replace("\\", "\\\\").replace('"', '\\"')
    out.append(f'/-- the expression `__add__` reads the calling frame with, verbatim -/\ndef caller_source : String := "{esc}"\n')

    def emit(label, thunk):
        try:
            out.append(thunk())
        except (Bad, StopIteration, KeyError, IndexError, AttributeError, OSError, SyntaxError) as e:
            fallbacks.append(f"DTArith: cannot translate {label}: {e}")
            out.append(f"-- UNTRANSLATABLE {label}: {str(e)[:300]}\n")

    for kind, cname, fns in (("dt", "DateTime", dfn), ("date", "Date", tfn)):
        cx = Cx(kind, fns, info)
        inst = "Inst" if kind == "dt" else "DateInst"
        am = AMOUNTS if kind == "dt" else AMOUNTS[:4]

        def amount_params(names):
            return " ".join(f"({n} : {'Sec' if n == 'seconds' else 'Int'})" for n in names)

        def amount_env(names):
            return {n: (SecV(n) if n == "seconds" else I(n)) for n in names}

        def t_addsub(name):
            def go():
                fn = fns[name]
                names, defaults = _sig(fn)
                if names != ["self"] + am:
                    raise Bad(f"signature {names}")
                d = _int_defaults(defaults, f"{cname}.{name}")
                if sorted(d) != sorted(am) or any(v != 0 for v in d.values()):
                    raise Bad("a parameter whose default is not 0")
                lean = f"{cx.pre}_{name}"
                term = Tr(cx, name, "Req").block(_body(fn), amount_env(am))
                cx.sigs[name] = (lean, (am, d))
                return (f"/-- `{cname}.{name}({', '.join(am)})` -/\n"
                        f"def {lean} (self : {inst}) {amount_params(am)} : Except String Req :=\n  {term}\n")
            return go

        def t_td(name, lname, with_neg):
            def go():
                fn = fns[name]
                names, defaults = _sig(fn)
                if names != ["self", "delta"] or defaults:
                    raise Bad(f"signature {names}")
                ann = ast.unparse(fn.args.args[1].annotation) if fn.args.args[1].annotation else None
                if ann not in ("datetime.timedelta", "timedelta"):
                    raise Bad(f"annotation of delta is {ann}")
                lean = f"{cx.pre}_{lname}"
                term = Tr(cx, name, "Req").block(_body(fn), {"delta": Op("delta", DELTAS)})
                cx.sigs[name] = (lean, None)
                ps = "(delta neg_delta : Operand)" if with_neg else "(delta : Operand)"
                return (f"/-- `{cname}.{name}(delta)` for a timedelta operand (plain, Duration or Interval) -/\n"
                        f"def {lean} (self : {inst}) {ps} : Except String Req :=\n  {term}\n")
            return go

        def t_diff():
            fn = fns["diff"]
            names, defaults = _sig(fn)
            if names != ["self", "dt", "abs"]:
                raise Bad(f"signature {names}")
            dd = {}
            if "dt" in defaults:
                if not (isinstance(defaults["dt"], ast.Constant) and defaults["dt"].value is None):
                    raise Bad("default of dt is not None")
                dd["dt"] = NONE
            if "abs" in defaults:
                if not (isinstance(defaults["abs"], ast.Constant) and isinstance(defaults["abs"].value, bool)):
                    raise Bad("default of abs is not a bool")
                dd["abs"] = Bv("true" if defaults["abs"].value else "false")
            info["diff_sig"][kind] = (["dt", "abs"], dd)
            lean = f"{cx.pre}_diff"
            term = Tr(cx, "diff", "ResPure", self_who="me").block(_body(fn), {"dt": OptWho("dt"), "abs": Bv("abs")})
            cx.sigs["diff"] = (lean, None)
            return (f"/-- `{cname}.diff(dt, abs)`; `me` is the receiver (which object it is) -/\n"
                    f"def {lean} (me : Who) (dt : Option Who) (abs : Bool) : Res :=\n  {term}\n")

        def t_op(name, lname, with_neg, with_caller):
            def go():
                fn = fns[name]
                names, defaults = _sig(fn)
                if names != ["self", "other"] or defaults:
                    raise Bad(f"signature {names}")
                lean = f"{cx.pre}_{lname}"
                term = Tr(cx, name, "Res").block(_body(fn), {"other": Op("other", KINDS)})
                cx.sigs[name] = (lean, None)
                ps = ("(caller : String) " if with_caller else "") + ("(other neg_other : Operand)" if with_neg else "(other : Operand)")
                return (f"/-- `{cname}.{name}(other)` -/\n"
                        f"def {lean} (self : {inst}) {ps} : Except String Res :=\n  {term}\n")
            return go

        emit(f"{cname}.add", t_addsub("add"))
        emit(f"{cname}.subtract", t_addsub("subtract"))
        if kind == "dt":
            emit("DateTime._add_timedelta_", t_td("_add_timedelta_", "add_timedelta", False))
            emit("DateTime._subtract_timedelta", t_td("_subtract_timedelta", "subtract_timedelta", True))
            emit("DateTime.diff", t_diff)
            emit("DateTime.__sub__", t_op("__sub__", "op_sub", True, False))
            emit("DateTime.__rsub__", t_op("__rsub__", "op_rsub", False, False))
            emit("DateTime.__add__", t_op("__add__", "op_add", False, True))
            emit("DateTime.__radd__", t_op("__radd__", "op_radd", False, False))
        else:
            emit("Date._add_timedelta", t_td("_add_timedelta", "add_timedelta", False))
            emit("Date._subtract_timedelta", t_td("_subtract_timedelta", "subtract_timedelta", False))
            emit("Date.diff", t_diff)
            emit("Date.__add__", t_op("__add__", "op_add", False, False))
            emit("Date.__sub__", t_op("__sub__", "op_sub", False, False))
    return finish()


if __name__ == "__main__":
    import json
    import sys
    sys.path.insert(0, str(Path(__file__).resolve().parent.parent))
    from tools.gen_lean import _write
    ch, fb = [], []
    generate(ch, fb, _write)
    print(json.dumps(dict(changed=ch, fallbacks=fb), indent=1))
