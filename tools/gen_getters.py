"""Translator: the calendar getters and small derived properties of src/pendulum/date.py, src/pendulum/datetime.py,
src/pendulum/day.py, src/pendulum/helpers.py (week_starts_at / week_ends_at), src/pendulum/mixins/default.py
                ->  lean/Pendulum/Gen/Getters.lean

Every property / method of the lists `DATE_TOP` / `DT_TOP` / `MIXIN_TOP` below becomes one Lean definition, statement by
statement, in source order (`date_<name> E self …` over a date `self : D`, `dt_<name> E self …` over an instance record
`self : Inst O`).  A call of another listed method is a call of its Lean definition; a call of an unlisted pendulum method
(`diff`, `first_of`, `_first_of_month`, `set`, `replace`, `today`, `date`, `format`, `_to_string`, …) is *inlined*
(the callee's body is evaluated symbolically with the actual arguments, constant conditions folded), so that an edit there
changes the caller's definition.  What is not pendulum source — the standard library (`weekday`, `isoweekday`,
`isocalendar`, `calendar.monthrange/isleap`, `strftime`, `isoformat`, `utcoffset`, `dst`, `timestamp`, `date.today`,
comparison of dates / datetimes) and other pendulum modules (`Interval.in_*`, `Date.add`, `DateTime.add/now/instance/create/
in_timezone/__sub__`, `Formatter.format`, `local_timezone`) — is a field of the parameter records `Ext O` / `Inst O`.

Trusted reading: `a / n` is the exact rational (`Frac` = numerator, denominator), `math.ceil(a / n)` = `py_ceil_div a n`,
`int(a / n)` = `Int.tdiv a n`; a `timedelta` is its microseconds; `float` results are exact rationals; `a - b` on datetimes is
`Interval(b, a, absolute=False)` (DateTime.__sub__, Gen/DTArith) and `abs(interval)` the same end points with
absolute=True; Python `min`/`max` keep the first extremal item.
Anything outside the subset is a fallback (prefix "Getters:").
"""
from __future__ import annotations

import ast
import os
import re
from pathlib import Path

REPO = Path(os.environ.get("VERIF_REPO", "/repo"))


class Bad(Exception):
    pass


def L(v):
    return f"({v} : Int)"


def lstr(s: str) -> str:
    return '"' + s.replace("\\", "\\\\").replace('"', '\\"').replace("\n", "\\n") + '"'


# ----------------------------------------------------------------------------- symbolic values

class I:
    def __init__(self, e):
        self.e = e


class B:
    def __init__(self, e, const=None):
        self.e, self.const = e, const


class Q:            # exact rational n / d  (d a positive Python int)
    def __init__(self, n, d):
        self.n, self.d = n, d


class S:            # static string
    def __init__(self, s):
        self.s = s


class STR:          # Lean String term
    def __init__(self, e):
        self.e = e


class TD:           # timedelta, microseconds (Lean Int term)
    def __init__(self, e):
        self.e = e


class TZ:           # Lean TzInfo term
    def __init__(self, e):
        self.e = e


class TUP:
    def __init__(self, items):
        self.items = items


class DOBJ:         # a date object (fields are Lean Int terms; `whole` = a Lean term of type D when there is one)
    def __init__(self, y, m, d, whole=None):
        self.y, self.m, self.d, self.whole = y, m, d, whole

    @staticmethod
    def of(term):
        return DOBJ(f"{term}.year", f"{term}.month", f"{term}.day", term)

    def term(self):
        return self.whole if self.whole else f"(D.mk {self.y} {self.m} {self.d})"


class OOBJ:         # a datetime object: `o` Lean term of type O, `v` Lean term of type Inst O (its view)
    def __init__(self, o, v=None):
        self.o = o
        self.v = v if v else f"(E.view {o})"


class OPT:          # Lean `Option <kind>` term; kind in I TD D O TZ STR
    def __init__(self, kind, e):
        self.kind, self.e = kind, e


class IVL:          # Interval(a, b, absolute=abs)
    def __init__(self, kind, a, b, absb):
        self.kind, self.a, self.b, self.absb = kind, a, b, absb


class LST:          # Lean List term of elements of `kind`
    def __init__(self, kind, e):
        self.kind, self.e = kind, e


class LAM:
    def __init__(self, node):
        self.node = node


class DICT:
    def __init__(self, d):
        self.d = d


class SLIST:        # static list of static strings
    def __init__(self, items):
        self.items = items


class CLS:          # a class object (`recv`: the instance whose `__class__` it is)
    def __init__(self, name, recv=None):
        self.name, self.recv = name, recv


class BM:           # bound method
    def __init__(self, recv, name):
        self.recv, self.name = recv, name


class RES:          # result of a call of a generated Lean definition
    def __init__(self, e, kind, raises, opt_=False):
        self.e, self.kind, self.raises, self.opt_ = e, kind, raises, opt_


class _Tok:
    def __init__(self, n):
        self.n = n


NONE = _Tok("None")

LEAN_TY = {"I": "Int", "B": "Bool", "Q": "Frac", "STR": "String", "D": "D", "O": "O", "TZ": "TzInfo", "TD": "Int",
           "G": "GlobalSet", "IVT": "O × O × Bool"}


def kind_of(v):
    if isinstance(v, I):
        return "I"
    if isinstance(v, B):
        return "B"
    if isinstance(v, Q):
        return "Q"
    if isinstance(v, (S, STR)):
        return "STR"
    if isinstance(v, TD):
        return "TD"
    if isinstance(v, TZ):
        return "TZ"
    if isinstance(v, DOBJ):
        return "D"
    if isinstance(v, OOBJ):
        return "O"
    if isinstance(v, IVL) and v.kind == "t":
        return "IVT"
    return None


def term_of(v):
    if isinstance(v, (I, B, STR, TD, TZ)):
        return v.e
    if isinstance(v, Q):
        return f"(({v.n}, {L(v.d)}) : Frac)"
    if isinstance(v, S):
        return lstr(v.s)
    if isinstance(v, DOBJ):
        return v.term()
    if isinstance(v, OOBJ):
        return v.o
    if isinstance(v, IVL) and v.kind == "t":
        return f"({v.a}, {v.b}, {v.absb})"
    raise Bad("value without a Lean term")


def wrap(kind, e):
    if kind == "I":
        return I(e)
    if kind == "B":
        return B(e)
    if kind == "STR":
        return STR(e)
    if kind == "TD":
        return TD(e)
    if kind == "TZ":
        return TZ(e)
    if kind == "D":
        return DOBJ.of(e)
    if kind == "O":
        return OOBJ(e)
    if kind == "Q":
        raise Bad("a rational cannot be bound to a name")
    raise Bad("cannot wrap kind " + kind)


class Sig:
    def __init__(self, lean, params, ret, opt, raises, owner, pyargs):
        self.lean, self.params, self.ret, self.opt, self.raises = lean, params, ret, opt, raises
        self.owner, self.pyargs = owner, pyargs


def body_of(fn):
    return [s for s in fn.body if not (isinstance(s, ast.Expr) and isinstance(s.value, ast.Constant))]


# ----------------------------------------------------------------------------- world

class World:
    """the parsed sources: classes, constants, the WeekDay enum"""

    def __init__(self):
        from tools.gen_lean import py_constants
        self.allc = py_constants()
        src = REPO / "src/pendulum"
        self.mod = {}
        for key, rel in (("date", "date.py"), ("datetime", "datetime.py"), ("day", "day.py"), ("helpers", "helpers.py"),
                         ("mixin", "mixins/default.py"), ("init", "__init__.py")):
            self.mod[key] = ast.parse((src / rel).read_text())
        self.cls = {
            "Date": self._class("date", "Date"), "DateTime": self._class("datetime", "DateTime"),
            "FormattableMixin": self._class("mixin", "FormattableMixin"), "WeekDay": self._class("day", "WeekDay"),
        }
        self.weekdays = []
        for n in self.cls["WeekDay"].body:
            if isinstance(n, ast.Assign) and len(n.targets) == 1 and isinstance(n.targets[0], ast.Name) \
                    and isinstance(n.value, ast.Constant) and isinstance(n.value.value, int):
                self.weekdays.append((n.targets[0].id, n.value.value))
            elif isinstance(n, (ast.Assign, ast.AnnAssign, ast.FunctionDef)):
                raise Bad("WeekDay has a member that is not `NAME = <int>`: " + ast.unparse(n)[:80])
        bases = [ast.unparse(b) for b in self.cls["WeekDay"].bases]
        if bases != ["IntEnum"]:
            raise Bad(f"WeekDay is no longer an IntEnum: {bases}")
        self.imports = {k: self._imports(k) for k in ("date", "datetime", "helpers", "mixin")}
        self.mro = {"date": ["Date", "FormattableMixin"], "dt": ["DateTime", "Date", "FormattableMixin"]}
        b = {"Date": [ast.unparse(x) for x in self.cls["Date"].bases],
             "DateTime": [ast.unparse(x) for x in self.cls["DateTime"].bases]}
        if b["Date"] != ["FormattableMixin", "date"] or b["DateTime"] != ["datetime.datetime", "Date"]:
            raise Bad(f"unexpected base classes {b}")
        self.sigs = {"date": {}, "dt": {}}

    def _class(self, mod, name):
        for n in self.mod[mod].body:
            if isinstance(n, ast.ClassDef) and n.name == name:
                return n
        raise Bad(f"class {name} not found")

    def _imports(self, mod):
        """name -> (module, original name) for `from M import N`; plain `import M` -> (M, None)"""
        out = {}
        for n in self.mod[mod].body:
            if isinstance(n, ast.ImportFrom):
                for a in n.names:
                    out[a.asname or a.name] = (n.module, a.name)
            elif isinstance(n, ast.Import):
                for a in n.names:
                    out[a.asname or a.name] = (a.name, None)
        return out

    def modkey(self, cname):
        return {"Date": "date", "DateTime": "datetime", "FormattableMixin": "mixin", "helpers": "helpers"}[cname]

    def find(self, ckind, name, start=0):
        """(class name, node) of attribute `name` along the MRO of an instance of kind `ckind`"""
        for cname in self.mro[ckind][start:]:
            found = None
            for n in self.cls[cname].body:
                if isinstance(n, ast.FunctionDef) and n.name == name:
                    if any(isinstance(d, ast.Attribute) and d.attr == "setter" for d in n.decorator_list):
                        continue
                    if any(isinstance(d, ast.Name) and d.id == "overload" for d in n.decorator_list):
                        continue
                    found = n
                elif isinstance(n, ast.Assign) and len(n.targets) == 1 and isinstance(n.targets[0], ast.Name) \
                        and n.targets[0].id == name:
                    found = n
                elif isinstance(n, ast.AnnAssign) and isinstance(n.target, ast.Name) and n.target.id == name \
                        and n.value is not None:
                    found = n
            if found is not None:
                return cname, found
        return None, None


def is_prop(fn):
    return isinstance(fn, ast.FunctionDef) and any(isinstance(d, ast.Name) and d.id == "property" for d in fn.decorator_list)


def is_classmethod(fn):
    return isinstance(fn, ast.FunctionDef) and any(isinstance(d, ast.Name) and d.id == "classmethod" for d in fn.decorator_list)


# ----------------------------------------------------------------------------- evaluator

EXTERNAL_METHODS = {("dt", "now"), ("dt", "instance"), ("dt", "create"), ("dt", "in_timezone"), ("dt", "add"),
                    ("date", "add")}
MODULE_NAMES = {"calendar", "math", "pendulum", "datetime"}
BUILTINS = {"int", "abs", "min", "max", "repr", "callable", "isinstance", "getattr", "str", "cast", "len"}


class Fr:
    def __init__(self, ckind, cname, selfv, env, clsv=None):
        self.ckind, self.cname, self.selfv, self.env, self.clsv = ckind, cname, selfv, env, clsv


class Ev:
    def __init__(self, w: World):
        self.w = w
        self.n = 0
        self.uses_e = False
        self.depth = 0

    def fresh(self, base):
        self.n += 1
        return f"{base.strip('_') or 'v'}_{self.n}"

    def E(self, field):
        if field not in EXT_FIELDS:
            raise Bad(f"no parameter for `{field}` in the record Ext")
        return f"E.{field}"

    # ---- coercions
    def i(self, x, fr):
        v = self.ev(x, fr)
        if isinstance(v, I):
            return v.e
        if isinstance(v, B):
            return f"(if {v.e} then (1 : Int) else 0)"
        raise Bad("integer expected: " + ast.unparse(x)[:100])

    def truth(self, v, src=""):
        if isinstance(v, B):
            return v
        if isinstance(v, I):
            return B(f"(decide ({v.e} ≠ 0))")
        if isinstance(v, TZ):                       # pendulum timezone objects define neither __bool__ nor __len__
            return B(f"(!(TzInfo.isNone {v.e}))")
        if v is NONE:
            return B("false", const=False)
        if isinstance(v, S):
            return B("true" if v.s else "false", const=bool(v.s))
        if isinstance(v, STR):
            return B(f"(!({v.e} == \"\"))")
        if isinstance(v, (DOBJ, OOBJ)):
            return B("true", const=True)
        raise Bad("condition expected: " + src[:100])

    def b(self, x, fr):
        return self.truth(self.ev(x, fr), ast.unparse(x))

    # ---- names
    def name(self, x, fr):
        n = x.id
        if n == "self":
            return fr.selfv
        if n in fr.env:
            return fr.env[n]
        if n == "cls" and fr.clsv is not None:
            return fr.clsv
        imp = self.w.imports[self.w.modkey(fr.cname)]
        if n in imp:
            mod, orig = imp[n]
            if mod == "pendulum.constants":
                c = self.w.allc.get(orig)
                if isinstance(c, bool) or c is None:
                    raise Bad(f"constant {orig} is not an int / str")
                if isinstance(c, int):
                    return I(L(c))
                if isinstance(c, str):
                    return S(c)
                if isinstance(c, (tuple, list)):
                    return CLS("const:" + orig)
                raise Bad(f"constant {orig} of unsupported type")
            if orig is None and mod in MODULE_NAMES:
                return CLS(mod)
            known = {("pendulum.date", "Date"): "Date", ("pendulum.day", "WeekDay"): "WeekDay",
                     ("pendulum.interval", "Interval"): "Interval", ("datetime", "date"): "date",
                     ("datetime", "datetime"): "datetime.datetime", ("datetime", "timedelta"): "timedelta",
                     ("typing", "cast"): "cast", ("pendulum.tz.timezone", "Timezone"): "Timezone",
                     ("pendulum.tz.timezone", "FixedTimezone"): "FixedTimezone",
                     ("pendulum.tz", "local_timezone"): "local_timezone",
                     ("pendulum.formatting", "Formatter"): "Formatter"}
            if (mod, orig) in known:
                return CLS(known[(mod, orig)])
            raise Bad(f"name {n} imported from {mod} is outside the subset")
        if n in ("Date", "DateTime") and n == fr.cname:
            return CLS(n)
        if n in BUILTINS:
            return CLS(n)
        if n == "_formatter" and fr.cname == "FormattableMixin":
            return CLS("formatter")
        raise Bad("unknown name " + n)

    # ---- expressions
    def ev(self, x, fr):
        if isinstance(x, ast.Constant):
            c = x.value
            if c is None:
                return NONE
            if isinstance(c, bool):
                return B("true" if c else "false", const=c)
            if isinstance(c, int):
                return I(L(c))
            if isinstance(c, str):
                return S(c)
            raise Bad("constant outside the subset: " + repr(c))
        if isinstance(x, ast.Name):
            return self.name(x, fr)
        if isinstance(x, ast.Tuple):
            return TUP([self.ev(e, fr) for e in x.elts])
        if isinstance(x, ast.List):
            vs = [self.ev(e, fr) for e in x.elts]
            if all(isinstance(v, S) for v in vs):
                return SLIST([v.s for v in vs])
            raise Bad("list literal that is not a list of string literals")
        if isinstance(x, ast.Dict):
            d = {}
            for k, v in zip(x.keys, x.values):
                if not (isinstance(k, ast.Constant) and isinstance(k.value, str)):
                    raise Bad("dict literal with a non-literal key")
                d[k.value] = LAM(v) if isinstance(v, ast.Lambda) else self.ev(v, fr)
            return DICT(d)
        if isinstance(x, ast.Lambda):
            return LAM(x)
        if isinstance(x, ast.UnaryOp) and isinstance(x.op, ast.USub):
            v = self.ev(x.operand, fr)
            if isinstance(v, I):
                return I(f"(-{v.e})")
            if isinstance(v, TD):
                return TD(f"(-{v.e})")
            raise Bad("unary minus outside the subset")
        if isinstance(x, ast.UnaryOp) and isinstance(x.op, ast.Not):
            v = self.b(x.operand, fr)
            return B(f"(!{v.e})", None if v.const is None else (not v.const))
        if isinstance(x, ast.BinOp):
            return self.binop(x, fr)
        if isinstance(x, ast.BoolOp):
            vs = [self.b(v, fr) for v in x.values]
            isand = isinstance(x.op, ast.And)
            if all(v.const is not None for v in vs):
                c = all(v.const for v in vs) if isand else any(v.const for v in vs)
                return B("true" if c else "false", const=c)
            return B("(" + (" && " if isand else " || ").join(v.e for v in vs) + ")")
        if isinstance(x, ast.Compare):
            if len(x.ops) != 1:
                raise Bad("chained comparison")
            return self.compare(x, fr)
        if isinstance(x, ast.IfExp):
            c = self.b(x.test, fr)
            if c.const is not None:
                return self.ev(x.body if c.const else x.orelse, fr)
            a, bb = self.ev(x.body, fr), self.ev(x.orelse, fr)
            if isinstance(a, OPT) and ast.unparse(x.test) == f"{ast.unparse(x.body)} is not None" and kind_of(bb) == a.kind:
                return wrap(a.kind, f"(Option.getD {a.e} {term_of(bb)})")
            ka, kb = kind_of(a), kind_of(bb)
            if ka is not None and ka == kb and ka != "Q":
                return wrap(ka, f"(if {c.e} then {term_of(a)} else {term_of(bb)})")
            raise Bad("conditional expression outside the subset: " + ast.unparse(x)[:100])
        if isinstance(x, ast.JoinedStr):
            return self.joined(x, fr)
        if isinstance(x, ast.Subscript):
            return self.subscript(x, fr)
        if isinstance(x, ast.Attribute):
            return self.attribute(x, fr)
        if isinstance(x, ast.Call):
            return self.call(x, fr)
        raise Bad("expression outside the subset: " + ast.unparse(x)[:120])

    def binop(self, x, fr):
        a, bb = self.ev(x.left, fr), self.ev(x.right, fr)
        op = type(x.op)
        if isinstance(a, B):
            a = I(f"(if {a.e} then (1 : Int) else 0)")
        if isinstance(bb, B):
            bb = I(f"(if {bb.e} then (1 : Int) else 0)")
        if op in (ast.Add, ast.Sub, ast.Mult) and isinstance(a, I) and isinstance(bb, I):
            o = {ast.Add: "+", ast.Sub: "-", ast.Mult: "*"}[op]
            return I(f"({a.e} {o} {bb.e})")
        if op is ast.Add and isinstance(a, (S, STR)) and isinstance(bb, (S, STR)):
            return cat([a, bb])
        if op is ast.Sub and isinstance(a, OOBJ) and isinstance(bb, OOBJ):
            # DateTime.__sub__(other) = other.diff(self, False) = Interval(other, self, absolute=False) (Gen/DTArith, C11)
            return IVL("t", bb.o, a.o, "false")
        lit = self.poslit(x.right, fr)
        if op in (ast.FloorDiv, ast.Mod) and isinstance(a, I) and isinstance(bb, I):
            if lit is not None:
                return I(f"({a.e} {'/' if op is ast.FloorDiv else '%'} {bb.e})")
            return I(f"({'Int.fdiv' if op is ast.FloorDiv else 'Int.fmod'} {a.e} {bb.e})")
        if op is ast.Div and lit is not None:
            if isinstance(a, I):
                return Q(a.e, lit)
            if isinstance(a, Q):
                return Q(a.n, a.d * lit)
        raise Bad("arithmetic outside the subset: " + ast.unparse(x)[:100])

    def poslit(self, x, fr):
        if isinstance(x, ast.Constant) and isinstance(x.value, int) and not isinstance(x.value, bool) and x.value > 0:
            return x.value
        if isinstance(x, ast.Name) and x.id not in fr.env:
            imp = self.w.imports[self.w.modkey(fr.cname)].get(x.id)
            if imp and imp[0] == "pendulum.constants":
                c = self.w.allc.get(imp[1])
                if isinstance(c, int) and not isinstance(c, bool) and c > 0:
                    return c
        return None

    def compare(self, x, fr):
        op = x.ops[0]
        if isinstance(op, (ast.Is, ast.IsNot)):
            r = self.ev(x.comparators[0], fr)
            if r is not NONE:
                raise Bad("`is` against something other than None")
            v = self.ev(x.left, fr)
            neg = isinstance(op, ast.IsNot)
            if v is NONE:
                return B("false" if neg else "true", const=not neg)
            if isinstance(v, OPT):
                return B(f"(Option.isSome {v.e})" if neg else f"(Option.isNone {v.e})")
            if isinstance(v, TZ):
                return B(f"(!(TzInfo.isNone {v.e}))" if neg else f"(TzInfo.isNone {v.e})")
            if kind_of(v) is not None or isinstance(v, (TUP, IVL)):
                return B("true" if neg else "false", const=neg)
            raise Bad("`is None` on an unsupported value")
        if isinstance(op, (ast.In, ast.NotIn)):
            a, c = self.ev(x.left, fr), self.ev(x.comparators[0], fr)
            neg = isinstance(op, ast.NotIn)
            if isinstance(a, S) and isinstance(c, (SLIST, DICT)):
                r = (a.s in (c.items if isinstance(c, SLIST) else c.d)) != neg
                return B("true" if r else "false", const=r)
            if isinstance(a, S) and isinstance(c, (S, STR)):
                if isinstance(c, S):
                    r = (a.s in c.s) != neg
                    return B("true" if r else "false", const=r)
                e = f"(py_str_contains {c.e} {lstr(a.s)})"
                return B(f"(!{e})" if neg else e)
            raise Bad("membership test outside the subset: " + ast.unparse(x)[:100])
        a, bb = self.ev(x.left, fr), self.ev(x.comparators[0], fr)
        return self.cmpv(a, bb, op, ast.unparse(x))

    def cmpv(self, a, bb, op, src=""):
        o = {ast.Eq: "=", ast.NotEq: "≠", ast.Lt: "<", ast.LtE: "≤", ast.Gt: ">", ast.GtE: "≥"}.get(type(op))
        if o is None:
            raise Bad("comparison outside the subset: " + src[:100])
        eqop = o in ("=", "≠")
        if isinstance(a, B) and isinstance(bb, B) and eqop:
            return B(f"({a.e} {'==' if o == '=' else '!='} {bb.e})")
        if isinstance(a, B):
            a = I(f"(if {a.e} then (1 : Int) else 0)")
        if isinstance(bb, B):
            bb = I(f"(if {bb.e} then (1 : Int) else 0)")
        if isinstance(a, I) and isinstance(bb, I) or isinstance(a, TD) and isinstance(bb, TD):
            return B(f"(decide ({a.e} {o} {bb.e}))")
        if isinstance(a, Q) and isinstance(bb, I) or isinstance(a, I) and isinstance(bb, Q):
            raise Bad("comparison of a quotient")
        if eqop and isinstance(a, (S, STR)) and isinstance(bb, (S, STR)):
            if isinstance(a, S) and isinstance(bb, S):
                r = (a.s == bb.s) == (o == "=")
                return B("true" if r else "false", const=r)
            return B(f"({term_of(a)} {'==' if o == '=' else '!='} {term_of(bb)})")
        if eqop and isinstance(a, TUP) and isinstance(bb, TUP) and len(a.items) == len(bb.items):
            parts = [self.cmpv(p, q, ast.Eq()) for p, q in zip(a.items, bb.items)]
            e = "(" + " && ".join(p.e for p in parts) + ")"
            return B(e if o == "=" else f"(!{e})")
        # Optional[int] / Optional[timedelta] against a value or another optional: None == v is False, None == None is True
        if eqop and (isinstance(a, OPT) or isinstance(bb, OPT)):
            def opt(v):
                if isinstance(v, OPT) and v.kind in ("I", "TD"):
                    return v.e, v.kind
                if isinstance(v, (I, TD)):
                    return f"(some {v.e})", kind_of(v)
                if v is NONE:
                    return "none", None
                raise Bad("comparison of an optional with an unsupported value: " + src[:100])
            (ea, ka), (eb, kb) = opt(a), opt(bb)
            if ka and kb and ka != kb:
                raise Bad("comparison of optionals of different kinds: " + src[:100])
            return B(f"(({ea} : Option Int) {'==' if o == '=' else '!='} {eb})")
        if isinstance(a, IVL) and isinstance(bb, IVL) and a.kind == bb.kind:
            args = f"{a.a} {a.b} {a.absb} {bb.a} {bb.b} {bb.absb}"
            if eqop:
                e = f"({self.E('iv' + a.kind + '_eq')} {args})"
                return B(e if o == "=" else f"(!{e})")
            return B(f"(decide (({self.E('iv' + a.kind + '_cmp')} {args}) {o} (0 : Int)))")
        if isinstance(a, DOBJ) and isinstance(bb, DOBJ):
            return B(f"(decide (({self.E('date_cmp')} {a.term()} {bb.term()}) {o} (0 : Int)))")
        if isinstance(a, OOBJ) and isinstance(bb, OOBJ):
            if eqop:
                e = f"({self.E('dt_eq')} {a.o} {bb.o})"
                return B(e if o == "=" else f"(!{e})")
            return B(f"(decide (({self.E('dt_cmp')} {a.o} {bb.o}) {o} (0 : Int)))")
        raise Bad("comparison of unsupported values: " + src[:100])

    def joined(self, x, fr):
        parts = []
        for p in x.values:
            if isinstance(p, ast.Constant):
                parts.append(S(p.value))
            elif isinstance(p, ast.FormattedValue):
                if p.format_spec is not None or p.conversion != -1:
                    raise Bad("f-string with a format spec / conversion")
                parts.append(self.ev(p.value, fr))
            else:
                raise Bad("f-string part outside the subset")
        return cat(parts)

    def subscript(self, x, fr):
        v = self.ev(x.value, fr)
        if isinstance(v, TUP):
            k = x.slice
            if isinstance(k, ast.Constant) and isinstance(k.value, int) and -len(v.items) <= k.value < len(v.items):
                return v.items[k.value]
            raise Bad("tuple index that is not a literal in range")
        if isinstance(v, DICT):
            k = self.ev(x.slice, fr)
            if isinstance(k, S) and k.s in v.d:
                return v.d[k.s]
            raise Bad("dict lookup that is not a known literal key")
        if isinstance(v, CLS) and v.name.startswith("const:"):
            return CLS(v.name + ":" + self.tblidx(x.slice, fr)) if v.name.count(":") == 1 else self.tbl(v, x.slice, fr)
        raise Bad("subscript outside the subset: " + ast.unparse(x)[:100])

    def tblidx(self, k, fr):
        """first index of a two-level constants table: a literal 0/1 or int(<bool>) -> '0' | '1' | 'b:<lean bool>'"""
        if isinstance(k, ast.Constant) and k.value in (0, 1):
            return str(int(k.value))
        v = self.ev(k, fr)
        if isinstance(v, B):
            return "b:" + v.e
        raise Bad("table selector that is not 0, 1 or int(<bool>)")

    def tbl(self, v, k, fr):
        _, name, sel = v.name.split(":", 2)
        row = self.w.allc.get(name)
        if not (isinstance(row, (tuple, list)) and len(row) == 2 and all(isinstance(r, (tuple, list)) for r in row)):
            raise Bad(f"constant {name} is not a two-row table")
        i = self.i(k, fr)
        if sel in ("0", "1"):
            return I(f"(Pendulum.Gen.py_{name}_{sel} {i})")
        return I(f"(if {sel[2:]} then Pendulum.Gen.py_{name}_1 {i} else Pendulum.Gen.py_{name}_0 {i})")

    # ---- attributes
    def attribute(self, x, fr):
        src = ast.unparse(x)
        v = self.ev(x.value, fr)
        a = x.attr
        if isinstance(v, CLS):
            if v.name == "WeekDay":
                d = dict(self.w.weekdays)
                if a in d:
                    return I(L(d[a]))
                raise Bad("unknown WeekDay member " + a)
            if v.name == "datetime" and a in ("datetime", "timedelta", "tzinfo"):
                return CLS({"datetime": "datetime.datetime", "timedelta": "timedelta", "tzinfo": "tzinfo"}[a])
            if v.name == "pendulum" and a in ("_WEEK_STARTS_AT", "_WEEK_ENDS_AT"):
                return I(self.E(a.strip("_").lower()))
            if a == "__name__" and v.name.startswith("cls:"):
                return STR(self.E("date_clsname") if v.name == "cls:date" else f"{v.recv.v}.clsname")
            if a == "_FORMATS" and v.name.startswith("cls:"):
                return self.classvar(fr.ckind, a, fr)
            return BM(v, a)
        if isinstance(v, (DOBJ, OOBJ)):
            return self.objattr(v, a, fr)
        if isinstance(v, TZ) and a == "name":
            return STR(f"(TzInfo.name {v.e})")
        if isinstance(v, IVL) and a == "microseconds":
            return I(f"({self.E('iv' + v.kind + '_microseconds')} {v.a} {v.b} {v.absb})")
        if isinstance(v, IVL):
            return BM(v, a)
        if isinstance(v, (S, STR)) and a in ("replace", "format"):
            return BM(v, a)
        if isinstance(v, OPT) and v.kind == "TD":
            raise Bad("attribute of an optional timedelta outside an `is None` guard: " + src[:80])
        if isinstance(v, TD) and a == "total_seconds":
            return BM(v, a)
        raise Bad("attribute outside the subset: " + src[:100])

    def classvar(self, ckind, name, fr):
        cname, node = self.w.find(ckind, name)
        if node is None or isinstance(node, ast.FunctionDef):
            raise Bad("class variable not found: " + name)
        return self.ev(node.value, Fr(ckind, cname, fr.selfv, {}))

    def objattr(self, v, a, fr):
        ckind = "date" if isinstance(v, DOBJ) else "dt"
        if a == "__class__":
            return CLS("cls:" + ckind, v)
        sig = self.w.sigs[ckind].get(a)
        cname, node = self.w.find(ckind, a)
        if sig is not None and node is not None and cname == sig.owner:
            if is_prop(node):
                return self.lean_call(sig, v, [], {}, fr)
            return BM(v, a)
        if node is not None:
            if isinstance(node, ast.FunctionDef):
                if is_prop(node):
                    return self.inline(node, cname, ckind, v, [], {}, fr)
                return BM(v, a)
            # class-level alias / constant: `is_birthday = is_anniversary`, `_FORMATS = {...}`
            if isinstance(node.value, ast.Name) and node.value.id != a and self.w.find(ckind, node.value.id)[1] is not None:
                return self.objattr(v, node.value.id, fr)
            return self.ev(node.value, Fr(ckind, cname, v, {}))
        # native attributes
        if isinstance(v, DOBJ):
            if a in ("year", "month", "day"):
                return I({"year": v.y, "month": v.m, "day": v.d}[a])
            return BM(v, a)
        if a in ("year", "month", "day", "hour", "minute", "second", "microsecond"):
            return I(f"{v.v}.{a}")
        if a == "fold":
            return B(f"{v.v}.fold")
        if a == "tzinfo":
            return TZ(f"{v.v}.tzinfo")
        return BM(v, a)

    # ---- calls
    def args_of(self, x, fr):
        if any(isinstance(a, ast.Starred) for a in x.args) or any(k.arg is None for k in x.keywords):
            raise Bad("* / ** in a call: " + ast.unparse(x)[:100])
        return list(x.args), {k.arg: k.value for k in x.keywords}

    def call(self, x, fr):
        src = ast.unparse(x)
        args, kws = self.args_of(x, fr)
        f = self.ev(x.func, fr)
        if isinstance(f, LAM):
            return self.call_lambda(f, [self.ev(a, fr) for a in args], fr)
        if isinstance(f, CLS):
            return self.call_cls(f, args, kws, fr, src)
        if isinstance(f, BM):
            return self.call_bm(f, args, kws, fr, src)
        raise Bad("call outside the subset: " + src[:120])

    def call_lambda(self, f, vals, fr):
        ps = f.node.args
        if ps.vararg or ps.kwarg or ps.kwonlyargs or ps.defaults or len(ps.args) != len(vals):
            raise Bad("lambda with an unsupported parameter list")
        env = {a.arg: v for a, v in zip(ps.args, vals)}
        return self.ev(f.node.body, Fr(fr.ckind, fr.cname, fr.selfv, env, fr.clsv))

    def call_cls(self, f, args, kws, fr, src):
        n = f.name
        if n == "cast" and len(args) == 2:
            return self.ev(args[1], fr)
        if n == "int" and len(args) == 1 and not kws:
            v = self.ev(args[0], fr)
            if isinstance(v, I):
                return v
            if isinstance(v, B):
                return v                 # used as 0/1 (coerced where an integer is needed)
            if isinstance(v, Q):
                return I(f"(Int.tdiv {v.n} {L(v.d)})")
            raise Bad("int() of an unsupported value: " + src[:100])
        if n == "abs" and len(args) == 1 and not kws:
            v = self.ev(args[0], fr)
            if isinstance(v, I):
                return I(f"(py_abs {v.e})")
            if isinstance(v, TD):
                return TD(f"(py_abs {v.e})")
            if isinstance(v, IVL):
                return IVL(v.kind, v.a, v.b, "true")        # Interval.__abs__: the same end points, absolute=True
            raise Bad("abs() of an unsupported value: " + src[:100])
        if n == "repr" and len(args) == 1:
            v = self.ev(args[0], fr)
            if isinstance(v, TZ):
                return STR(f"({self.E('tz_repr')} {v.e})")
            raise Bad("repr() of an unsupported value")
        if n == "str" and len(args) == 1:
            v = self.ev(args[0], fr)
            if isinstance(v, (S, STR)):
                return v
            if isinstance(v, I):
                return STR(f"(toString {v.e})")
            if isinstance(v, (DOBJ, OOBJ)):
                return self.call_bm(BM(v, "__str__"), [], {}, fr, src)
            raise Bad("str() of an unsupported value")
        if n == "len" and len(args) == 1:
            v = self.ev(args[0], fr)
            if isinstance(v, S):
                return I(L(len(v.s)))
            if isinstance(v, STR):
                return I(f"(({v.e}).length : Int)")
            raise Bad("len() of an unsupported value")
        if n == "callable" and len(args) == 1:
            v = self.ev(args[0], fr)
            if isinstance(v, (LAM, BM)):
                return B("true", const=True)
            if isinstance(v, (S, STR, I)):
                return B("false", const=False)
            raise Bad("callable() of an unsupported value")
        if n == "isinstance" and len(args) == 2:
            v = self.ev(args[0], fr)
            cl = ast.unparse(args[1]).replace(" ", "")
            if isinstance(v, TZ) and cl in ("(Timezone,FixedTimezone)", "(FixedTimezone,Timezone)"):
                return B(f"(TzInfo.isPendulum {v.e})")
            raise Bad("isinstance outside the subset: " + src[:100])
        if n == "getattr" and len(args) == 2:
            v = self.ev(args[0], fr)
            nm = self.ev(args[1], fr)
            if isinstance(v, (DOBJ, OOBJ)) and isinstance(nm, S):
                return self.objattr(v, nm.s, fr)
            raise Bad("getattr with a name that is not static: " + src[:100])
        if n in ("min", "max") and len(args) == 1 and not kws:
            return self.minmax(n, args[0], fr)
        if n == "WeekDay" and len(args) == 1 and not kws:
            v = self.ev(args[0], fr)
            if isinstance(v, I):
                return RES(f"(WeekDay_call {v.e})", "I", True)
            raise Bad("WeekDay() of an unsupported value")
        if n == "timedelta":
            if args or kws:
                raise Bad("timedelta(...) with arguments")
            return TD(L(0))
        if n in ("Date", "date", "cls:date") and len(args) == 3 and not kws:
            fs = [self.i(a, fr) for a in args]
            return DOBJ(*fs)
        if n == "Interval" and len(args) == 2 and set(kws) <= {"absolute"}:
            a, bb = self.ev(args[0], fr), self.ev(args[1], fr)
            ab = self.b(kws["absolute"], fr).e if "absolute" in kws else "false"
            if isinstance(a, DOBJ) and isinstance(bb, DOBJ):
                return IVL("d", a.term(), bb.term(), ab)
            if isinstance(a, OOBJ) and isinstance(bb, OOBJ):
                return IVL("t", a.o, bb.o, ab)
            raise Bad("Interval(...) of unsupported endpoints")
        if n == "local_timezone" and not args and not kws:
            return TZ(self.E("local_timezone"))
        raise Bad("call outside the subset: " + src[:120])

    def minmax(self, which, gen, fr):
        """`min((k1, k2) for v in xs)` -> RES Option of the tuple type; handled by `[1]` at statement level"""
        raise Bad("min/max outside `return min/max((k, x) for x in xs)[i]`")

    def call_bm(self, f, args, kws, fr, src):
        r, name = f.recv, f.name
        if isinstance(r, CLS):
            return self.call_static(r, name, args, kws, fr, src)
        if isinstance(r, (DOBJ, OOBJ)):
            return self.call_method(r, name, args, kws, fr, src)
        if isinstance(r, IVL):
            if name in ("in_years", "in_months", "in_weeks", "in_days", "in_hours", "in_minutes", "in_seconds") \
                    and not args and not kws:
                return I(f"({self.E('iv' + r.kind + '_' + name)} {r.a} {r.b} {r.absb})")
            raise Bad("Interval method outside the subset: " + name)
        if isinstance(r, TD) and name == "total_seconds" and not args and not kws:
            return Q(r.e, 1000000)
        if isinstance(r, (S, STR)) and name == "replace" and len(args) == 2 and not kws:
            a, bb = self.ev(args[0], fr), self.ev(args[1], fr)
            if isinstance(a, S) and isinstance(bb, S):
                return STR(f"(py_str_replace {term_of(r)} {lstr(a.s)} {lstr(bb.s)})")
            raise Bad("str.replace with non-literal arguments")
        if isinstance(r, S) and name == "format" and not args:
            return self.str_format(r.s, {k: self.ev(v, fr) for k, v in kws.items()})
        raise Bad("call outside the subset: " + src[:120])

    def str_format(self, tmpl, kw):
        parts, i = [], 0
        for m in re.finditer(r"\{(\w*)\}", tmpl):
            if "{" in tmpl[i:m.start()] or "}" in tmpl[i:m.start()]:
                raise Bad("str.format template with escaped braces")
            parts.append(S(tmpl[i:m.start()]))
            if m.group(1) not in kw:
                raise Bad("str.format field without a keyword argument: " + m.group(1))
            parts.append(kw[m.group(1)])
            i = m.end()
        if "{" in tmpl[i:] or "}" in tmpl[i:]:
            raise Bad("str.format template outside the subset")
        parts.append(S(tmpl[i:]))
        return cat(parts)

    def call_static(self, r, name, args, kws, fr, src):
        n = r.name
        if n == "math" and name == "ceil" and len(args) == 1:
            v = self.ev(args[0], fr)
            if isinstance(v, Q):
                return I(f"(py_ceil_div {v.n} {L(v.d)})")
            if isinstance(v, I):
                return v
            raise Bad("math.ceil of an unsupported value")
        if n == "math" and name == "floor" and len(args) == 1:
            v = self.ev(args[0], fr)
            if isinstance(v, Q):
                return I(f"({v.n} / {L(v.d)})")
            if isinstance(v, I):
                return v
            raise Bad("math.floor of an unsupported value")
        if n == "calendar" and name == "monthrange" and len(args) == 2 and not kws:
            y, m = self.i(args[0], fr), self.i(args[1], fr)
            t = f"({self.E('monthrange')} {y} {m})"
            return TUP([I(f"{t}.1"), I(f"{t}.2")])
        if n == "calendar" and name == "isleap" and len(args) == 1 and not kws:
            return B(f"({self.E('isleap')} {self.i(args[0], fr)})")
        if n == "date" and name == "today" and not args and not kws:
            return DOBJ.of(self.E("date_today"))
        if n == "pendulum" and name == "local_timezone" and not args and not kws:
            return TZ(self.E("local_timezone"))
        if n == "formatter" and name == "format" and len(args) == 3 and not kws:
            o, fmt, loc = self.ev(args[0], fr), self.ev(args[1], fr), self.ev(args[2], fr)
            return self.fmt_req(o, fmt, loc)
        if n in ("cls:date", "cls:dt", "Date", "DateTime"):
            ckind = {"cls:date": "date", "Date": "date", "cls:dt": "dt", "DateTime": "dt"}[n]
            if (ckind, name) in EXTERNAL_METHODS:
                return self.external(ckind, None, name, args, kws, fr, src)
            cname, node = self.w.find(ckind, name)
            if node is not None and is_classmethod(node):
                return self.inline(node, cname, ckind, None, args, kws, fr, clsv=CLS("cls:" + ckind, r.recv))
            raise Bad(f"call of {n}.{name}(...) outside the subset")
        raise Bad("call outside the subset: " + src[:120])

    def fmt_req(self, o, fmt, loc):
        if not isinstance(fmt, (S, STR)):
            raise Bad("format(...) with a format that is not a string")
        if loc is NONE:
            le = "none"
        elif isinstance(loc, (S, STR)):
            le = f"(some {term_of(loc)})"
        elif isinstance(loc, OPT) and loc.kind == "STR":
            le = loc.e
        else:
            raise Bad("format(...) with an unsupported locale")
        if isinstance(o, OOBJ):
            return STR(f"({self.E('dt_format')} {o.o} {term_of(fmt)} {le})")
        if isinstance(o, DOBJ):
            return STR(f"({self.E('date_format')} {o.term()} {term_of(fmt)} {le})")
        raise Bad("format(...) of an unsupported object")

    def call_method(self, r, name, args, kws, fr, src):
        ckind = "date" if isinstance(r, DOBJ) else "dt"
        sig = self.w.sigs[ckind].get(name)
        cname, node = self.w.find(ckind, name)
        if sig is not None and node is not None and cname == sig.owner:
            return self.lean_call(sig, r, args, kws, fr)
        if (ckind, name) in EXTERNAL_METHODS and node is not None:
            return self.external(ckind, r, name, args, kws, fr, src)
        if isinstance(node, ast.FunctionDef):
            if is_classmethod(node):
                return self.inline(node, cname, ckind, None, args, kws, fr, clsv=CLS("cls:" + ckind, r))
            return self.inline(node, cname, ckind, r, args, kws, fr)
        if node is not None:
            raise Bad(f"call of the class attribute {name}")
        return self.native(r, name, args, kws, fr, src)

    def native(self, r, name, args, kws, fr, src):
        if isinstance(r, DOBJ):
            d = r.term()
            if name in ("weekday", "isoweekday") and not args and not kws:
                return I(f"({self.E(name)} {d})")
            if name == "isocalendar" and not args and not kws:
                t = f"({self.E('isocalendar')} {d})"
                return TUP([I(f"{t}.1"), I(f"{t}.2.1"), I(f"{t}.2.2")])
            if name == "strftime" and len(args) == 1 and not kws:
                f = self.ev(args[0], fr)
                if isinstance(f, (S, STR)):
                    return STR(f"({self.E('date_strftime')} {d} {term_of(f)})")
            if name == "isoformat" and not args and not kws:
                return STR(f"({self.E('date_isoformat')} {d})")
            if name == "toordinal" and not args and not kws:
                return I(f"({self.E('date_toordinal')} {d})")
            raise Bad("native date method outside the subset: " + src[:100])
        o, v = r.o, r.v
        if name == "utcoffset" and not args and not kws:
            return OPT("TD", f"{v}.utcoffset")
        if name == "dst" and not args and not kws:
            return OPT("TD", f"{v}.dst")
        if name == "timestamp" and not args and not kws:
            return Q(f"{v}.timestamp", 1000000)
        if name in ("weekday", "isoweekday") and not args and not kws:
            return I(f"({self.E(name)} (D.mk {v}.year {v}.month {v}.day))")
        if name == "isocalendar" and not args and not kws:
            t = f"({self.E('dt_isocalendar')} {o})"
            return TUP([I(f"{t}.1"), I(f"{t}.2.1"), I(f"{t}.2.2")])
        if name == "strftime" and len(args) == 1 and not kws:
            f = self.ev(args[0], fr)
            if isinstance(f, (S, STR)):
                return STR(f"({self.E('dt_strftime')} {o} {term_of(f)})")
        if name == "isoformat" and len(args) <= 1 and not kws:
            if args:
                s = self.ev(args[0], fr)
                if not isinstance(s, (S, STR)):
                    raise Bad("isoformat(sep) with a separator that is not a string")
                return STR(f"({self.E('dt_isoformat')} {o} (some {term_of(s)}))")
            return STR(f"({self.E('dt_isoformat')} {o} none)")
        raise Bad("native datetime method outside the subset: " + src[:100])

    def external(self, ckind, r, name, args, kws, fr, src):
        """pendulum methods that belong to other translators (their result is a parameter)"""
        if ckind == "date" and name == "add" and r is not None and not args and set(kws) == {"days"}:
            return DOBJ.of(f"({self.E('date_add_days')} {r.term()} {self.i(kws['days'], fr)})")
        if ckind == "dt" and name == "add" and r is not None and not args and set(kws) == {"microseconds"}:
            return OOBJ(f"({self.E('dt_add_microseconds')} {r.o} {self.i(kws['microseconds'], fr)})")
        if ckind == "dt" and name == "now" and len(args) <= 1 and not kws:
            tz = self.ev(args[0], fr) if args else NONE
            te = "TzInfo.none" if tz is NONE else tz.e if isinstance(tz, TZ) else None
            if te is None:
                raise Bad("now(tz) with an unsupported tz")
            return OOBJ(f"({self.E('dt_now')} {te})")
        if ckind == "dt" and name == "instance" and len(args) == 1 and not kws:
            v = self.ev(args[0], fr)
            if isinstance(v, OOBJ):
                return OOBJ(f"({self.E('dt_instance')} {v.o})")
            raise Bad("instance(x) of an unsupported value")
        if ckind == "dt" and name == "in_timezone" and r is not None and len(args) == 1 and not kws:
            tz = self.ev(args[0], fr)
            if isinstance(tz, TZ):
                return OOBJ(f"({self.E('dt_in_timezone')} {r.o} {tz.e})")
            raise Bad("in_timezone(tz) with an unsupported tz")
        if ckind == "dt" and name == "create" and set(kws) <= {"tz"} and 3 <= len(args) <= 7:
            fs = [self.i(a, fr) for a in args] + [L(0)] * (7 - len(args))
            tz = self.ev(kws["tz"], fr) if "tz" in kws else None
            te = "TzInfo.utc" if tz is None else "TzInfo.none" if tz is NONE else tz.e if isinstance(tz, TZ) else None
            if te is None:
                raise Bad("create(... tz=) with an unsupported tz")
            return OOBJ(f"({self.E('dt_create')} {' '.join(fs)} {te})")
        raise Bad(f"call of {name}(...) (translated elsewhere) with an unsupported argument form: " + src[:100])

    # ---- parameter binding
    def bind_params(self, node, args, kws, fr, skip_first=True):
        a = node.args
        if a.vararg or a.kwarg or a.kwonlyargs or a.posonlyargs:
            raise Bad(f"{node.name}: unsupported parameter list")
        pos = a.args[1:] if skip_first else a.args
        defaults = [None] * (len(pos) - len(a.defaults)) + list(a.defaults)
        if len(args) > len(pos):
            raise Bad(f"too many arguments for {node.name}")
        given = {}
        for p, x in zip(pos, args):
            given[p.arg] = x
        for k, x in kws.items():
            if k in given or k not in [p.arg for p in pos]:
                raise Bad(f"unexpected argument {k} for {node.name}")
            given[k] = x
        out = []
        for p, d in zip(pos, defaults):
            if p.arg in given:
                out.append((p.arg, given[p.arg], False))
            elif d is not None:
                out.append((p.arg, d, True))
            else:
                raise Bad(f"argument {p.arg} of {node.name} missing")
        return out

    def inline(self, node, cname, ckind, selfv, args, kws, fr, clsv=None):
        self.depth += 1
        if self.depth > 12:
            raise Bad("inlining too deep (recursion?) at " + node.name)
        try:
            env = {}
            callee = Fr(ckind, cname, selfv, env, clsv)
            for pname, x, isdefault in self.bind_params(node, args, kws, fr):
                env[pname] = self.ev(x, callee if isdefault else fr)
            return self.run_inline(body_of(node), callee, node.name)
        finally:
            self.depth -= 1

    def run_inline(self, stmts, fr, fname):
        for k, s in enumerate(stmts):
            if isinstance(s, ast.Return):
                if s.value is None:
                    return NONE
                v = self.ev(s.value, fr)
                if isinstance(v, RES) and v.raises:
                    raise Bad(f"{fname} (inlined) returns a call that can raise")
                return self.unres(v)
            if isinstance(s, ast.Raise):
                raise Bad(f"{fname} (inlined) raises on this path")
            name, val = target(s)
            if name is not None:
                v = self.ev(val, fr)
                if isinstance(v, RES) and v.raises:
                    raise Bad(f"{fname} (inlined) binds a call that can raise")
                fr.env[name] = self.unres(v)
                continue
            if isinstance(s, ast.AugAssign) and isinstance(s.target, ast.Name) and isinstance(s.op, (ast.Add, ast.Sub)):
                fr.env[s.target.id] = self.ev(ast.BinOp(ast.Name(s.target.id, ast.Load()), s.op, s.value), fr)
                continue
            if isinstance(s, ast.If):
                c = self.b(s.test, fr)
                if c.const is not None:
                    return self.run_inline(list(s.body if c.const else s.orelse) + stmts[k + 1:], fr, fname)
                # `if x is None: x = d`
                if len(s.body) == 1 and not s.orelse and target(s.body[0])[0] is not None \
                        and ast.unparse(s.test) == f"{target(s.body[0])[0]} is None" \
                        and isinstance(fr.env.get(target(s.body[0])[0]), OPT):
                    nm, val = target(s.body[0])
                    o = fr.env[nm]
                    d = self.ev(val, fr)
                    if kind_of(d) == o.kind:
                        fr.env[nm] = wrap(o.kind, f"(Option.getD {o.e} {term_of(d)})")
                        continue
                raise Bad(f"{fname} (inlined) branches on a value that is not known statically: {ast.unparse(s.test)[:80]}")
            raise Bad(f"{fname} (inlined): statement outside the subset: {ast.unparse(s)[:100]}")
        return NONE

    def unres(self, v):
        if isinstance(v, RES):
            return OPT(v.kind, v.e) if v.opt_ else wrap(v.kind, v.e)
        return v

    def lean_call(self, sig, recv, args, kws, fr):
        """call of a generated definition: `sig.lean E recv args…`"""
        fake = ast.FunctionDef(name=sig.lean, args=sig.pyargs, body=[], decorator_list=[])
        terms = []
        for (pname, x, isdefault), (_, pk, popt, plist) in zip(self.bind_params(fake, args, kws, fr), sig.params):
            v = self.ev(x, fr)
            if plist:
                raise Bad("call of a variadic definition")
            if popt:
                if v is NONE:
                    terms.append("none")
                elif isinstance(v, OPT) and v.kind == pk:
                    terms.append(v.e)
                elif kind_of(v) == pk:
                    terms.append(f"(some {term_of(v)})")
                else:
                    raise Bad(f"argument {pname} of {sig.lean}: unsupported value")
            else:
                if kind_of(v) != pk:
                    raise Bad(f"argument {pname} of {sig.lean}: unsupported value")
                terms.append(term_of(v))
        rt = recv.term() if isinstance(recv, DOBJ) else recv.v
        e = "(" + " ".join([sig.lean, "E", rt] + terms) + ")"
        r = RES(e, sig.ret, sig.raises, sig.opt)
        if not sig.raises:
            return self.unres(r)
        return r


def target(s):
    if isinstance(s, ast.AnnAssign) and s.value is not None and isinstance(s.target, ast.Name):
        return s.target.id, s.value
    if isinstance(s, ast.Assign) and len(s.targets) == 1 and isinstance(s.targets[0], ast.Name):
        return s.targets[0].id, s.value
    return None, None


def cat(parts):
    """concatenation of string pieces (static strings merged)"""
    out = []
    for p in parts:
        if isinstance(p, I):
            p = STR(f"(toString {p.e})")
        if not isinstance(p, (S, STR)):
            raise Bad("string piece of an unsupported kind")
        if isinstance(p, S) and out and isinstance(out[-1], S):
            out[-1] = S(out[-1].s + p.s)
        elif isinstance(p, S) and p.s == "":
            continue
        else:
            out.append(p)
    if not out:
        return S("")
    if len(out) == 1:
        return out[0]
    return STR("(" + " ++ ".join(term_of(p) for p in out) + ")")


# ----------------------------------------------------------------------------- statement level (listed methods)

M0, M1 = "\x00", "\x01"


class Top(Ev):
    def __init__(self, w):
        super().__init__(w)
        self.kinds = set()
        self.raises = False

    def mark_ret(self, v):
        if isinstance(v, RES):
            self.kinds.add(v.kind)
            if v.opt_:
                self.kinds.add("NONE")
            if v.raises:
                self.raises = True
                return f"{M0}X|{v.kind}|{int(v.opt_)}|{v.e}{M1}"
            return f"{M0}{'O' if v.opt_ else 'R'}|{v.kind}|{v.e}{M1}"
        if v is NONE:
            self.kinds.add("NONE")
            return f"{M0}N{M1}"
        if isinstance(v, OPT):
            self.kinds |= {v.kind, "NONE"}
            return f"{M0}O|{v.kind}|{v.e}{M1}"
        k = kind_of(v)
        if k is None:
            raise Bad("return of an unsupported value")
        self.kinds.add(k)
        return f"{M0}R|{k}|{term_of(v)}{M1}"

    def block(self, stmts, fr):
        if not stmts:
            return self.mark_ret(NONE)
        s, rest = stmts[0], stmts[1:]
        if isinstance(s, ast.Expr) and isinstance(s.value, ast.Constant):
            return self.block(rest, fr)
        if isinstance(s, ast.Return):
            if s.value is None:
                return self.mark_ret(NONE)
            mm = self.minmax_stmt(s.value, fr)
            if mm is not None:
                return mm
            return self.mark_ret(self.ev(s.value, fr))
        if isinstance(s, ast.Raise):
            exc = s.exc
            name = exc.func.id if isinstance(exc, ast.Call) and isinstance(exc.func, ast.Name) else None
            if name is None:
                raise Bad("raise of something that is not `Name(...)`")
            self.raises = True
            return f"{M0}E|{name}{M1}"
        name, val = target(s)
        if name is None and isinstance(s, ast.AugAssign) and isinstance(s.target, ast.Name) \
                and isinstance(s.op, (ast.Add, ast.Sub)):
            name, val = s.target.id, ast.BinOp(ast.Name(s.target.id, ast.Load()), s.op, s.value)
        if name is not None:
            v = self.ev(val, fr)
            env = dict(fr.env)
            fr2 = Fr(fr.ckind, fr.cname, fr.selfv, env, fr.clsv)
            if isinstance(v, RES):
                n = self.fresh(name)
                if not v.raises:
                    env[name] = self.unres(v)
                    return self.block(rest, fr2)
                self.raises = True
                env[name] = OPT(v.kind, n) if v.opt_ else wrap(v.kind, n)
                return f"(match {v.e} with | .error err => {M0}P|err{M1} | .ok {n} => ({self.block(rest, fr2)}))"
            k = kind_of(v)
            if k in ("I", "B", "STR", "TD", "TZ") and not isinstance(v, S):
                n = self.fresh(name)
                env[name] = wrap(k, n)
                return f"let {n} : {LEAN_TY[k]} := {term_of(v)}; " + self.block(rest, fr2)
            if isinstance(v, OPT):
                n = self.fresh(name)
                env[name] = OPT(v.kind, n)
                return f"let {n} : Option {LEAN_TY[v.kind]} := {v.e}; " + self.block(rest, fr2)
            if isinstance(v, LST):
                n = self.fresh(name)
                env[name] = LST(v.kind, n)
                return f"let {n} : List {LEAN_TY[v.kind]} := {v.e}; " + self.block(rest, fr2)
            env[name] = v
            return self.block(rest, fr2)
        if isinstance(s, ast.If):
            t = s.test
            if isinstance(t, ast.Compare) and len(t.ops) == 1 and isinstance(t.ops[0], (ast.Is, ast.IsNot)) \
                    and isinstance(t.left, ast.Name) and isinstance(fr.env.get(t.left.id), OPT) \
                    and isinstance(t.comparators[0], ast.Constant) and t.comparators[0].value is None:
                o = fr.env[t.left.id]
                n = self.fresh(t.left.id)
                e_none, e_some = dict(fr.env), dict(fr.env)
                e_none[t.left.id] = NONE
                e_some[t.left.id] = wrap(o.kind, n)
                b_none, b_some = (s.body, s.orelse) if isinstance(t.ops[0], ast.Is) else (s.orelse, s.body)
                tn = self.block(list(b_none) + ([] if terminates(b_none) else rest), Fr(fr.ckind, fr.cname, fr.selfv, e_none, fr.clsv))
                ts = self.block(list(b_some) + ([] if terminates(b_some) else rest), Fr(fr.ckind, fr.cname, fr.selfv, e_some, fr.clsv))
                return f"(match {o.e} with | none => ({tn}) | some {n} => ({ts}))"
            c = self.b(t, fr)
            if c.const is not None:
                return self.block(list(s.body if c.const else s.orelse) + rest, fr)
            th = self.block(list(s.body) + ([] if terminates(s.body) else rest), Fr(fr.ckind, fr.cname, fr.selfv, dict(fr.env), fr.clsv))
            el = self.block(list(s.orelse) + ([] if terminates(s.orelse) else rest), Fr(fr.ckind, fr.cname, fr.selfv, dict(fr.env), fr.clsv))
            return f"if {c.e} then ({th}) else ({el})"
        if isinstance(s, ast.Assign) and len(s.targets) == 1 and ast.unparse(s.targets[0]) in \
                ("pendulum._WEEK_STARTS_AT", "pendulum._WEEK_ENDS_AT") and not rest:
            v = self.ev(s.value, fr)
            if not isinstance(v, I):
                raise Bad("assignment of a non-integer to " + ast.unparse(s.targets[0]))
            self.kinds.add("G")
            g = ast.unparse(s.targets[0]).split(".")[1]
            return f"{M0}R|G|(GlobalSet.mk {lstr(g)} {v.e}){M1}"
        raise Bad("statement outside the subset: " + ast.unparse(s)[:120])

    def ev(self, x, fr):
        if isinstance(x, ast.ListComp):
            return self.listcomp(x, fr)
        return super().ev(x, fr)

    def listcomp(self, x, fr):
        if len(x.generators) != 1 or x.generators[0].ifs or not isinstance(x.generators[0].target, ast.Name):
            raise Bad("comprehension outside the subset")
        it = self.ev(x.generators[0].iter, fr)
        if not isinstance(it, LST):
            raise Bad("comprehension over something that is not a list parameter")
        var = x.generators[0].target.id
        n = self.fresh(var)
        env = dict(fr.env)
        env[var] = wrap(it.kind, n)
        v = self.ev(x.elt, Fr(fr.ckind, fr.cname, fr.selfv, env, fr.clsv))
        if isinstance(v, TUP):
            ks = [kind_of(i) for i in v.items]
            if any(k not in ("I", "TD", "O", "D", "IVT") for k in ks):
                raise Bad("comprehension of tuples of unsupported kinds")
            return LSTT(ks, f"(List.map (fun {n} => ({', '.join(term_of(i) for i in v.items)})) {it.e})")
        k = kind_of(v)
        if k not in ("I", "TD", "O", "D"):
            raise Bad("comprehension of an unsupported kind")
        return LST(k, f"(List.map (fun {n} => {term_of(v)}) {it.e})")

    def minmax_stmt(self, x, fr):
        """`return min/max(<generator of tuples>)[k]`"""
        if not (isinstance(x, ast.Subscript) and isinstance(x.value, ast.Call) and isinstance(x.value.func, ast.Name)
                and x.value.func.id in ("min", "max") and x.value.func.id not in fr.env):
            return None
        c = x.value
        if len(c.args) != 1 or c.keywords or not isinstance(c.args[0], (ast.GeneratorExp, ast.ListComp)):
            raise Bad("min/max outside `min/max(<generator>)[k]`")
        lst = self.listcomp(c.args[0], fr)
        if not isinstance(lst, LSTT):
            raise Bad("min/max over something that is not a generator of tuples")
        k = x.slice
        if not (isinstance(k, ast.Constant) and isinstance(k.value, int) and 0 <= k.value < len(lst.kinds)):
            raise Bad("min/max(...)[k] with an index that is not a literal in range")

        def proj(v, j):
            return v + ".2" * j + (".1" if j < len(lst.kinds) - 1 else "")

        def iv(a, b):
            return f"{a}.1 {a}.2.1 {a}.2.2 {b}.1 {b}.2.1 {b}.2.2"

        def eq(kd, a, b):
            return {"I": f"({a} == {b})", "TD": f"({a} == {b})", "O": f"({self.E('dt_eq')} {a} {b})",
                    "D": f"(({self.E('date_cmp')} {a} {b}) == 0)", "IVT": f"({self.E('ivt_eq')} {iv(a, b)})"}[kd]

        def rel(kd, a, b, o):
            return {"I": f"(decide ({a} {o} {b}))", "TD": f"(decide ({a} {o} {b}))",
                    "O": f"(decide (({self.E('dt_cmp')} {a} {b}) {o} (0 : Int)))",
                    "D": f"(decide (({self.E('date_cmp')} {a} {b}) {o} (0 : Int)))",
                    "IVT": f"(decide (({self.E('ivt_cmp')} {iv(a, b)}) {o} (0 : Int)))"}[kd]
        which = c.func.id
        o = "<" if which == "min" else ">"
        body = "false"
        for j in reversed(range(len(lst.kinds))):
            a, b = proj("a", j), proj("b", j)
            body = f"(if !{eq(lst.kinds[j], a, b)} then {rel(lst.kinds[j], a, b, o)} else {body})"
        ty = " × ".join(f"({LEAN_TY[kd]})" if "×" in LEAN_TY[kd] else LEAN_TY[kd] for kd in lst.kinds)
        sel = f"(py_select (fun (a b : {ty}) => {body}) {lst.e})"
        rk = lst.kinds[k.value]
        self.kinds.add(rk)
        self.raises = True
        return (f"(match {sel} with | none => {M0}E|ValueError{M1} | some r => "
                f"{M0}R|{rk}|{proj('r', k.value)}{M1})")


class LSTT:         # Lean List of tuples
    def __init__(self, kinds, e):
        self.kinds, self.e = kinds, e


def terminates(stmts):
    if not stmts:
        return False
    s = stmts[-1]
    if isinstance(s, (ast.Return, ast.Raise)):
        return True
    if isinstance(s, ast.If):
        return terminates(s.body) and terminates(s.orelse)
    return False


def finish(term, ret, opt, raises):
    out, i = "", 0
    while True:
        j = term.find(M0, i)
        if j < 0:
            return out + term[i:]
        k = term.index(M1, j)
        out += term[i:j]
        body = term[j + 1:k]
        tag = body[0]

        def okv(e):
            return f"(.ok {e})" if raises else e
        if tag == "E":
            out += f'(.error "{body[2:]}")'
        elif tag == "P":
            out += f"(.error {body[2:]})"
        elif tag == "N":
            out += okv("TzInfo.none" if ret == "TZ" else "none")
        elif tag in ("R", "O"):
            _, kd, e = body.split("|", 2)
            if kd != ret:
                raise Bad(f"a {kd} is returned where a {ret} is expected")
            if tag == "R" and opt:
                e = f"(some {e})"
            out += okv(e)
        elif tag == "X":
            _, kd, copt, e = body.split("|", 3)
            if kd != ret:
                raise Bad(f"a {kd} is returned where a {ret} is expected")
            if bool(int(copt)) == opt:
                out += e
            elif opt:
                out += f"(match {e} with | .error err => .error err | .ok r => .ok (some r))"
            else:
                raise Bad("an optional result is returned where a plain one is expected")
        i = k + 1


def layout(term):
    out, depth, i = "", 0, 0
    instr = False
    while i < len(term):
        ch = term[i]
        if ch == '"' and (i == 0 or term[i - 1] != "\\"):
            instr = not instr
        if not instr:
            if ch == "(":
                depth += 1
            elif ch == ")":
                depth -= 1
            if depth == 0 and term.startswith("; ", i):
                out += "\n  "
                i += 2
                continue
        out += ch
        i += 1
    return out


def ann_kind(a):
    """annotation -> (kind, optional)"""
    if a is None:
        return None
    s = ast.unparse(a).replace(" ", "")
    opt = False
    if s.endswith("|None"):
        s, opt = s[:-5], True
    k = {"date": "D", "datetime.datetime": "O", "int": "I", "WeekDay": "I", "str": "STR", "bool": "B"}.get(s)
    return (k, opt) if k else None


def translate_top(w: World, ckind, cname, name, lean, fnnode=None, doc=None):
    node = fnnode
    if node is None:
        for n in w.cls[cname].body:
            if isinstance(n, ast.FunctionDef) and n.name == name and not any(
                    isinstance(d, ast.Attribute) and d.attr == "setter" for d in n.decorator_list):
                node = n
    if node is None:
        raise Bad("method not found")
    a = node.args
    if a.kwarg or a.kwonlyargs or a.posonlyargs:
        raise Bad("unsupported parameter list")
    t = Top(w)
    env, params = {}, []
    pos = a.args[1:] if ckind != "fn" else a.args
    defaults = [None] * (len(pos) - len(a.defaults)) + list(a.defaults)
    for p, d in zip(pos, defaults):
        ak = ann_kind(p.annotation)
        if ak is None:
            raise Bad(f"parameter {p.arg}: unsupported annotation")
        k, opt = ak
        if d is not None and not (isinstance(d, ast.Constant) and (d.value is None) == opt):
            raise Bad(f"parameter {p.arg}: unsupported default")
        params.append((p.arg, k, opt, False))
        env[p.arg] = OPT(k, p.arg) if opt else wrap(k, p.arg)
    if a.vararg is not None:
        ak = ann_kind(a.vararg.annotation)
        if ak is None or ak[1] or ak[0] not in ("O", "D"):
            raise Bad(f"parameter *{a.vararg.arg}: unsupported annotation")
        params.append((a.vararg.arg, ak[0], False, True))
        env[a.vararg.arg] = LST(ak[0], a.vararg.arg)
    if ckind == "date":
        selfv = DOBJ.of("self")
    elif ckind == "dt":
        selfv = OOBJ("self.obj", "self")
    else:
        selfv = None
    fr = Fr(ckind if ckind != "fn" else "date", cname, selfv, env)
    term = t.block(body_of(node), fr)
    kinds = set(t.kinds)
    opt = "NONE" in kinds
    kinds.discard("NONE")
    if len(kinds) > 1:
        raise Bad(f"mixed result kinds {sorted(kinds)}")
    if not kinds:
        raise Bad("no value is returned")
    ret = kinds.pop()
    if ret == "TZ":
        opt = False                 # a timezone-or-None is a `TzInfo` (`TzInfo.none`)
    term = layout(finish(term, ret, opt, t.raises))
    rty = LEAN_TY[ret]
    if opt:
        rty = f"Option {rty}"
    if t.raises:
        rty = f"Except String ({rty})" if opt else f"Except String {rty}"

    def pty(k, o, lst):
        ty = LEAN_TY[k]
        return f"List {ty}" if lst else f"Option {ty}" if o else ty
    pdecl = "".join(f" ({p} : {pty(k, o, lst)})" for p, k, o, lst in params)
    selfdecl = {"date": " (self : D)", "dt": " (self : Inst O)", "fn": ""}[ckind]
    text = f"/-- {doc} -/\n" if doc else ""
    text += f"def {lean} (E : Ext O){selfdecl}{pdecl} : {rty} :=\n  {term}\n"
    pyargs = ast.arguments(posonlyargs=[], args=a.args, vararg=None, kwonlyargs=[], kw_defaults=[], kwarg=None,
                           defaults=a.defaults)
    if ckind in ("date", "dt"):
        w.sigs[ckind][name] = Sig(lean, params, ret, opt, t.raises, cname, pyargs)
    return text


# ----------------------------------------------------------------------------- output

EXT_DECL = [
    ("view", "O → Inst O", "the fields / native answers of a datetime object (`x.year`, `x.utcoffset()`, …)"),
    ("weekday", "D → Int", "`x.weekday()` (stdlib, Monday = 0)"),
    ("isoweekday", "D → Int", "`x.isoweekday()`"),
    ("isocalendar", "D → Int × Int × Int", "`x.isocalendar()`"),
    ("monthrange", "Int → Int → Int × Int", "`calendar.monthrange(y, m)`"),
    ("isleap", "Int → Bool", "`calendar.isleap(y)`"),
    ("date_today", "D", "`datetime.date.today()`"),
    ("date_cmp", "D → D → Int", "comparison of two dates (−1 / 0 / 1; `datetime.date` rich comparison)"),
    ("date_strftime", "D → String → String", "`x.strftime(fmt)` of a date"),
    ("date_isoformat", "D → String", "`x.isoformat()` of a date"),
    ("date_toordinal", "D → Int", "`x.toordinal()`"),
    ("date_format", "D → String → Option String → String", "`Formatter.format(x, fmt, locale)` of a date (formatter.py, C08)"),
    ("date_clsname", "String", "`self.__class__.__name__` of a date instance"),
    ("date_add_days", "D → Int → D", "`Date.add(days=n)` (helpers.add_duration, C03)"),
    ("ivd_in_years", "D → D → Bool → Int", "`Interval(a, b, absolute=abs).in_years()` on dates (interval.py, C05/C19)"),
    ("ivd_in_months", "D → D → Bool → Int", "… `.in_months()`"),
    ("ivd_in_weeks", "D → D → Bool → Int", "… `.in_weeks()`"),
    ("ivd_in_days", "D → D → Bool → Int", "… `.in_days()`"),
    ("ivd_in_hours", "D → D → Bool → Int", "… `.in_hours()`"),
    ("ivd_in_minutes", "D → D → Bool → Int", "… `.in_minutes()`"),
    ("ivd_in_seconds", "D → D → Bool → Int", "… `.in_seconds()`"),
    ("ivd_microseconds", "D → D → Bool → Int", "… `.microseconds`"),
    ("ivt_in_years", "O → O → Bool → Int", "`Interval(a, b, absolute=abs).in_years()` on datetimes"),
    ("ivt_in_months", "O → O → Bool → Int", "… `.in_months()`"),
    ("ivt_in_weeks", "O → O → Bool → Int", "… `.in_weeks()`"),
    ("ivt_in_days", "O → O → Bool → Int", "… `.in_days()`"),
    ("ivt_in_hours", "O → O → Bool → Int", "… `.in_hours()`"),
    ("ivt_in_minutes", "O → O → Bool → Int", "… `.in_minutes()`"),
    ("ivt_in_seconds", "O → O → Bool → Int", "… `.in_seconds()`"),
    ("ivt_microseconds", "O → O → Bool → Int", "… `.microseconds`"),
    ("dt_cmp", "O → O → Int", "comparison of two datetimes (−1 / 0 / 1; `datetime.datetime` rich comparison, C11)"),
    ("dt_eq", "O → O → Bool", "`a == b` of two datetimes (C11)"),
    ("ivt_eq", "O → O → Bool → O → O → Bool → Bool", "`Interval(a, b, absolute=p) == Interval(c, d, absolute=q)` (interval.py: equal end points and flag)"),
    ("ivt_cmp", "O → O → Bool → O → O → Bool → Int", "ordering of two such intervals (−1 / 0 / 1; `timedelta` rich comparison of their lengths)"),
    ("dt_isocalendar", "O → Int × Int × Int", "`x.isocalendar()` of a datetime"),
    ("dt_strftime", "O → String → String", "`x.strftime(fmt)` of a datetime"),
    ("dt_isoformat", "O → Option String → String", "`x.isoformat(sep)` / `x.isoformat()`"),
    ("dt_format", "O → String → Option String → String", "`Formatter.format(x, fmt, locale)` (formatter.py, C08)"),
    ("dt_add_microseconds", "O → Int → O", "`DateTime.add(microseconds=n)` (C04)"),
    ("dt_now", "TzInfo → O", "`DateTime.now(tz)`"),
    ("dt_instance", "O → O", "`DateTime.instance(x)` (Gen/DTConv, C02)"),
    ("dt_in_timezone", "O → TzInfo → O", "`DateTime.in_timezone(tz)` (Gen/DTConv)"),
    ("dt_create", "Int → Int → Int → Int → Int → Int → Int → TzInfo → O", "`DateTime.create(y, m, d, h, mi, s, us, tz=tz)` (Gen/DTConv)"),
    ("local_timezone", "TzInfo", "`pendulum.local_timezone()`"),
    ("tz_repr", "TzInfo → String", "`repr(tzinfo)`"),
    ("week_starts_at", "Int", "the module global `pendulum._WEEK_STARTS_AT`"),
    ("week_ends_at", "Int", "the module global `pendulum._WEEK_ENDS_AT`"),
]
EXT_FIELDS = {f for f, _, _ in EXT_DECL}

HEADER = '''import Pendulum.Gen.Tables
/-! GENERATED by tools/gen_getters.py from src/pendulum/date.py, datetime.py, day.py, helpers.py, mixins/default.py, __init__.py
— do not edit.

`date_<m> E self …` is `Date.<m>` on the date `self : D`; `dt_<m> E self …` is `DateTime.<m>` on the instance record
`self : Inst O` (`O` = the type of datetime objects, opaque: their fields are read through `E.view`).  A method that can
raise returns `Except String _` (the exception's class name), one that can return `None` an `Option _`.
`Frac` (n, d) is the exact rational n / d (a Python float); a timedelta is its microseconds; `py_ceil_div a n` is
`math.ceil(a / n)`, `Int.tdiv a n` is `int(a / n)`; `py_select better xs` is Python's `min` / `max` (the first item is kept
unless a later one is strictly better).  The records `Inst O` / `Ext O` hold everything that is not source of the translated
files (see the field comments). -/
set_option linter.unusedVariables false
namespace Pendulum.Gen.Getters

abbrev Frac := Int × Int

/-- a calendar date object: `datetime.date(y, m, d)` / `Date(y, m, d)` / `self.__class__(y, m, d)` -/
structure D where
  year : Int
  month : Int
  day : Int
deriving DecidableEq, Repr

/-- a `tzinfo` slot as far as the source can tell: `None`, a pendulum `Timezone` / `FixedTimezone` (its `.name`),
    another `datetime.tzinfo` -/
inductive TzInfo
  | none
  | pendulum (name : String)
  | other
deriving DecidableEq, Repr

def TzInfo.isNone : TzInfo → Bool | .none => true | _ => false
def TzInfo.isPendulum : TzInfo → Bool | .pendulum _ => true | _ => false       -- isinstance(x, (Timezone, FixedTimezone))
def TzInfo.name : TzInfo → String | .pendulum n => n | _ => ""
def TzInfo.utc : TzInfo := .pendulum "UTC"

/-- an assignment to a module global of `pendulum` -/
structure GlobalSet where
  name : String
  value : Int
deriving DecidableEq, Repr

def py_ceil_div (a b : Int) : Int := -((-a) / b)
def py_abs (a : Int) : Int := if a < 0 then -a else a
def py_str_replace (s old new : String) : String := s.replace old new
def py_str_contains (s sub : String) : Bool := (s.splitOn sub).length > 1

/-- Python `min(xs)` / `max(xs)`: `better item current` is `item < current` / `item > current` -/
def py_select {α : Type} (better : α → α → Bool) : List α → Option α
  | [] => none
  | x :: xs => some (xs.foldl (fun cur item => if better item cur then item else cur) x)

/-- a `DateTime` instance: its own fields and the answers of the native methods it inherits from `datetime.datetime` -/
structure Inst (O : Type) where
  /-- the instance as an object (to hand to `Ext`) -/
  obj : O
  /-- `self.__class__.__name__` -/
  clsname : String
  year : Int
  month : Int
  day : Int
  hour : Int
  minute : Int
  second : Int
  microsecond : Int
  fold : Bool
  tzinfo : TzInfo
  /-- `self.utcoffset()` (microseconds) -/
  utcoffset : Option Int
  /-- `self.dst()` (microseconds) -/
  dst : Option Int
  /-- `self.timestamp()` in microseconds (the float read as the exact value) -/
  timestamp : Int

/-- everything the translated code calls that is not source of the translated files -/
structure Ext (O : Type) where
'''


def lean_name(ckind, name):
    special = {"__str__": "str", "__repr__": "repr", "__format__": "format_spec"}
    return f"{ckind}_{special.get(name, name.strip('_'))}"


DATE_TOP = ["day_of_week", "day_of_year", "week_of_year", "days_in_month", "week_of_month", "age", "quarter",
            "to_date_string", "to_formatted_date_string", "__repr__", "closest", "farthest", "is_future", "is_past",
            "is_leap_year", "is_long_year", "is_same_day", "is_anniversary", "average"]
MIXIN_TOP = ["for_json", "__format__", "__str__"]
DT_TOP = ["float_timestamp", "offset", "offset_hours", "timezone", "tz", "timezone_name", "age", "is_local", "is_utc",
          "is_dst", "get_offset", "date", "__str__", "__repr__", "closest", "farthest", "is_future", "is_past",
          "is_long_year", "is_same_day", "is_anniversary", "average"]


def class_order(w, cname, wanted):
    """the wanted methods of a class in source order, callees (among the wanted ones) first"""
    present = [n.name for n in w.cls[cname].body if isinstance(n, ast.FunctionDef) and n.name in wanted
               and not any(isinstance(d, ast.Attribute) and d.attr == "setter" for d in n.decorator_list)]
    present = list(dict.fromkeys(present))
    nodes = {n.name: n for n in w.cls[cname].body if isinstance(n, ast.FunctionDef) and n.name in present}
    deps = {}
    for nm, nd in nodes.items():
        deps[nm] = [a.attr for a in ast.walk(nd) if isinstance(a, ast.Attribute) and isinstance(a.value, ast.Name)
                    and a.value.id == "self" and a.attr in nodes and a.attr != nm]
    out, state = [], {}

    def visit(nm):
        if state.get(nm) == 2:
            return
        if state.get(nm) == 1:
            return                  # cycle: the later one is inlined
        state[nm] = 1
        for d in deps[nm]:
            visit(d)
        state[nm] = 2
        out.append(nm)
    for nm in present:
        visit(nm)
    return out, [m for m in wanted if m not in present]


def generate(changed, fallbacks, _write):
    from tools.gen_lean import GEN
    out = [HEADER.rstrip("\n")]
    for f, ty, doc in EXT_DECL:
        out.append(f"  /-- {doc} -/\n  {f} : {ty}")
    out.append("")
    out.append("variable {O : Type}\n")

    def finish_file():
        out.append("end Pendulum.Gen.Getters\n")
        _write(GEN / "Getters.lean", "\n".join(out), changed)
        return 0

    try:
        w = World()
    except (Bad, OSError, SyntaxError, KeyError) as e:
        fallbacks.append(f"Getters: cannot read the sources: {e}")
        return finish_file()

    def emit(label, thunk):
        try:
            out.append(thunk())
            return True
        except (Bad, StopIteration, KeyError, IndexError, AttributeError, TypeError, ValueError, RecursionError) as e:
            fallbacks.append(f"Getters: cannot translate {label}: {e}")
            out.append(f"-- UNTRANSLATABLE {label}: {str(e)[:300]}\n")
            return False

    # day.py: the enum
    out.append("/-- `class WeekDay(IntEnum)` of day.py: its members in source order -/")
    out.append("def WeekDay_members : List (String × Int) :=\n  [" +
               ", ".join(f'("{n}", {v})' for n, v in w.weekdays) + "]\n")
    out.append("/-- `WeekDay(v)`: the member with that value, ValueError when there is none -/")
    out.append("def WeekDay_call (v : Int) : Except String Int :=\n"
               '  if WeekDay_members.any (fun p => p.2 == v) then .ok v else .error "ValueError"\n')

    # __init__.py: the initial values of the week globals
    def init_globals():
        d = dict(w.weekdays)
        txt = ""
        for g in ("_WEEK_STARTS_AT", "_WEEK_ENDS_AT"):
            val = None
            for n in w.mod["init"].body:
                tgt = n.target if isinstance(n, ast.AnnAssign) else n.targets[0] if isinstance(n, ast.Assign) and len(n.targets) == 1 else None
                if isinstance(tgt, ast.Name) and tgt.id == g and n.value is not None:
                    val = n.value
            if val is None:
                raise Bad(f"pendulum.{g} is not assigned in __init__.py")
            s = ast.unparse(val)
            if not (s.startswith("WeekDay.") and s[8:] in d):
                raise Bad(f"pendulum.{g} is no longer initialised with a WeekDay member: {s}")
            txt += f"/-- `{g}: WeekDay = {s}` (__init__.py) -/\ndef init{g} : Int := {d[s[8:]]}\n"
        return txt
    emit("pendulum._WEEK_STARTS_AT/_WEEK_ENDS_AT", init_globals)

    # helpers.py: week_starts_at / week_ends_at
    for fname in ("week_starts_at", "week_ends_at"):
        def th(fname=fname):
            node = next((n for n in w.mod["helpers"].body if isinstance(n, ast.FunctionDef) and n.name == fname), None)
            if node is None:
                raise Bad("function not found")
            return translate_top(w, "fn", "helpers", fname, "helpers_" + fname, fnnode=node)
        emit(f"helpers.{fname}", th)

    # date.py, mixins/default.py
    order, missing = class_order(w, "Date", DATE_TOP)
    for m in missing:
        fallbacks.append(f"Getters: Date.{m} not found")
    for m in order:
        emit(f"Date.{m}", lambda m=m: translate_top(w, "date", "Date", m, lean_name("date", m)))

    def alias():
        cname, node = w.find("date", "is_birthday")
        if node is None or isinstance(node, ast.FunctionDef) or not isinstance(node.value, ast.Name):
            raise Bad("is_birthday is no longer a class-level alias")
        tgt = node.value.id
        sig = w.sigs["date"].get(tgt)
        if sig is None:
            raise Bad(f"is_birthday aliases {tgt}, which is not translated")
        w.sigs["date"]["is_birthday"] = sig
        return (f"/-- `is_birthday = {tgt}` (class-level alias) -/\n"
                f"def date_is_birthday (E : Ext O) := @{sig.lean} O E\n")
    emit("Date.is_birthday", alias)
    order, missing = class_order(w, "FormattableMixin", MIXIN_TOP)
    for m in missing:
        fallbacks.append(f"Getters: FormattableMixin.{m} not found")
    for m in order:
        if w.find("date", m)[0] != "FormattableMixin":
            continue                        # overridden in Date: translated there
        emit(f"FormattableMixin.{m}", lambda m=m: translate_top(
            w, "date", "FormattableMixin", m, lean_name("date", m), doc=f"`FormattableMixin.{m}` on a Date"))

    # datetime.py
    helpers = sorted(n.name for n in w.cls["DateTime"].body if isinstance(n, ast.FunctionDef)
                     and n.name.startswith("to_") and n.name.endswith("_string"))
    order, missing = class_order(w, "DateTime", DT_TOP + helpers)
    for m in missing:
        fallbacks.append(f"Getters: DateTime.{m} not found")
    for m in order:
        emit(f"DateTime.{m}", lambda m=m: translate_top(w, "dt", "DateTime", m, lean_name("dt", m)))
    out.append("/-- the `to_*_string` helpers of DateTime, in source order -/")
    hs = [n.name for n in w.cls["DateTime"].body if isinstance(n, ast.FunctionDef) and n.name in helpers
          and n.name in w.sigs["dt"]]
    out.append("def dt_to_string_helpers : List (String × (Ext O → Inst O → String)) :=\n  [" +
               ", ".join(f'("{h}", {lean_name("dt", h)})' for h in hs) + "]\n")
    return finish_file()


if __name__ == "__main__":
    import json
    import sys
    sys.path.insert(0, str(Path(__file__).resolve().parent.parent))
    from tools.gen_lean import _write
    ch, fb = [], []
    generate(ch, fb, _write)
    print(json.dumps(dict(changed=ch, fallbacks=fb), indent=1))
