#!/bin/sh
# usage: tools/seed_batch.sh <round-suffix e.g. c>  — process every finished /tmp/mut/out_C??<suffix> not yet recorded
suf="$1"
for out in /tmp/mut/out_C??$suf; do
  [ -f "$out/meta.json" ] && [ -f "$out/patch.diff" ] && [ -f "$out/demo.py" ] || continue
  tag=$(basename "$out" | sed 's/^out_//'); pid=$(echo "$tag" | cut -c1-3)
  [ -f "$out/.processed" ] && continue
  slug=$(python3 -c "
import json,re,sys
m=json.load(open('$out/meta.json')); s=re.sub(r'[^a-z0-9]+','-',m.get('summary','x').lower()).strip('-')
print('-'.join(s.split('-')[:6])[:48])")
  name="$pid-r${ROUND:-3}-$slug"
  tools/seed_run.sh "$tag" "$pid" "$name" 2>&1 | grep "RECORDED\|PATCH\|tier="
  touch "$out/.processed"
done
