"""Translator: the Python front end of `pendulum.parse()`  ->  lean/Pendulum/Gen/Parser.lean

Sources: src/pendulum/parser.py (`parse`, `_parse`, `_interval`) and src/pendulum/parsing/__init__.py (`DEFAULT_OPTIONS`,
`parse`, `_normalize`, `_parse`, `_parse_common`, `_parse_iso8601_interval`, the text of the `COMMON` expression).

Each function becomes one Lean definition in `Pendulum.Gen.Parser`, statement by statement, in source order, in the
exception monad `Except Exc` (`bindE` = "evaluate, propagate what it raises"; `tryExcept body classes handler` =
`try: body except classes: handler`, also used for `with contextlib.suppress(classes): return body` followed by `handler`):
  parsing/__init__.py   `parse` -> `parsing_parse`, `_normalize` -> `parsing_p_normalize`, `_parse` -> `parsing_p_parse`,
                        `_parse_common` -> `parsing_p_parse_common`, `_parse_iso8601_interval` ->
                        `parsing_p_parse_iso8601_interval`, `DEFAULT_OPTIONS`, `COMMON_pattern` (verbatim, pinned)
  parser.py             `parse` -> `parser_parse`, `_parse` -> `parser_p_parse` (the "now" case and the call of the base
                        parser) + `parser_p_parse_dispatch` (everything after `parsed = base_parse(..)`: the type dispatch),
                        `_interval` -> `parser_p_interval`
What is translated: which exceptions are suppressed / caught at which stage, which option is read with which default
(`options.get(k)`, `options.get(k, d)`, `options[k]` on a dictionary with the six known keys, each possibly absent),
`isinstance` dispatch (with narrowing of the possible kinds along each path), `x is None` tests, attribute reads, the
arguments (positional and keyword, exactly as written) of every constructor / method called, the `int()` conversions of the
regex groups, slicing `[:n]`, the `f"{s:0<n}"` padding, `"/" in text`, `text.split("/")` with tuple unpacking.
What is a parameter (record `Ext`, see the generated header): `parse_iso8601`, `COMMON.match` (returns the named groups),
`dateutil.parser.parse`, the stdlib constructors `date/time/datetime`, `datetime.now()`, the pendulum constructors
`pendulum.now/instance/datetime/date/time/duration/interval`, `DateTime.add/subtract`, `isinstance(<DateTime>, datetime)`,
`<DateTime>.tzinfo is None`, "class n derives from ArithmeticError", "RustDuration is not None".
Anything outside this subset is reported as a fallback (prefix "Parser:").
"""
from __future__ import annotations

import ast
import os
import re
from pathlib import Path

REPO = Path(os.environ.get("VERIF_REPO", "/repo"))

KINDS = ("datetime", "date", "time", "interval", "duration", "rustDuration")
OBJ_KINDS = frozenset(("datetime", "date", "time", "duration", "rustDuration"))
DT_FIELDS = ("year", "month", "day", "hour", "minute", "second", "microsecond")
DUR_FIELDS = ("years", "months", "weeks", "days", "hours", "minutes", "seconds", "microseconds", "remaining_days",
              "remaining_seconds")
KW8 = ("years", "months", "weeks", "days", "hours", "minutes", "seconds", "microseconds")
ATTR_KINDS = {**{f: frozenset(("datetime", "date")) for f in ("year", "month", "day")},
              **{f: frozenset(("datetime", "time")) for f in ("hour", "minute", "second", "microsecond")},
              "tzinfo": frozenset(("datetime", "time")),
              **{f: frozenset(("duration", "rustDuration")) for f in DUR_FIELDS}}
# class (fully qualified) -> (PyClass constructor, kinds of the instances)
CLASSES = {
    "datetime.datetime": ("datetime", frozenset(("datetime",))),
    "datetime.date": ("date", frozenset(("datetime", "date"))),
    "datetime.time": ("time", frozenset(("time",))),
    "pendulum.parsing._Interval": ("Interval", frozenset(("interval",))),
    "pendulum.duration.Duration": ("Duration", frozenset(("duration",))),
    "pendulum._pendulum.Duration": ("RustDuration", frozenset(("rustDuration",))),
}
EXC_CLASSES = {"ValueError": "ExcClass.ValueError", "ParserError": "ExcClass.ParserError",
               "OverflowError": "ExcClass.OverflowError", "ArithmeticError": "ExcClass.ArithmeticError"}
BOOL_KEYS = ("day_first", "year_first", "strict", "exact")
DICT_KEYS = BOOL_KEYS + ("now", "tz")


class Bad(Exception):
    pass


# ----------------------------------------------------------------------------- symbolic values

class Val:
    """a symbolic Python value: `e` = Lean term, `t` = its Lean type"""
    t = "?"

    def __init__(self, e):
        self.e = e


class Str(Val):
    t = "List Char"


class B(Val):
    t = "Bool"


class I(Val):
    t = "Int"


class N(Val):
    t = "Nat"


class OptBool(Val):
    t = "Option Bool"


class DictV(Val):
    t = "Dict"


class TzV(Val):
    t = "TzVal"


class NowOpt(Val):
    t = "Option NowV"


class Now(Val):
    t = "NowV"


class NoneV(Val):
    t = "Unit"

    def __init__(self):
        self.e = "()"


class ObjV(Val):
    t = "Obj"

    def __init__(self, e, kinds=OBJ_KINDS):
        self.e, self.kinds = e, frozenset(kinds)


class OptObj(Val):
    t = "Option Obj"

    def __init__(self, e, kinds=OBJ_KINDS):
        self.e, self.kinds = e, frozenset(kinds)


class ParsedV(Val):
    t = "Parsed"

    def __init__(self, e, kinds=KINDS):
        self.e, self.kinds = e, frozenset(kinds)


class IvV(Val):
    t = "IntervalObj"


class GroupsOpt(Val):
    t = "Option Groups"


class GroupsV(Val):
    t = "Groups"


class DG(Val):                 # a `\d…` group: the matched digits as digit values, None when the group did not take part
    t = "Option (List Nat)"


class SG(Val):                 # any other group
    t = "Option (List Char)"


class DS(Val):                 # a string of decimal digits (digit values)
    t = "List Nat"


class PV(Val):                 # a pendulum value (DateTime, Date, Time, Duration, Interval): opaque
    t = "V"


class Marker:                  # a module / class / function name
    def __init__(self, what):
        self.what = what


def L(v):
    return f"({v} : Int)"


def chars(s):
    out = []
    for c in s:
        if c == "'":
            out.append("'\\''")
        elif c == "\\":
            out.append("'\\\\'")
        elif c == "\n":
            out.append("'\\n'")
        elif c.isprintable():
            out.append(f"'{c}'")
        else:
            raise Bad(f"string literal with the character {c!r}")
    return "[" + ", ".join(out) + "]"


def lean_str(s):
    return '"' + s.replace("\\", "\\\\").replace('"', '\\"').replace("\n", "\\n") + '"'


def wrap(binds, body):
    """binds = [(var, raising term)], innermost last"""
    for v, t in reversed(binds):
        body = f"bindE {t} fun {v} =>\n  ({body})"
    return body


# ----------------------------------------------------------------------------- translator

class Tr:
    def __init__(self, mod, imports, funcs, globs):
        self.mod, self.imports, self.funcs, self.globs, self.n = mod, imports, funcs, globs, 0
        self.ret = None          # return type of the function being translated: "Parsed" | "Obj" | "IntervalObj" | "V"

    def fresh(self, base):
        self.n += 1
        return f"{base}_{self.n}"

    # --- names
    def resolve(self, x):
        """dotted name of a Name/Attribute chain through the module's imports, or None"""
        parts = []
        while isinstance(x, ast.Attribute):
            parts.append(x.attr)
            x = x.value
        if not isinstance(x, ast.Name):
            return None
        base = self.imports.get(x.id)
        if base is None:
            return None
        return ".".join([base] + parts[::-1])

    def klass(self, x):
        q = self.resolve(x)
        if q not in CLASSES:
            raise Bad("isinstance against " + ast.unparse(x) + f" ({q})")
        return CLASSES[q]

    def exc_classes(self, x):
        xs = x.elts if isinstance(x, ast.Tuple) else [x]
        out = []
        for c in xs:
            q = self.resolve(c) or (c.id if isinstance(c, ast.Name) else None)
            q = {"pendulum.parsing.exceptions.ParserError": "ParserError"}.get(q, q)
            if q not in EXC_CLASSES:
                raise Bad("exception class outside the subset: " + ast.unparse(c))
            out.append(EXC_CLASSES[q])
        return "[" + ", ".join(out) + "]"

    # --- coercions
    def to_optobj(self, v, what):
        if isinstance(v, OptObj):
            return v.e
        if isinstance(v, ObjV):
            return f"(some {v.e})"
        if isinstance(v, NoneV):
            return "(none : Option Obj)"
        raise Bad(f"{what}: not an object or None ({type(v).__name__})")

    def truthy(self, v, what):
        if isinstance(v, B):
            return v.e
        if isinstance(v, OptBool):
            return f"(py_truthy_optbool {v.e})"
        if isinstance(v, (DG, SG)):
            return f"(Grp.truthy {v.e})"
        if isinstance(v, GroupsOpt):
            return f"(Option.isSome {v.e})"
        raise Bad(f"{what}: truth value of a {type(v).__name__}")

    def as_int(self, v, what):
        if isinstance(v, I):
            return v.e
        raise Bad(f"{what}: not an integer ({type(v).__name__})")

    # --- narrowing by isinstance
    def isinstance_parts(self, x, env):
        if (isinstance(x, ast.Call) and isinstance(x.func, ast.Name) and x.func.id == "isinstance" and len(x.args) == 2
                and not x.keywords):
            return x.args[0], x.args[1]
        return None

    def narrow(self, test, env):
        """(env when the test holds, env when it does not)"""
        if isinstance(test, ast.UnaryOp) and isinstance(test.op, ast.Not):
            a, b = self.narrow(test.operand, env)
            return b, a
        if isinstance(test, ast.BoolOp) and isinstance(test.op, ast.And):
            yes = env
            for v in test.values:
                yes, _ = self.narrow(v, yes)
            return yes, env
        ip = self.isinstance_parts(test, env)
        if ip is not None and isinstance(ip[0], ast.Name) and isinstance(env.get(ip[0].id), (ParsedV, ObjV)):
            o = env[ip[0].id]
            _, ks = self.klass(ip[1])
            yes, no = dict(env), dict(env)
            yes[ip[0].id] = type(o)(o.e, o.kinds & ks)
            no[ip[0].id] = type(o)(o.e, o.kinds - ks)
            return yes, no
        return env, env

    # --- expressions
    def expr(self, x, env, binds):
        if isinstance(x, ast.Constant):
            if x.value is None:
                return NoneV()
            if isinstance(x.value, bool):
                return B("true" if x.value else "false")
            if isinstance(x.value, int):
                return I(L(x.value))
            if isinstance(x.value, str):
                return Str(chars(x.value))
            raise Bad("constant " + repr(x.value))
        if isinstance(x, ast.Name):
            if x.id in env:
                return env[x.id]
            q = self.resolve(x)
            if q == "pendulum.tz.timezone.UTC":
                return TzV("TzVal.UTC")
            if q == "pendulum._pendulum.Duration":
                return Marker("RustDuration")
            if x.id in self.globs:
                return self.globs[x.id]
            raise Bad("unknown name " + x.id)
        if isinstance(x, ast.Attribute):
            key = ast.unparse(x)
            if key in env:                                   # narrowed by `<path> is not None`
                return env[key]
            v = self.expr(x.value, env, binds)
            a = x.attr
            if isinstance(v, (ParsedV, ObjV)) and a in ATTR_KINDS:
                if not v.kinds or not v.kinds <= ATTR_KINDS[a]:
                    raise Bad(f"attribute .{a} of a value that may be of kind {sorted(v.kinds - ATTR_KINDS[a])}")
                o = f"(Parsed.asObj {v.e})" if isinstance(v, ParsedV) else v.e
                if a == "tzinfo":
                    return Val(f"{o}.tzinfo")                # only `is None` / `is not None` may be applied
                return (I if a in DT_FIELDS else N)(f"{o}.{a}")
            if isinstance(v, IvV) and a in ("start", "end", "duration"):
                # the classes `_Interval.__init__` declares for the attribute (checked by the driver)
                ks = ("duration", "rustDuration") if a == "duration" else ("datetime", "date")
                return OptObj(f"{v.e}.{'end_' if a == 'end' else a}", ks)
            if isinstance(v, Now) and a in ("year", "month", "day"):
                return I(f"{v.e}.{a}")
            if isinstance(v, PV) and a == "tzinfo":
                return Val(f"PV.tzinfo {v.e}")
            raise Bad("attribute outside the subset: " + ast.unparse(x))
        if isinstance(x, ast.UnaryOp) and isinstance(x.op, ast.Not):
            return B(f"(!{self.truthy(self.expr(x.operand, env, binds), 'not')})")
        if isinstance(x, ast.BoolOp):
            if isinstance(x.op, ast.Or) and len(x.values) == 2:
                a = self.expr(x.values[0], env, binds)
                if isinstance(a, NowOpt):
                    b2: list = []
                    b = self.expr(x.values[1], env, b2)
                    if b2 or not isinstance(b, Now):
                        raise Bad("`or` over values outside the subset: " + ast.unparse(x))
                    return Now(f"(Option.getD {a.e} {b.e})")  # a datetime is always true, None is false
            parts = []
            cur = env
            for v in x.values:
                b2 = []
                parts.append(self.truthy(self.expr(v, cur, b2), "and/or"))
                if b2:
                    raise Bad("a call that may raise inside `and` / `or`: " + ast.unparse(v))
                if isinstance(x.op, ast.And):
                    cur, _ = self.narrow(v, cur)
            return B("(" + (" && " if isinstance(x.op, ast.And) else " || ").join(parts) + ")")
        if isinstance(x, ast.Compare) and len(x.ops) == 1:
            return self.compare(x, env, binds)
        if isinstance(x, ast.IfExp):
            return self.ifexp(x, env, binds)
        if isinstance(x, ast.Subscript):
            return self.subscript(x, env, binds)
        if isinstance(x, ast.JoinedStr):
            return self.fstring(x, env, binds)
        if isinstance(x, ast.Call):
            return self.call(x, env, binds)
        raise Bad("expression outside the subset: " + ast.unparse(x)[:120])

    def is_none_test(self, left, env, binds):
        """Lean Bool term for `<left> is None`"""
        v = self.expr(left, env, binds)
        if isinstance(v, NoneV):
            return "true"
        if isinstance(v, (ObjV, ParsedV, PV)) or (isinstance(v, Marker) and v.what != "RustDuration"):
            return "false"
        if isinstance(v, Marker):
            return "(!ext.RustDuration_available)"
        if isinstance(v, (OptObj, NowOpt, GroupsOpt)):
            return f"(Option.isNone {v.e})"
        if type(v) is Val and v.e.startswith("PV.tzinfo "):
            return f"(ext.v_tzinfo_is_none {v.e[len('PV.tzinfo '):]})"
        if type(v) is Val and v.e.endswith(".tzinfo"):
            return f"(Option.isNone {v.e})"
        raise Bad("`is None` on a value outside the subset: " + ast.unparse(left))

    def compare(self, x, env, binds):
        o, r = x.ops[0], x.comparators[0]
        if isinstance(o, (ast.Is, ast.IsNot)) and isinstance(r, ast.Constant) and r.value is None:
            c = self.is_none_test(x.left, env, binds)
            return B(c if isinstance(o, ast.Is) else f"(!{c})")
        if isinstance(o, (ast.In, ast.NotIn)):
            a, b = self.expr(x.left, env, binds), self.expr(r, env, binds)
            if isinstance(x.left, ast.Constant) and isinstance(x.left.value, str) and len(x.left.value) == 1 and isinstance(b, Str):
                c = f"(List.contains {b.e} {chars(x.left.value)[1:-1]})"
                return B(c if isinstance(o, ast.In) else f"(!{c})")
            raise Bad("`in` outside the subset: " + ast.unparse(x))
        if isinstance(o, (ast.Eq, ast.NotEq)):
            a, b = self.expr(x.left, env, binds), self.expr(r, env, binds)
            if (isinstance(a, Str) and isinstance(b, Str)) or (isinstance(a, B) and isinstance(b, B)) \
                    or (isinstance(a, I) and isinstance(b, I)):
                return B(f"({a.e} {'==' if isinstance(o, ast.Eq) else '!='} {b.e})")
        raise Bad("comparison outside the subset: " + ast.unparse(x))

    def ifexp(self, x, env, binds):
        b0: list = []
        c = self.truthy(self.expr(x.test, env, b0), "conditional expression")
        if b0:
            raise Bad("a call that may raise in the test of a conditional expression")
        # a statically known `x is None`
        yes, no = self.narrow(x.test, env)
        ba, bb = [], []
        a, b = self.expr(x.body, yes, ba), self.expr(x.orelse, no, bb)
        if isinstance(a, I) and isinstance(b, I):
            if ba or bb:
                v = self.fresh("t")
                binds.append((v, f"(if {c} then ({wrap(ba, f'.ok {a.e}')}) else ({wrap(bb, f'.ok {b.e}')}))"))
                return I(v)
            return I(f"(if {c} then {a.e} else {b.e})")
        if isinstance(a, (ObjV, OptObj, NoneV)) and isinstance(b, (ObjV, OptObj, NoneV)) and not ba and not bb:
            return OptObj(f"(if {c} then {self.to_optobj(a, 'if-else')} else {self.to_optobj(b, 'if-else')})")
        raise Bad("conditional expression over values outside the subset: " + ast.unparse(x)[:120])

    def subscript(self, x, env, binds):
        v = self.expr(x.value, env, binds)
        s = x.slice
        if isinstance(v, DictV) and isinstance(s, ast.Constant) and s.value in DICT_KEYS:
            k = s.value
            t = self.fresh("t")
            binds.append((t, f"(Dict.getitem {v.e}.{k} {lean_str(k)})"))
            return B(t) if k in BOOL_KEYS else NowOpt(t) if k == "now" else TzV(t)
        if isinstance(s, ast.Slice) and s.lower is None and s.step is None and isinstance(s.upper, ast.Constant) \
                and isinstance(s.upper.value, int) and s.upper.value >= 0:
            n = s.upper.value
            if isinstance(v, Str):
                return Str(f"(List.take {n} {v.e})")
            if isinstance(v, DG):                      # `None[:n]` is a TypeError
                t = self.fresh("t")
                binds.append((t, f"(py_slice_to {v.e} {n})"))
                return DS(t)
            if isinstance(v, DS):
                return DS(f"(List.take {n} {v.e})")
        raise Bad("subscript outside the subset: " + ast.unparse(x))

    def fstring(self, x, env, binds):
        if len(x.values) == 1 and isinstance(x.values[0], ast.FormattedValue) and x.values[0].conversion == -1:
            fv = x.values[0]
            spec = fv.format_spec
            if isinstance(spec, ast.JoinedStr) and len(spec.values) == 1 and isinstance(spec.values[0], ast.Constant):
                m = re.fullmatch(r"(\d)<(\d+)", str(spec.values[0].value))
                v = self.expr(fv.value, env, binds)
                if m and isinstance(v, DS):
                    return DS(f"(py_ljust {v.e} {int(m.group(2))} {int(m.group(1))})")
        raise Bad("f-string outside the subset: " + ast.unparse(x))

    def args(self, call, names, defaults, what):
        if len(call.args) > len(names):
            raise Bad(f"{what}: too many positional arguments")
        got = dict(zip(names, call.args))
        for kw in call.keywords:
            if kw.arg is None or kw.arg not in names or kw.arg in got:
                raise Bad(f"{what}: unexpected keyword {kw.arg}")
            got[kw.arg] = kw.value
        for n in names:
            if n not in got:
                if n not in defaults:
                    raise Bad(f"{what}: argument {n} missing")
                got[n] = defaults[n]
        return got

    def int_args(self, call, names, defaults, env, binds, what):
        got = self.args(call, names, defaults, what)
        out = []
        for n in names:
            v = got[n]
            out.append(self.as_int(self.expr(v, env, binds), f"{what}: {n}") if isinstance(v, ast.AST) else v)
        return out

    def kw8(self, call, env, binds, what):
        if call.args:
            raise Bad(f"{what}: positional arguments")
        got = {}
        for kw in call.keywords:
            if kw.arg not in KW8 or kw.arg in got:
                raise Bad(f"{what}: unexpected keyword {kw.arg}")
            v = self.expr(kw.value, env, binds)
            if not isinstance(v, N):
                raise Bad(f"{what}: {kw.arg} is not a duration component")
            got[kw.arg] = v.e
        return "(Kw8.mk " + " ".join(got.get(k, "0") for k in KW8) + ")"

    def raising(self, binds, term, mk, base="t"):
        v = self.fresh(base)
        binds.append((v, term))
        return mk(v)

    def opt_tz(self, call, env, binds, what):
        """the optional `tz=` keyword of pendulum.instance -> Option TzVal term"""
        kws = {k.arg: k.value for k in call.keywords}
        if set(kws) - {"tz"}:
            raise Bad(f"{what}: unexpected keyword")
        if "tz" not in kws:
            return "(none : Option TzVal)"
        tz = self.expr(kws["tz"], env, binds)
        if not isinstance(tz, TzV):
            raise Bad(f"{what}: tz= is not the tz option")
        return f"(some {tz.e})"

    def call(self, x, env, binds):
        f = x.func
        ip = self.isinstance_parts(x, env)
        if ip is not None:
            v = self.expr(ip[0], env, binds)
            cname, _ = self.klass(ip[1])
            if isinstance(v, ParsedV):
                return B(f"(Parsed.isinstance {v.e} PyClass.{cname})")
            if isinstance(v, ObjV):
                return B(f"(Obj.isinstance {v.e} PyClass.{cname})")
            if isinstance(v, (OptObj, NoneV)):
                return B(f"(OptObj.isinstance {self.to_optobj(v, 'isinstance')} PyClass.{cname})")
            if isinstance(v, PV) and cname == "datetime":
                return B(f"(ext.v_is_datetime {v.e})")
            raise Bad("isinstance outside the subset: " + ast.unparse(x))
        q = self.resolve(f)
        nargs, kws = len(x.args), [k.arg for k in x.keywords]
        # --- casts
        if q in ("typing.cast",) and nargs == 2 and not kws:
            return self.expr(x.args[1], env, binds)
        if q == "copy.copy" and nargs == 1 and not kws:
            v = self.expr(x.args[0], env, binds)
            if isinstance(v, DictV):
                return v
        if isinstance(f, ast.Name) and f.id == "int" and nargs == 1 and not kws:
            v = self.expr(x.args[0], env, binds)
            if isinstance(v, DG):
                return self.raising(binds, f"(py_int {v.e})", I)
            if isinstance(v, DS):
                return self.raising(binds, f"(py_int (some {v.e}))", I)
            raise Bad("int() of a value outside the subset: " + ast.unparse(x))
        # --- parameters: parsers
        if q in ("pendulum._pendulum.parse_iso8601", "pendulum.parsing.iso8601.parse_iso8601") and nargs == 1 and not kws:
            s = self.expr(x.args[0], env, binds)
            if isinstance(s, Str):
                return self.raising(binds, f"(ext.parse_iso8601 {s.e})", ObjV)
        if q == "dateutil.parser.parse" and nargs == 1 and kws == ["dayfirst", "yearfirst"]:
            s = self.expr(x.args[0], env, binds)
            a = self.expr(x.keywords[0].value, env, binds)
            b = self.expr(x.keywords[1].value, env, binds)
            if isinstance(s, Str) and isinstance(a, B) and isinstance(b, B):
                return self.raising(binds, f"(ext.dateutil_parse {s.e} {a.e} {b.e})", lambda v: ObjV(v, ("datetime",)))
        # --- stdlib constructors (parsing/__init__.py: `from datetime import date, datetime, time`)
        if q == "datetime.datetime" and not kws and nargs in (3, 7):
            vs = [self.as_int(self.expr(a, env, binds), "datetime()") for a in x.args] + [L(0)] * (7 - nargs)
            return self.raising(binds, "(ext.std_datetime " + " ".join(vs) + ")", lambda v: ObjV(v, ("datetime",)))
        if q == "datetime.date" and not kws and nargs == 3:
            vs = [self.as_int(self.expr(a, env, binds), "date()") for a in x.args]
            return self.raising(binds, "(ext.std_date " + " ".join(vs) + ")", lambda v: ObjV(v, ("date",)))
        if q == "datetime.time" and not kws and nargs == 4:
            vs = [self.as_int(self.expr(a, env, binds), "time()") for a in x.args]
            return self.raising(binds, "(ext.std_time " + " ".join(vs) + ")", lambda v: ObjV(v, ("time",)))
        if q == "datetime.datetime.now" and nargs == 0 and not kws:
            return Now("ext.datetime_now")
        # --- pendulum constructors
        if q == "pendulum.now" and nargs == 0 and not kws:
            return self.raising(binds, "ext.pendulum_now", PV)
        if q == "pendulum.instance" and nargs == 1:
            o = self.expr(x.args[0], env, binds)
            if isinstance(o, ParsedV):
                if not o.kinds or not o.kinds <= OBJ_KINDS:
                    raise Bad("pendulum.instance() of a value that may be an _Interval")
                o = ObjV(f"(Parsed.asObj {o.e})")
            tz = self.opt_tz(x, env, binds, "pendulum.instance")
            return self.raising(binds, f"(ext.pendulum_instance {self.to_optobj(o, 'pendulum.instance')} {tz})", PV)
        if q == "pendulum.datetime" and nargs == 7 and kws == ["tz"]:
            vs = [self.as_int(self.expr(a, env, binds), "pendulum.datetime") for a in x.args]
            tz = self.expr(x.keywords[0].value, env, binds)
            if isinstance(tz, TzV):
                return self.raising(binds, "(ext.pendulum_datetime " + " ".join(vs) + f" {tz.e})", PV)
        if q == "pendulum.date" and nargs == 3 and not kws:
            vs = [self.as_int(self.expr(a, env, binds), "pendulum.date") for a in x.args]
            return self.raising(binds, "(ext.pendulum_date " + " ".join(vs) + ")", PV)
        if q == "pendulum.time" and nargs == 4 and not kws:
            vs = [self.as_int(self.expr(a, env, binds), "pendulum.time") for a in x.args]
            return self.raising(binds, "(ext.pendulum_time " + " ".join(vs) + ")", PV)
        if q == "pendulum.duration":
            return self.raising(binds, f"(ext.pendulum_duration {self.kw8(x, env, binds, 'pendulum.duration')})", PV)
        if q == "pendulum.interval" and nargs == 2 and not kws:
            a = self.expr(x.args[0], env, binds)
            b = self.expr(x.args[1], env, binds)
            if isinstance(a, PV) and isinstance(b, PV):
                return self.raising(binds, f"(ext.pendulum_interval {a.e} {b.e})", PV)
        if q == "pendulum.parsing._Interval" and nargs == 3 and not kws:
            vs = [self.to_optobj(self.expr(a, env, binds), "_Interval()") for a in x.args]
            return IvV("(IntervalObj.mk " + " ".join(vs) + ")")
        # --- translated functions of the two modules
        if q in self.funcs:
            lname, params, ret = self.funcs[q]
            vs = []
            if len(x.args) != sum(1 for p in params if p[1] != "**"):
                raise Bad(f"call of {q}: positional arguments")
            for a, (pn, pt) in zip(x.args, params):
                v = self.expr(a, env, binds)
                if pt == "IntervalObj" and isinstance(v, ParsedV):
                    if v.kinds != frozenset(("interval",)):
                        raise Bad(f"call of {q}: the argument may not be an _Interval")
                    v = IvV(f"(Parsed.asInterval {v.e})")
                if v.t != pt:
                    raise Bad(f"call of {q}: argument {pn} has type {v.t}, expected {pt}")
                vs.append(v.e)
            star = [p for p in params if p[1] == "**"]
            if star:
                if len(x.keywords) != 1 or x.keywords[0].arg is not None:
                    raise Bad(f"call of {q}: expected **options")
                d = self.expr(x.keywords[0].value, env, binds)
                if not isinstance(d, DictV):
                    raise Bad(f"call of {q}: ** of a non-dictionary")
                vs.append(d.e)
            elif x.keywords:
                raise Bad(f"call of {q}: keywords")
            mk = {"Parsed": ParsedV, "Obj": ObjV, "IntervalObj": IvV, "V": PV}[ret]
            return self.raising(binds, f"({lname} ext " + " ".join(vs) + ")", mk)
        # --- methods
        if isinstance(f, ast.Attribute):
            m = f.attr
            if m == "get" and not kws and nargs in (1, 2) and isinstance(x.args[0], ast.Constant):
                d = self.expr(f.value, env, binds)
                k = x.args[0].value
                if isinstance(d, DictV) and k in DICT_KEYS:
                    if nargs == 1:
                        return (OptBool(f"{d.e}.{k}") if k in BOOL_KEYS else
                                NowOpt(f"(Option.getD {d.e}.now none)") if k == "now" else None) or self._bad_get(x)
                    dv = self.expr(x.args[1], env, binds)
                    if k in BOOL_KEYS and isinstance(dv, B):
                        return B(f"(Option.getD {d.e}.{k} {dv.e})")
                    if k == "tz" and isinstance(dv, TzV):
                        return TzV(f"(Option.getD {d.e}.tz {dv.e})")
                raise Bad("options lookup outside the subset: " + ast.unparse(x))
            if m == "match" and nargs == 1 and not kws and isinstance(f.value, ast.Name) and f.value.id == "COMMON" \
                    and "COMMON" in self.globs:
                s = self.expr(x.args[0], env, binds)
                if isinstance(s, Str):
                    return GroupsOpt(f"(ext.COMMON_match {s.e})")
            if m == "group" and nargs == 1 and not kws and isinstance(x.args[0], ast.Constant):
                g = self.expr(f.value, env, binds)
                name = x.args[0].value
                groups = self.globs.get("COMMON")
                if isinstance(g, GroupsV) and groups and name in groups:
                    return (DG if groups[name] else SG)(f"{g.e}.{name}")
                raise Bad("group() outside the subset: " + ast.unparse(x))
            if m == "split" and nargs == 1 and not kws and isinstance(x.args[0], ast.Constant) \
                    and isinstance(x.args[0].value, str) and len(x.args[0].value) == 1:
                s = self.expr(f.value, env, binds)
                if isinstance(s, Str):
                    return Val(f"(py_split {chars(x.args[0].value)[1:-1]} {s.e})")
            if m in ("add", "subtract"):
                r = self.expr(f.value, env, binds)
                if isinstance(r, PV):
                    return self.raising(binds, f"(ext.dt_{m} {r.e} {self.kw8(x, env, binds, '.' + m + '()')})", PV)
        raise Bad("call outside the subset: " + ast.unparse(x)[:120])

    def _bad_get(self, x):
        raise Bad("options lookup outside the subset: " + ast.unparse(x))

    # --- statements
    def coerce_ret(self, v):
        if self.ret == "Parsed":
            if isinstance(v, ParsedV):
                return v.e
            if isinstance(v, ObjV):
                return f"(Parsed.obj {v.e})"
            if isinstance(v, IvV):
                return f"(Parsed.interval {v.e})"
        if self.ret == "Obj" and isinstance(v, ObjV):
            return v.e
        if self.ret == "IntervalObj" and isinstance(v, IvV):
            return v.e
        if self.ret == "V":
            if isinstance(v, PV):
                return v.e
            if isinstance(v, ParsedV) and v.kinds == frozenset(("duration",)):
                return f"(ext.ret_duration (Parsed.asObj {v.e}))"       # `return parsed`: a pendulum Duration as it is
        raise Bad(f"return value of type {v.t} in a function returning {self.ret}")

    def ret_term(self, x, env):
        """term of type Except Exc <ret> for `return x`"""
        binds: list = []
        v = self.expr(x, env, binds)
        r = self.coerce_ret(v)
        if binds and binds[-1][0] == r:                # `return f(..)`: the call itself
            last = binds.pop()
            return wrap(binds, last[1])
        return wrap(binds, f".ok {r}")

    def raise_term(self, s):
        e = s.exc
        name = e.func if isinstance(e, ast.Call) else e
        q = self.resolve(name) or (name.id if isinstance(name, ast.Name) else None)
        q = {"pendulum.parsing.exceptions.ParserError": "ParserError"}.get(q, q)
        if q == "ParserError":
            return ".error Exc.ParserError"
        if q == "ValueError":
            return ".error Exc.ValueError"
        if q == "NotImplementedError":
            return '.error (Exc.other "NotImplementedError")'
        raise Bad("raise outside the subset: " + ast.unparse(s))

    def bind_name(self, name, v, env):
        """let-bind a value to a fresh Lean name; returns (prefix, env)"""
        env = dict(env)
        for k in [k for k in env if k.startswith(name + ".")]:
            del env[k]
        if isinstance(v, (NoneV, Marker)) or type(v) is Val:
            env[name] = v
            return "", env
        n = self.fresh(name)
        nv = type(v)(n, v.kinds) if isinstance(v, (ObjV, ParsedV)) else type(v)(n)
        env[name] = nv
        return f"let {n} : {v.t} := {v.e}\n  ", env

    def block(self, stmts, env):
        if not stmts:
            raise Bad("control falls off the end")
        s, rest = stmts[0], stmts[1:]
        if isinstance(s, ast.Pass) or (isinstance(s, ast.Expr) and isinstance(s.value, ast.Constant)):
            return self.block(rest, env)
        # --- d.update(o)
        if isinstance(s, ast.Expr) and isinstance(s.value, ast.Call) and isinstance(s.value.func, ast.Attribute) \
                and s.value.func.attr == "update" and isinstance(s.value.func.value, ast.Name) \
                and len(s.value.args) == 1 and not s.value.keywords:
            name = s.value.func.value.id
            binds: list = []
            d, o = self.expr(s.value.func.value, env, binds), self.expr(s.value.args[0], env, binds)
            if isinstance(d, DictV) and isinstance(o, DictV) and not binds:
                pre, env2 = self.bind_name(name, DictV(f"(Dict.update {d.e} {o.e})"), env)
                return pre + self.block(rest, env2)
            raise Bad("update() outside the subset: " + ast.unparse(s))
        if isinstance(s, ast.AnnAssign) and s.value is not None:
            s = ast.Assign(targets=[s.target], value=s.value)
        if isinstance(s, ast.Assign):
            binds = []
            # --- options["now"] = <value>
            if len(s.targets) == 1 and isinstance(s.targets[0], ast.Subscript) and isinstance(s.targets[0].value, ast.Name) \
                    and isinstance(s.targets[0].slice, ast.Constant) and s.targets[0].slice.value == "now":
                name = s.targets[0].value.id
                d, v = self.expr(s.targets[0].value, env, binds), self.expr(s.value, env, binds)
                if isinstance(d, DictV) and isinstance(v, NowOpt):
                    pre, env2 = self.bind_name(name, DictV("{ " + d.e + " with now := some " + v.e + " }"), env)
                    return wrap(binds, pre + self.block(rest, env2))
                raise Bad("item assignment outside the subset: " + ast.unparse(s))
            # --- a, b = text.split(c)
            if len(s.targets) == 1 and isinstance(s.targets[0], ast.Tuple) and len(s.targets[0].elts) == 2 \
                    and all(isinstance(e, ast.Name) for e in s.targets[0].elts):
                v = self.expr(s.value, env, binds)
                if type(v) is Val and v.e.startswith("(py_split "):
                    a, b = (self.fresh(e.id) for e in s.targets[0].elts)
                    env2 = dict(env)
                    env2[s.targets[0].elts[0].id], env2[s.targets[0].elts[1].id] = Str(a), Str(b)
                    body = self.block(rest, env2)
                    return wrap(binds, f"match {v.e} with\n  | [{a}, {b}] =>\n  ({body})\n  | _ => .error Exc.ValueError")
                raise Bad("tuple assignment outside the subset: " + ast.unparse(s))
            if all(isinstance(t, ast.Name) for t in s.targets):
                v = self.expr(s.value, env, binds)
                pre = ""
                env2 = env
                for t in s.targets:
                    p, env2 = self.bind_name(t.id, v, env2)
                    pre += p
                return wrap(binds, pre + self.block(rest, env2))
            raise Bad("assignment outside the subset: " + ast.unparse(s)[:120])
        if isinstance(s, ast.If):
            return self.if_stmt(s, rest, env)
        if isinstance(s, ast.Raise) and s.exc is not None:
            return self.raise_term(s)
        if isinstance(s, ast.Return) and s.value is not None:
            return self.ret_term(s.value, env)
        # --- with contextlib.suppress(C): return E        (then the rest)
        if isinstance(s, ast.With) and len(s.items) == 1 and s.items[0].optional_vars is None \
                and isinstance(s.items[0].context_expr, ast.Call) \
                and self.resolve(s.items[0].context_expr.func) == "contextlib.suppress" \
                and len(s.body) == 1 and isinstance(s.body[0], ast.Return) and s.body[0].value is not None:
            ce = s.items[0].context_expr
            if ce.keywords or not ce.args:
                raise Bad("suppress() arguments")
            cls = self.exc_classes(ast.Tuple(elts=list(ce.args)))
            body = self.ret_term(s.body[0].value, env)
            return f"tryExcept ext.issubclass_ArithmeticError ({body}) {cls}\n  ({self.block(rest, env)})"
        # --- try: <return E | name = E>  except C: raise X
        if isinstance(s, ast.Try) and len(s.body) == 1 and len(s.handlers) == 1 and not s.orelse and not s.finalbody \
                and s.handlers[0].type is not None and s.handlers[0].name is None \
                and len(s.handlers[0].body) == 1 and isinstance(s.handlers[0].body[0], ast.Raise):
            cls = self.exc_classes(s.handlers[0].type)
            handler = self.raise_term(s.handlers[0].body[0])
            b = s.body[0]
            if isinstance(b, ast.Return) and b.value is not None:
                return f"tryExcept ext.issubclass_ArithmeticError ({self.ret_term(b.value, env)}) {cls}\n  ({handler})"
            if isinstance(b, ast.Assign) and len(b.targets) == 1 and isinstance(b.targets[0], ast.Name):
                binds = []
                v = self.expr(b.value, env, binds)
                if not binds or binds[-1][0] != v.e:
                    raise Bad("try body outside the subset: " + ast.unparse(b))
                last = binds.pop()
                n = self.fresh(b.targets[0].id)
                env2 = dict(env)
                env2[b.targets[0].id] = type(v)(n, v.kinds) if isinstance(v, (ObjV, ParsedV)) else type(v)(n)
                tried = f"tryExcept ext.issubclass_ArithmeticError ({wrap(binds, last[1])}) {cls}\n  ({handler})"
                return f"bindE ({tried}) fun {n} =>\n  ({self.block(rest, env2)})"
        raise Bad("statement outside the subset: " + ast.unparse(s)[:120])

    def none_test_path(self, test, env):
        """`<name or attribute path> is [not] None` / `not <name>` on an optional value -> (path node, holds-when-None)"""
        if isinstance(test, ast.Compare) and len(test.ops) == 1 and isinstance(test.ops[0], (ast.Is, ast.IsNot)) \
                and isinstance(test.comparators[0], ast.Constant) and test.comparators[0].value is None \
                and isinstance(test.left, (ast.Name, ast.Attribute)):
            return test.left, isinstance(test.ops[0], ast.Is)
        if isinstance(test, ast.UnaryOp) and isinstance(test.op, ast.Not) and isinstance(test.operand, ast.Name) \
                and isinstance(env.get(test.operand.id), GroupsOpt):
            return test.operand, True
        return None

    def if_stmt(self, s, rest, env):
        body, orelse = list(s.body) + rest, list(s.orelse) + rest
        np = self.none_test_path(s.test, env)
        if np is not None:
            b0: list = []
            v = self.expr(np[0], env, b0)
            if isinstance(v, (OptObj, GroupsOpt)) and not b0:
                key = ast.unparse(np[0])
                n = self.fresh(key.split(".")[-1])
                some_env = dict(env)
                some_env[key] = ObjV(n, v.kinds) if isinstance(v, OptObj) else GroupsV(n)
                t_none, t_some = (body, orelse) if np[1] else (orelse, body)
                return (f"match {v.e} with\n  | none =>\n  ({self.block(t_none, env)})\n"
                        f"  | some {n} =>\n  ({self.block(t_some, some_env)})")
        binds: list = []
        c = self.truthy(self.expr(s.test, env, binds), "if")
        yes, no = self.narrow(s.test, env)
        return wrap(binds, f"if {c} then\n  ({self.branch(body, yes)})\n  else\n  ({self.branch(orelse, no)})")

    def branch(self, stmts, env):
        if any(isinstance(v, (ParsedV, ObjV)) and not v.kinds for v in env.values()):
            return '.error (Exc.other "unreachable")'          # no kind of value reaches this path
        return self.block(stmts, env)


# ----------------------------------------------------------------------------- prelude

PRELUDE = r"""/-- a Python exception, by class: `ParserError` (derives from `ValueError`), `ValueError` itself, any other class by name -/
inductive Exc | ParserError | ValueError | other (name : String)
deriving DecidableEq, Repr

/-- the classes named in `except` / `contextlib.suppress` clauses -/
inductive ExcClass | ValueError | ParserError | OverflowError | ArithmeticError
deriving DecidableEq, Repr

/-- `isinstance(e, cls)`; `arith n` = "the class named `n` derives from ArithmeticError" -/
def Exc.isa (arith : String → Bool) : Exc → ExcClass → Bool
  | .ParserError, .ParserError => true
  | .ParserError, .ValueError => true
  | .ValueError, .ValueError => true
  | .other n, .OverflowError => n == "OverflowError"
  | .other n, .ArithmeticError => arith n
  | _, _ => false

/-- evaluate `x`; what it raises propagates -/
def bindE {α β : Type} (x : Except Exc α) (f : α → Except Exc β) : Except Exc β :=
  match x with
  | .ok v => f v
  | .error e => .error e

/-- `try: body  except classes: handler`; also `with contextlib.suppress(classes): return body` followed by `handler` -/
def tryExcept {α : Type} (arith : String → Bool) (body : Except Exc α) (classes : List ExcClass) (handler : Except Exc α) :
    Except Exc α :=
  match body with
  | .ok v => .ok v
  | .error e => if classes.any (e.isa arith) then handler else .error e

/-- what a parser returns, by class: `datetime.datetime`, `datetime.date` (not a datetime), `datetime.time`,
    `pendulum.Duration`, the compiled `_pendulum.Duration` -/
inductive PKind | datetime | date | time | duration | rustDuration
deriving DecidableEq, Repr

/-- such a value, flat: the date/time attributes (`tzinfo` = its UTC offset in seconds, none = naive) and the duration
    attributes; an attribute that the class does not have is never read (the translator checks the possible classes) -/
structure Obj where
  kind : PKind
  year : Int := 0
  month : Int := 0
  day : Int := 0
  hour : Int := 0
  minute : Int := 0
  second : Int := 0
  microsecond : Int := 0
  tzinfo : Option Int := none
  years : Nat := 0
  months : Nat := 0
  weeks : Nat := 0
  days : Nat := 0
  hours : Nat := 0
  minutes : Nat := 0
  seconds : Nat := 0
  microseconds : Nat := 0
  remaining_days : Nat := 0
  remaining_seconds : Nat := 0
deriving DecidableEq, Repr

instance : Inhabited Obj := ⟨{ kind := .date }⟩

/-- `parsing._Interval(start, end, duration)` -/
structure IntervalObj where
  start : Option Obj
  end_ : Option Obj
  duration : Option Obj
deriving DecidableEq, Repr

/-- what `parsing.parse` / `parsing._parse` return -/
inductive Parsed | obj (o : Obj) | interval (i : IntervalObj)
deriving DecidableEq, Repr

inductive PyClass | datetime | date | time | Interval | Duration | RustDuration
deriving DecidableEq, Repr

/-- `isinstance(o, cls)`: `datetime.datetime` derives from `datetime.date` -/
def Obj.isinstance (o : Obj) (c : PyClass) : Bool :=
  match c with
  | .datetime => decide (o.kind = .datetime)
  | .date => decide (o.kind = .datetime) || decide (o.kind = .date)
  | .time => decide (o.kind = .time)
  | .Duration => decide (o.kind = .duration)
  | .RustDuration => decide (o.kind = .rustDuration)
  | .Interval => false

def OptObj.isinstance (o : Option Obj) (c : PyClass) : Bool :=
  match o with
  | some x => x.isinstance c
  | none => false

def Parsed.isinstance (p : Parsed) (c : PyClass) : Bool :=
  match p with
  | .obj o => o.isinstance c
  | .interval _ => decide (c = .Interval)

def Parsed.asObj : Parsed → Obj
  | .obj o => o
  | .interval _ => default

def Parsed.asInterval : Parsed → IntervalObj
  | .interval i => i
  | .obj _ => ⟨none, none, none⟩

/-- a value of the `tz` option: the `UTC` singleton of `pendulum.tz.timezone`, `None`, a `FixedTimezone` made by the caller,
    or a number of hours / a `datetime.timezone` (resolved to the cached per-offset `FixedTimezone`); offsets in seconds -/
inductive TzVal | UTC | None | fixed (off : Int) | shared (off : Int)
deriving DecidableEq, Repr

/-- the (year, month, day) of a `datetime` given as `now=` / returned by `datetime.now()` -/
structure NowV where
  year : Int
  month : Int
  day : Int
deriving DecidableEq, Repr

/-- an options dictionary: the six keys the code reads, each possibly absent (none) -/
structure Dict where
  day_first : Option Bool := none
  year_first : Option Bool := none
  strict : Option Bool := none
  exact : Option Bool := none
  now : Option (Option NowV) := none
  tz : Option TzVal := none
deriving DecidableEq, Repr

def ovr {α : Type} (new old : Option α) : Option α :=
  match new with
  | some v => some v
  | none => old

/-- `a.update(b)` -/
def Dict.update (a b : Dict) : Dict :=
  { day_first := ovr b.day_first a.day_first, year_first := ovr b.year_first a.year_first, strict := ovr b.strict a.strict,
    exact := ovr b.exact a.exact, now := ovr b.now a.now, tz := ovr b.tz a.tz }

/-- `d[key]` -/
def Dict.getitem {α : Type} (field : Option α) (key : String) : Except Exc α :=
  match field with
  | some v => .ok v
  | none => .error (.other "KeyError")

/-- truth value of `d.get(key)` for a boolean option -/
def py_truthy_optbool (v : Option Bool) : Bool := v == some true

/-- truth value of `m.group(name)`: the group took part in the match and is not empty -/
def Grp.truthy {α : Type} (g : Option (List α)) : Bool :=
  match g with
  | some (_ :: _) => true
  | _ => false

/-- `int(s)` for a string of decimal digits given by their digit values (`\d` matches decimal digits only); `int(None)`
    is a TypeError, `int("")` a ValueError -/
def py_int (g : Option (List Nat)) : Except Exc Int :=
  match g with
  | none => .error (.other "TypeError")
  | some [] => .error .ValueError
  | some ds => .ok (Int.ofNat (ds.foldl (fun a d => 10 * a + d) 0))

/-- `s[:n]`; `None[:n]` is a TypeError -/
def py_slice_to {α : Type} (g : Option (List α)) (n : Nat) : Except Exc (List α) :=
  match g with
  | none => .error (.other "TypeError")
  | some s => .ok (s.take n)

/-- `f"{s:c<n}"`: `s` padded on the right with the digit `c` to `n` characters -/
def py_ljust (s : List Nat) (n : Nat) (c : Nat) : List Nat := s ++ List.replicate (n - s.length) c

/-- `s.split(sep)` for a one-character separator -/
def py_split (sep : Char) : List Char → List (List Char)
  | [] => [[]]
  | c :: cs =>
    if c = sep then [] :: py_split sep cs
    else match py_split sep cs with
      | [] => [[c]]
      | p :: ps => (c :: p) :: ps

/-- the keyword arguments of `DateTime.add` / `subtract` / `pendulum.duration` (absent = 0) -/
structure Kw8 where
  years : Nat
  months : Nat
  weeks : Nat
  days : Nat
  hours : Nat
  minutes : Nat
  seconds : Nat
  microseconds : Nat
deriving DecidableEq, Repr
"""

EXT = """/-- everything the translated code calls that is not in the two translated files; `V` = the pendulum values
    (DateTime, Date, Time, Duration, Interval) -/
structure Ext (V : Type) where
  /-- `parse_iso8601(text)` of the active backend -/
  parse_iso8601 : List Char → Except Exc Obj
  /-- `COMMON.match(text)`: the named groups, none = no match -/
  COMMON_match : List Char → Option Groups
  /-- `dateutil.parser.parse(text, dayfirst=, yearfirst=)` -/
  dateutil_parse : List Char → Bool → Bool → Except Exc Obj
  /-- the class named `n` derives from `ArithmeticError` -/
  issubclass_ArithmeticError : String → Bool
  /-- `datetime.date(y, m, d)`, `datetime.time(h, mi, s, us)`, `datetime.datetime(y, m, d, h, mi, s, us)` -/
  std_date : Int → Int → Int → Except Exc Obj
  std_time : Int → Int → Int → Int → Except Exc Obj
  std_datetime : Int → Int → Int → Int → Int → Int → Int → Except Exc Obj
  /-- `datetime.now()` -/
  datetime_now : NowV
  /-- `RustDuration is not None` (the compiled extension could be imported) -/
  RustDuration_available : Bool
  pendulum_now : Except Exc V
  /-- `pendulum.instance(obj)` / `pendulum.instance(obj, tz=tz)` -/
  pendulum_instance : Option Obj → Option TzVal → Except Exc V
  /-- `pendulum.datetime(y, m, d, h, mi, s, us, tz=tz)` -/
  pendulum_datetime : Int → Int → Int → Int → Int → Int → Int → TzVal → Except Exc V
  pendulum_date : Int → Int → Int → Except Exc V
  pendulum_time : Int → Int → Int → Int → Except Exc V
  pendulum_duration : Kw8 → Except Exc V
  pendulum_interval : V → V → Except Exc V
  /-- `<DateTime>.add(**kw)`, `<DateTime>.subtract(**kw)` -/
  dt_add : V → Kw8 → Except Exc V
  dt_subtract : V → Kw8 → Except Exc V
  /-- `isinstance(v, datetime.datetime)`, `v.tzinfo is None` for a pendulum value -/
  v_is_datetime : V → Bool
  v_tzinfo_is_none : V → Bool
  /-- a `pendulum.Duration` returned as it is -/
  ret_duration : Obj → V
"""


# ----------------------------------------------------------------------------- driver

def _imports(tree, modname):
    """local name -> dotted origin, for the module-level imports (including those inside try/except ImportError)"""
    out = {}

    def visit(body):
        for n in body:
            if isinstance(n, ast.Import):
                for a in n.names:
                    out[a.asname or a.name.split(".")[0]] = a.name if a.asname else a.name.split(".")[0]
            elif isinstance(n, ast.ImportFrom) and n.module and n.level == 0:
                for a in n.names:
                    out.setdefault(a.asname or a.name, n.module + "." + a.name)
            elif isinstance(n, ast.Try):
                visit(n.body)
            elif isinstance(n, ast.If) and ast.unparse(n.test).endswith("TYPE_CHECKING"):
                pass
    visit(tree.body)
    return out


def _fn(tree, name):
    for n in tree.body:
        if isinstance(n, ast.FunctionDef) and n.name == name:
            return n
    raise Bad(f"function {name} not found")


def _sig(fn, expect):
    a = fn.args
    got = [x.arg for x in a.args] + (["**" + a.kwarg.arg] if a.kwarg else [])
    if a.vararg or a.kwonlyargs or a.posonlyargs or a.defaults or got != expect:
        raise Bad(f"{fn.name}: signature {got}, expected {expect}")


def _body(fn):
    return [s for s in fn.body if not (isinstance(s, ast.Expr) and isinstance(s.value, ast.Constant))]


def _common(tree):
    """the COMMON expression: (verbatim source of the assignment, {group name: is a `\\d{..}` group}) """
    for n in tree.body:
        if isinstance(n, ast.Assign) and len(n.targets) == 1 and isinstance(n.targets[0], ast.Name) and n.targets[0].id == "COMMON":
            c = n.value
            if not (isinstance(c, ast.Call) and ast.unparse(c.func) == "re.compile" and len(c.args) == 2
                    and isinstance(c.args[0], ast.Constant) and isinstance(c.args[0].value, str)):
                raise Bad("COMMON is no longer re.compile(<string>, <flags>)")
            pat, flags = c.args[0].value, ast.unparse(c.args[1])
            groups = {}
            for m in re.finditer(r"\(\?P<(\w+)>", pat):
                # the group's content, up to its closing parenthesis
                i, depth, j = m.end(), 1, m.end()
                while depth and j < len(pat):
                    ch = pat[j]
                    if ch == "\\":
                        j += 2
                        continue
                    if ch == "[":
                        j = pat.index("]", j + 1)
                    elif ch == "(":
                        depth += 1
                    elif ch == ")":
                        depth -= 1
                    j += 1
                inner = pat[i:j - 1]
                groups[m.group(1)] = re.fullmatch(r"\s*\\d\{\d+(,\d+)?\}\s*", inner) is not None
            return pat + "\n" + flags, groups
    raise Bad("COMMON not found")


def _default_options(tree, tr):
    for n in tree.body:
        if isinstance(n, ast.Assign) and len(n.targets) == 1 and isinstance(n.targets[0], ast.Name) \
                and n.targets[0].id == "DEFAULT_OPTIONS" and isinstance(n.value, ast.Dict):
            fields = []
            for k, v in zip(n.value.keys, n.value.values):
                if not (isinstance(k, ast.Constant) and k.value in DICT_KEYS):
                    raise Bad("DEFAULT_OPTIONS: key " + ast.unparse(k))
                val = tr.expr(v, {}, [])
                if k.value in BOOL_KEYS and isinstance(val, B):
                    fields.append(f"{k.value} := some {val.e}")
                elif k.value == "now" and isinstance(val, NoneV):
                    fields.append("now := some none")
                else:
                    raise Bad(f"DEFAULT_OPTIONS[{k.value!r}] = {ast.unparse(v)}")
            return "{ " + ", ".join(fields) + " }"
    raise Bad("DEFAULT_OPTIONS not found")


def generate(changed, fallbacks, _write):
    from tools.gen_lean import GEN
    out = ["/-! GENERATED by tools/gen_parser.py from src/pendulum/parser.py and src/pendulum/parsing/__init__.py — do not edit.",
           "",
           "Each function of the Python front end of `pendulum.parse()` as its decision structure, statement by statement, in the",
           "exception monad `Except Exc`; external callees are the fields of `ext : Ext V`. -/",
           "set_option linter.unusedVariables false", "namespace Pendulum.Gen.Parser", "", PRELUDE]

    def finish():
        out.extend(["end Pendulum.Gen.Parser", ""])
        _write(GEN / "Parser.lean", "\n".join(out), changed)
        return 0

    def fb(msg):
        fallbacks.append("Parser: " + msg)

    try:
        ptree = ast.parse((REPO / "src/pendulum/parsing/__init__.py").read_text())
        rtree = ast.parse((REPO / "src/pendulum/parser.py").read_text())
        etree = ast.parse((REPO / "src/pendulum/parsing/exceptions/__init__.py").read_text())
    except (OSError, SyntaxError) as e:
        fb(f"cannot read the sources: {e}")
        return finish()

    # ParserError derives from ValueError (what `Exc.isa` says)
    pe = next((n for n in etree.body if isinstance(n, ast.ClassDef) and n.name == "ParserError"), None)
    if pe is None or [ast.unparse(b) for b in pe.bases] != ["ValueError"]:
        fb("ParserError no longer derives directly from ValueError (parsing/exceptions)")

    pimp = _imports(ptree, "pendulum.parsing")
    pimp["_Interval"] = "pendulum.parsing._Interval"
    for name in ("parse", "_parse", "_normalize", "_parse_common", "_parse_iso8601_interval"):
        pimp[name] = "pendulum.parsing." + name         # inside the module the functions call each other by their bare names
    rimp = _imports(rtree, "pendulum.parser")
    for mod, imp, want in (
            ("parsing/__init__.py", pimp, {"date": "datetime.date", "datetime": "datetime.datetime", "time": "datetime.time",
                                           "parser": "dateutil.parser", "cast": "typing.cast", "contextlib": "contextlib",
                                           "copy": "copy", "ParserError": "pendulum.parsing.exceptions.ParserError",
                                           "parse_iso8601": "pendulum._pendulum.parse_iso8601"}),
            ("parser.py", rimp, {"datetime": "datetime", "pendulum": "pendulum", "t": "typing",
                                 "Duration": "pendulum.duration.Duration", "_Interval": "pendulum.parsing._Interval",
                                 "base_parse": "pendulum.parsing.parse", "UTC": "pendulum.tz.timezone.UTC",
                                 "ParserError": "pendulum.parsing.exceptions.ParserError",
                                 "RustDuration": "pendulum._pendulum.Duration"})):
        for k, v in want.items():
            if imp.get(k) != v:
                fb(f"the name `{k}` in {mod} is no longer {v} (now {imp.get(k)})")

    # the attribute classes `_Interval.__init__` declares (what attribute reads on `parsed.duration` rely on)
    ivc = next((n for n in ptree.body if isinstance(n, ast.ClassDef) and n.name == "_Interval"), None)
    init = next((n for n in (ivc.body if ivc else []) if isinstance(n, ast.FunctionDef) and n.name == "__init__"), None)
    want_init = ("def __init__(self, start: datetime | None=None, end: datetime | None=None, duration: Duration | None=None) -> None:\n"
                 "    self.start = start\n    self.end = end\n    self.duration = duration")
    if init is None or ast.unparse(init) != want_init:
        fb("parsing._Interval.__init__ is no longer (start: datetime | None, end: datetime | None, duration: Duration | None) "
           "stored as they are")

    globs: dict = {}
    funcs: dict = {}
    ptr = Tr("parsing", pimp, funcs, globs)
    rtr = Tr("parser", rimp, funcs, globs)

    # ---- COMMON: the pattern verbatim, the record of its named groups
    try:
        pat, groups = _common(ptree)
        globs["COMMON"] = groups
        out.append("/-- the named groups of `COMMON`: a `\\d{..}` group as the digit values of the matched digits, any other group as\n"
                   "    its text; none = the group did not take part in the match -/")
        out.append("structure Groups where")
        for g, dig in groups.items():
            out.append(f"  {g} : Option (List {'Nat' if dig else 'Char'})")
        out.append("deriving DecidableEq, Repr\n")
        out.append("/-- the `COMMON` regular expression and its flags, verbatim (its matching is the parameter `Ext.COMMON_match`) -/")
        out.append(f"def COMMON_pattern : String :=\n  {lean_str(pat)}\n")
    except (Bad, ValueError) as e:
        fb(f"cannot translate COMMON: {e}")
        out.append("structure Groups where\n  none_ : Unit\n")
    out.append(EXT)

    def emit(label, key, thunk):
        try:
            out.append(thunk())
        except (Bad, StopIteration, KeyError, IndexError, AttributeError, ValueError) as e:
            fb(f"cannot translate {label}: {e}")
            out.append(f"-- UNTRANSLATABLE {label}: {str(e)[:300]}\n")
            funcs.pop(key, None)

    def t_defaults():
        d = _default_options(ptree, ptr)
        globs["DEFAULT_OPTIONS"] = DictV("DEFAULT_OPTIONS")
        return f"/-- `DEFAULT_OPTIONS` of parsing/__init__.py -/\ndef DEFAULT_OPTIONS : Dict :=\n  {d}\n"

    def fn_def(tr, tree, pyname, lname, sig, params, ret, doc, env=None, body=None):
        """params: [(python name, Lean type | "**")]"""
        fn = _fn(tree, pyname)
        _sig(fn, sig)
        tr.n, tr.ret = 0, ret
        e = {}
        for pn, pt in params:
            e[pn] = {"List Char": Str, "Dict": DictV, "**": DictV, "Parsed": ParsedV, "IntervalObj": IvV, "TzVal": TzV}[pt](pn)
        if env:
            e.update(env)
        term = tr.block(_body(fn) if body is None else body(fn), e)
        ps = " ".join(f"({pn} : {'Dict' if pt == '**' else pt})" for pn, pt in params)
        return f"/-- {doc} -/\ndef {lname} {{V : Type}} (ext : Ext V) {ps} : Except Exc {ret} :=\n  {term}\n"

    def reg(q, lname, params, ret):
        funcs[q] = (lname, params, ret)

    # ---- parsing/__init__.py (callees first)
    emit("DEFAULT_OPTIONS", "-", t_defaults)
    P = "pendulum.parsing."
    reg(P + "_parse_common", "parsing_p_parse_common", [("text", "List Char"), ("options", "**")], "Obj")
    emit("parsing._parse_common", P + "_parse_common", lambda: fn_def(
        ptr, ptree, "_parse_common", "parsing_p_parse_common", ["text", "**options"],
        [("text", "List Char"), ("options", "**")], "Obj", "`parsing/__init__.py::_parse_common(text, **options)`"))
    reg(P + "_parse_iso8601_interval", "parsing_p_parse_iso8601_interval", [("text", "List Char")], "IntervalObj")
    emit("parsing._parse_iso8601_interval", P + "_parse_iso8601_interval", lambda: fn_def(
        ptr, ptree, "_parse_iso8601_interval", "parsing_p_parse_iso8601_interval", ["text"], [("text", "List Char")],
        "IntervalObj", "`parsing/__init__.py::_parse_iso8601_interval(text)`"))
    reg(P + "_parse", "parsing_p_parse", [("text", "List Char"), ("options", "**")], "Parsed")
    emit("parsing._parse", P + "_parse", lambda: fn_def(
        ptr, ptree, "_parse", "parsing_p_parse", ["text", "**options"], [("text", "List Char"), ("options", "**")], "Parsed",
        "`parsing/__init__.py::_parse(text, **options)`: the chain ISO 8601 → interval → COMMON → (strict) → dateutil"))
    reg(P + "_normalize", "parsing_p_normalize", [("parsed", "Parsed"), ("options", "**")], "Parsed")
    emit("parsing._normalize", P + "_normalize", lambda: fn_def(
        ptr, ptree, "_normalize", "parsing_p_normalize", ["parsed", "**options"], [("parsed", "Parsed"), ("options", "**")],
        "Parsed", "`parsing/__init__.py::_normalize(parsed, **options)`"))
    reg(P + "parse", "parsing_parse", [("text", "List Char"), ("options", "**")], "Parsed")
    emit("parsing.parse", P + "parse", lambda: fn_def(
        ptr, ptree, "parse", "parsing_parse", ["text", "**options"], [("text", "List Char"), ("options", "**")], "Parsed",
        "`parsing/__init__.py::parse(text, **options)`: the defaults, `_parse`, `_normalize`"))

    # ---- parser.py
    R = "pendulum.parser."
    reg(R + "_interval", "parser_p_interval", [("parsed", "IntervalObj"), ("tz", "TzVal")], "V")
    rimp["_interval"] = R + "_interval"
    emit("parser._interval", R + "_interval", lambda: fn_def(
        rtr, rtree, "_interval", "parser_p_interval", ["parsed", "tz"], [("parsed", "IntervalObj"), ("tz", "TzVal")], "V",
        "`parser.py::_interval(parsed, tz)`: the three shapes duration+start, duration+end, start+end"))

    split = {}

    def find_split(fn):
        b = _body(fn)
        for i, s in enumerate(b):
            if isinstance(s, ast.Assign) and len(s.targets) == 1 and isinstance(s.targets[0], ast.Name) \
                    and s.targets[0].id == "parsed" and ast.unparse(s.value) == "base_parse(text, **options)":
                split["head"], split["tail"] = b[:i], b[i + 1:]
                return
        raise Bad("`parsed = base_parse(text, **options)` not found at the top level of _parse")

    def t_dispatch():
        find_split(_fn(rtree, "_parse"))
        return fn_def(rtr, rtree, "_parse", "parser_p_parse_dispatch", ["text", "**options"],
                      [("text", "List Char"), ("parsed", "Parsed"), ("options", "**")], "V",
                      "`parser.py::_parse` after `parsed = base_parse(text, **options)`: the dispatch on the type of the parsed value",
                      body=lambda fn: split["tail"])

    reg(R + "_parse_dispatch", "parser_p_parse_dispatch", [("text", "List Char"), ("parsed", "Parsed"), ("options", "**")], "V")
    emit("parser._parse (type dispatch)", R + "_parse_dispatch", t_dispatch)

    def t_parse_head():
        if "head" not in split:
            raise Bad("the type dispatch could not be translated")
        if R + "_parse_dispatch" not in funcs or P + "parse" not in funcs:
            raise Bad("depends on a function that could not be translated")
        call = ast.parse("return _parse_dispatch(text, parsed, **options)").body[0]
        bind = ast.parse("parsed = base_parse(text, **options)").body[0]
        rimp["_parse_dispatch"] = R + "_parse_dispatch"
        fn = _fn(rtree, "_parse")
        _sig(fn, ["text", "**options"])
        rtr.n, rtr.ret = 0, "V"
        term = rtr.block(split["head"] + [bind, call], {"text": Str("text"), "options": DictV("options")})
        return ("/-- `parser.py::_parse(text, **options)`: the \"now\" special case, the base parser, the dispatch -/\n"
                f"def parser_p_parse {{V : Type}} (ext : Ext V) (text : List Char) (options : Dict) : Except Exc V :=\n  {term}\n")

    reg(R + "_parse", "parser_p_parse", [("text", "List Char"), ("options", "**")], "V")
    rimp["_parse"] = R + "_parse"
    emit("parser._parse", R + "_parse", t_parse_head)
    emit("parser.parse", R + "parse", lambda: fn_def(
        rtr, rtree, "parse", "parser_parse", ["text", "**options"], [("text", "List Char"), ("options", "**")], "V",
        "`parser.py::parse(text, **options)` = `pendulum.parse`"))
    return finish()
