"""rewrites the block between <!-- FINDINGS:BEGIN --> and <!-- FINDINGS:END --> in DESIGN.md from known_findings.json"""
import json, os, re
ROOT = os.path.dirname(os.path.dirname(os.path.abspath(__file__)))
kf = json.load(open(os.path.join(ROOT, "known_findings.json")))
lines = ["", "**Known findings** (genuine defects recorded, not repaired; each has a specific matcher in `harness/props/<id>.py`):", "",
         "| id | property | matcher | what fails |", "|---|---|---|---|"]
for f in sorted(kf["findings"], key=lambda f: (f["property"], f["id"])):
    lines.append(f"| {f['id']} | {f['property']} | `{f['matcher']}` | {f['what']} |")
lines += ["", f"**Fixed defects** ({len(kf['fixed'])} `fix:` commits in /repo; each was first reported by the machinery on the unchanged tree — "
          "oracle failure with a concrete replay — then repaired, then the model/theorems were moved to the repaired code):", ""]
for x in kf["fixed"]:
    m = re.match(r"fixed: property=(\S+) (\S+) (.*)", x)
    lines.append(f"* **{m.group(1)}** `{m.group(2)}` — {m.group(3)}")
lines.append("")
p = os.path.join(ROOT, "DESIGN.md")
s = open(p).read()
b, e = "<!-- FINDINGS:BEGIN -->", "<!-- FINDINGS:END -->"
if b not in s:
    s = s.replace("## 12. Seeded changes", "## 11c. Findings: final disposition (generated from known_findings.json)\n\n" + b + "\n" + e + "\n\n## 12. Seeded changes")
s = s[:s.index(b) + len(b)] + "\n".join(lines) + s[s.index(e):]
open(p, "w").write(s)
print("findings:", len(kf["findings"]), "fixed:", len(kf["fixed"]))
