#!/bin/sh
# usage: tools/seed_recheck.sh <seed-name>  — re-run only the check of a recorded seed (/verif/seeded/<name>) against a fresh
# worktree of /repo HEAD with its patch applied; appends the outcome to recheck.txt in the seed directory.
name="$1"; dst=/verif/seeded/$name; prop=$(echo "$name" | cut -c1-3)
wt=/tmp/mut/apply_$name
git -C /repo worktree remove --force "$wt" 2>/dev/null; rm -rf "$wt"
git -C /repo worktree add -q --detach "$wt" HEAD || exit 2
if ! git -C "$wt" apply "$dst/patch.diff"; then echo "PATCH DOES NOT APPLY"; git -C /repo worktree remove --force "$wt"; exit 2; fi
(cd /verif && VERIF_REPO=$wt ./check "$prop" > "$dst/check_output.txt" 2>&1); k=$?; tail -n 3 "$dst/check_output.txt"; echo "check exit=$k"
rp=$(grep -o 'replay=[^ ]*' "$dst/check_output.txt" | head -n 1 | cut -d= -f2)
[ -n "$rp" ] && cp "/verif/$rp" "$dst/replay.json"
echo "recheck $(git -C /verif rev-parse --short HEAD)+: check_exit=$k" >> "$dst/recheck.txt"
git -C /repo worktree remove --force "$wt"
