"""Statement translation for tools/gen_isors.py: Rust statement lists -> Lean terms in the `Except (Err _)` / `Option` / identity
"monad" of the function, compound statements as values over the variables they assign, loops as recursive definitions."""
from __future__ import annotations

import re

from tools.rust_front import Bad, BLOCKLIKE
from tools.isors_prog import (contains, declared, diverges, has_break, has_ok_return, lty, pack, pack_ty, reads, root, rty,
                              vname)
from tools.isors_expr import ExprTr

THRESH = 14


class Late:
    """type of a variable declared before its (branch-wise) initialisation"""

    def __init__(self, ty=None):
        self.ty = ty


class Ctx:
    def __init__(self, vars_, uninit, ro, done, ret, retp, brk):
        self.vars, self.uninit, self.ro = vars_, uninit, ro
        self.done, self.ret, self.retp, self.brk = done, ret, retp, brk

    def child(self, **kw):
        c = Ctx(dict(self.vars), set(self.uninit), set(self.ro), self.done, self.ret, self.retp, self.brk)
        for k, v in kw.items():
            setattr(c, k, v)
        return c


def tailify(block):
    """the value of the function body's last expression is returned"""
    if not block:
        return block
    s = block[-1]
    if s[0] != "tail":
        return block
    e = s[1]
    if e[0] == "if":
        new = ("expr", ("if", e[1], tailify(e[2]), tailify(e[3]) if e[3] is not None else None))
    elif e[0] == "iflet":
        new = ("expr", ("iflet", e[1], e[2], tailify(e[3]), tailify(e[4]) if e[4] is not None else None))
    elif e[0] == "match":
        new = ("expr", ("match", e[1], [(p, tailify(b)) for p, b in e[2]]))
    elif e[0] in BLOCKLIKE:
        raise Bad("loop / block as the value of a function")
    else:
        new = ("return", e)
    return block[:-1] + [new]


def assignify(block, name):
    """the value of a block is assigned to `name` instead"""
    if not block or block[-1][0] != "tail":
        raise Bad("a branch of a value-producing `if`/`match` does not end with a value")
    e = block[-1][1]
    if e[0] == "if":
        if e[3] is None:
            raise Bad("value-producing `if` without else")
        new = ("expr", ("if", e[1], assignify(e[2], name), assignify(e[3], name)))
    elif e[0] == "match":
        new = ("expr", ("match", e[1], [(p, assignify(b, name)) for p, b in e[2]]))
    else:
        new = ("assign", ("path", name), "=", e)
    return block[:-1] + [new]


def indent(lines, k):
    return [(" " * k + l) if l else l for l in lines]


class StmtTr(ExprTr):
    def __init__(self, prog, fi, shared):
        self.prog, self.fi, self.shared = prog, fi, shared
        self.nfresh, self.ndef = 0, 0
        self.defs = []
        self.used_fuel = self.used_ext = False
        self.ext_used = shared["ext_used"]

    def fresh(self):
        self.nfresh += 1
        return f"t_{self.nfresh}"

    def vt(self, ctx, name):
        t = ctx.vars[name]
        if isinstance(t, Late):
            return t.ty if t.ty is not None else "Num"
        return t

    def path(self, name, ctx, want):
        if name in ctx.vars and isinstance(ctx.vars[name], Late):
            if name in ctx.uninit:
                raise Bad(f"{name} is read before it is initialised")
            return [], vname(name), self.vt(ctx, name)
        return super().path(name, ctx, want)

    def raw(self, e, ctx, want=None, bindpat=None):
        if e[0] == "litcond":
            v, _t = self.pure(e[1], ctx)
            return [], self.lit_cond(v, e[2]), "Bool"
        return super().raw(e, ctx, want, bindpat)

    # ------------------------------------------------------------------ rendering of binding steps
    def render(self, steps, pad):
        lines = []
        for s in steps:
            if s[0] == "let":
                ty = f" : {s[2]}" if s[2] else ""
                lines.append(f"{pad}let {s[1]}{ty} := {s[3]}")
            else:
                _, kind, pat, term, fail = s
                lines.append(f"{pad}match {term} with")
                if kind == "res":
                    lines += [f"{pad}| .error e => .error e", f"{pad}| .ok {pat} =>"]
                elif kind == "pyres":
                    lines += [f"{pad}| .error e => .error (.fail e)", f"{pad}| .ok {pat} =>"]
                else:
                    lines += [f"{pad}| none => {fail}", f"{pad}| some {pat} =>"]
        return lines

    # ------------------------------------------------------------------ statement lists
    def stmts(self, ss, ctx, ind):
        return self.peep(self.stmts_(ss, ctx, ind))

    @staticmethod
    def peep(lines):
        """`match X with | .error e => .error e | .ok P => .ok P` is `X` (same for `none`/`some`)"""
        if len(lines) >= 4:
            a, b, c, d = lines[-4:]
            pad = a[:len(a) - len(a.lstrip())]
            if a.startswith(pad + "match ") and a.endswith(" with") and "\n" not in a:
                x = a[len(pad) + 6:-5]
                for (e1, okc) in ((f"{pad}| .error e => .error e", ".ok "), (f"{pad}| none => none", "some ")):
                    ok_head = ("| " + okc) if okc == "some " else "| .ok "
                    if b == e1 and c.startswith(pad + ok_head) and c.endswith(" =>"):
                        pat = c[len(pad) + len(ok_head):-3]
                        if d == f"{pad}{okc}{pat}":
                            return lines[:-4] + [pad + x]
        return lines

    def stmts_(self, ss, ctx, ind):
        pad = " " * ind
        if not ss:
            if ctx.done is None:
                raise Bad("control reaches the end of a block that must return")
            return [pad + ctx.done(ctx)]
        s, rest = ss[0], ss[1:]
        k = s[0]
        if k == "rawline":
            return [pad + s[1]]
        if k == "let":
            return self.st_let(s, rest, ctx, ind)
        if k == "letdecl":
            c = ctx.child()
            c.vars[s[1]] = Late(s[2])
            c.uninit.add(s[1])
            return self.stmts(rest, c, ind)
        if k == "assign":
            return self.st_assign(s, rest, ctx, ind)
        if k == "return":
            if rest:
                raise Bad("statements after `return`")
            return self.st_return(s[1], ctx, ind)
        if k == "break":
            if ctx.brk is None:
                raise Bad("`break` outside a loop")
            return [pad + ctx.brk(ctx)]
        if k in ("expr", "tail"):
            e = s[1]
            if e[0] in BLOCKLIKE:
                if e[0] == "block":
                    raise Bad("nested block statement")
                return self.compound(e, rest, ctx, ind, s[2] if len(s) > 2 else None)
            if k == "tail":
                raise Bad("a block ends with a value in a position where none is expected: " + str(e)[:100])
            st, _tm, _t = self.expr(e, ctx)
            return self.render(st, pad) + self.stmts(rest, ctx, ind)
        raise Bad("statement outside the subset: " + str(s)[:120])

    def pat_text(self, pat):
        if pat[0] == "pbind":
            return vname(pat[1])
        if pat[0] == "pwild":
            return "_"
        if pat[0] == "ptuple":
            return "(" + ", ".join(self.pat_text(p) for p in pat[1]) + ")"
        raise Bad("pattern in `let` outside the subset: " + str(pat))

    def bind_pat(self, pat, ty, vars_):
        """declare the variables of a let pattern"""
        if pat[0] == "pbind":
            vars_[pat[1]] = ty
        elif pat[0] == "ptuple":
            if not (isinstance(ty, tuple) and ty[0] == "tup" and len(ty[1]) == len(pat[1])):
                raise Bad(f"tuple pattern against a value of type {ty}")
            for p, t in zip(pat[1], ty[1]):
                self.bind_pat(p, t, vars_)
        elif pat[0] != "pwild":
            raise Bad("pattern outside the subset: " + str(pat))

    def effectful(self, e):
        def eff(n):
            if n[0] in ("try", "return", "break", "assign"):
                return True
            if n[0] == "mcall":
                g = self.prog.method(n[2])
                return g is not None and bool(getattr(g, "muts", []))
            return False
        return contains(e, eff)

    def st_let(self, s, rest, ctx, ind):
        _, pat, ty, e, els = s
        pad = " " * ind
        want = rty(ty, self.fi.owner) if ty is not None else None
        if e is None:
            if pat[0] != "pbind":
                raise Bad("`let` without initialiser")
            return self.stmts([("letdecl", pat[1], want)] + rest, ctx, ind)
        if els is not None:
            if pat[0] != "pts" or pat[1] != "Some" or len(pat[2]) != 1 or pat[2][0][0] != "pbind" or not diverges(els):
                raise Bad("let-else outside the subset")
            st, tm, t = self.expr(e, ctx)
            if not (isinstance(t, tuple) and t[0] == "opt"):
                raise Bad("let-else on a non-Option")
            x = pat[2][0][1]
            lines = self.render(st, pad) + [f"{pad}match {tm} with", f"{pad}| none => ("]
            lines += self.stmts(els, ctx.child(done=None), ind + 4) + [f"{pad}  )", f"{pad}| some {vname(x)} =>"]
            c = ctx.child()
            c.vars[x] = t[1]
            c.uninit.discard(x)
            return lines + self.stmts(rest, c, ind)
        if e[0] in ("if", "match") and self.effectful(e):
            if pat[0] != "pbind":
                raise Bad("destructuring `let` of a branching value with effects")
            if want is None:
                want = self.guess_type(e, ctx)
            new = [("letdecl", pat[1], want), ("expr", assignify([("tail", e)], pat[1])[0][1])]
            return self.stmts(new + rest, ctx, ind)
        st, tm, t = self.raw(e, ctx, want, self.pat_text(pat) if e[0] == "try" else None)
        if isinstance(t, tuple) and t[0] == "pcall" and t[1]["kind"] == "res":
            # a Result kept as a value (matched later): only for a temporary receiver
            pc = t[1]
            if any(r is not None for r in pc["rebinds"]):
                raise Bad("a Result-returning call on a live parser is stored without `?`")
            tm = f"(Except.map (fun r => r.1) {tm})" if pc["rebinds"] and pc["T"] != "Unit" else tm
            t = ("res", pc["T"])
        elif isinstance(t, tuple) and t[0] == "pcall":
            st, tm, t = self.force(st, tm, t[1], ctx)
        elif isinstance(t, tuple) and t[0] == "pywrap":
            t = t[1]
        elif isinstance(t, tuple) and t[0] == "optelse":
            raise Bad("`ok_or_else` without `?`")
        if want is not None:
            if not self.compat(t, want):
                raise Bad(f"`let {self.pat_text(pat)}: {want}` initialised with a value of type {t}")
            t = want
        if t == "Num":
            t = "Int"
        if isinstance(t, tuple) and t[0] == "opt" and t[1] is None:
            raise Bad("cannot infer the type of a `None`")
        lines = self.render(st, pad)
        if tm != self.pat_text(pat):
            if pat[0] == "pbind":
                lines.append(f"{pad}let {vname(pat[1])} : {lty(t)} := {tm}")
            else:
                lines.append(f"{pad}match ({tm} : {lty(t)}) with")
                lines.append(f"{pad}| {self.pat_text(pat)} =>")
        c = ctx.child()
        self.bind_pat(pat, t, c.vars)
        for n in declared(pat):
            c.uninit.discard(n)
            c.ro.discard(n)
        return lines + self.stmts(rest, c, ind)

    def guess_type(self, e, ctx):
        tails = []

        def grab(block):
            if block and block[-1][0] == "tail":
                t = block[-1][1]
                if t[0] == "if":
                    grab(t[2])
                    grab(t[3] or [])
                elif t[0] == "match":
                    for _, b in t[2]:
                        grab(b)
                else:
                    tails.append(t)
        grab([("tail", e)])
        best = None
        for t in tails:
            try:
                save = (self.nfresh, self.used_fuel, self.used_ext)
                _st, _tm, ty = self.expr(t, ctx)
                self.nfresh = save[0]
                if ty != "Num":
                    return ty
                best = "Int"
            except Bad:
                continue
        if best is None:
            raise Bad("cannot infer the type of a branching `let`; add a type annotation")
        return best

    def field_ty(self, sname, f):
        for (fn, ft, _a) in self.prog.structs[sname]["fields"]:
            if fn == f:
                return rty(ft, sname)
        raise Bad(f"struct {sname} has no field {f}")

    def st_assign(self, s, rest, ctx, ind):
        _, lhs, op, rhs = s
        pad = " " * ind
        r = root(lhs)
        if r is None or r not in ctx.vars:
            raise Bad("assignment target outside the subset: " + str(lhs)[:80])
        if r in ctx.ro:
            raise Bad(f"{r} is assigned but is not mutable here")
        late = isinstance(ctx.vars[r], Late)
        if lhs[0] == "path":
            cur_t = self.vt(ctx, r) if not (late and ctx.vars[r].ty is None) else None
            target = None
        elif lhs[0] == "field" and lhs[1][0] == "path":
            st_t = self.vt(ctx, r)
            if not (isinstance(st_t, tuple) and st_t[0] == "struct"):
                raise Bad(f"field assignment on a value of type {st_t}")
            cur_t = self.field_ty(st_t[1], lhs[2])
            target = lhs[2]
        else:
            raise Bad("assignment target outside the subset: " + str(lhs)[:80])
        if rhs[0] in ("if", "match") and self.effectful(rhs):
            raise Bad("assignment of a branching value with effects")
        st, v, t = self.expr(rhs, ctx, cur_t)
        if op != "=":
            if r in ctx.uninit:
                raise Bad(f"{r} is updated before it is initialised")
            cur = vname(r) if target is None else f"{vname(r)}.{vname(target)}"
            o = op[0]
            if cur_t not in ("Nat", "Int") or t not in (cur_t, "Num"):
                raise Bad(f"compound assignment {op} on {cur_t} with {t}")
            if o in "+-*" or cur_t == "Nat":
                v = f"({cur} {o} {v})"
            else:
                v = f"(Int.{'tdiv' if o == '/' else 'tmod'} {cur} {v})"
            t = cur_t
        if cur_t is not None and not self.compat(t, cur_t):
            raise Bad(f"{r}{'.' + target if target else ''} : {cur_t} is assigned a value of type {t}")
        if late and target is None:
            lt = ctx.vars[r]
            if lt.ty is None and t != "Num":
                lt.ty = t
        lines = self.render(st, pad)
        c = ctx.child()
        if target is None:
            tt = cur_t if cur_t is not None else (t if t != "Num" else None)
            ann = f" : {lty(tt)}" if tt is not None and not (isinstance(tt, tuple) and tt[0] == "opt" and tt[1] is None) else ""
            lines.append(f"{pad}let {vname(r)}{ann} := {v}")
            c.uninit.discard(r)
        else:
            lines.append(f"{pad}let {vname(r)} := {{ {vname(r)} with {vname(target)} := {v} }}")
        return lines + self.stmts(rest, c, ind)

    def st_return(self, e, ctx, ind):
        pad = " " * ind
        fi = self.fi
        if e is None:
            return [pad + ctx.ret(ctx, None)]
        while e[0] == "paren":
            e = e[1]
        if e[0] == "call" and e[1][0] == "path" and e[1][1] in ("Ok", "Some") and len(e[2]) == 1 and \
                ((e[1][1] == "Ok" and fi.kind in ("res", "pyres")) or (e[1][1] == "Some" and fi.kind == "opt")):
            x = e[2][0]
            if x == ("tuple", []):
                if fi.T != "Unit":
                    raise Bad("`()` returned from a function with a result")
                return [pad + ctx.ret(ctx, None)]
            st, v, t = self.expr(x, ctx, fi.T)
            if isinstance(t, tuple) and t[0] == "pywrap":
                t = t[1]
            if not self.compat(t, fi.T):
                raise Bad(f"returned value of type {t}, expected {fi.T}")
            return self.render(st, pad) + [pad + ctx.ret(ctx, v)]
        if e[0] == "call" and e[1] == ("path", "Err") and len(e[2]) == 1:
            st, v, t = self.expr(e[2][0], ctx)
            if (fi.kind == "res" and t == ("struct", "ParseError")) or (fi.kind == "pyres" and t == "PyErr"):
                return self.render(st, pad) + [pad + self.FAIL(v)]
            if t == "ErrVal":
                return self.render(st, pad) + [f"{pad}.error {v}"]
            raise Bad(f"`Err` of a value of type {t}")
        if e == ("path", "None") and fi.kind == "opt":
            return [pad + "none"]
        if fi.kind == "pure":
            st, v, t = self.expr(e, ctx, fi.T)
            if not self.compat(t, fi.T):
                raise Bad(f"returned value of type {t}, expected {fi.T}")
            return self.render(st, pad) + [pad + ctx.ret(ctx, v)]
        if fi.kind == "res" and e[0] in ("mcall", "call"):
            # a call whose Result is the function's result: `f(..)` == `Ok(f(..)?)`
            st, v, t = self.raw(e, ctx)
            if isinstance(t, tuple) and t[0] == "pcall" and t[1]["kind"] == "res" and t[1]["T"] == fi.T:
                st, v, t = self.force(st, v, t[1], ctx, tried=True)
                return self.render(st, pad) + [pad + ctx.ret(ctx, v if fi.T != "Unit" else None)]
        if fi.kind == "pyres":
            st, v, t = self.raw(e, ctx)
            if t == ("pyres", fi.T):
                return self.render(st, pad) + [f"{pad}match {v} with", f"{pad}| .error e => .error (.fail e)",
                                               f"{pad}| .ok r => " + ctx.ret(ctx, "r")]
        raise Bad("returned value outside the subset: " + str(e)[:120])
