"""writes MANIFEST.json from the table below (kept in one place so it stays valid)"""
import json, os
ROOT = os.path.dirname(os.path.dirname(os.path.abspath(__file__)))
CLAIMED = {
 "C15": ("DESIGN.md#c15", "Lean theorems over the regenerated helpers/tables (every integer year) + Rust twins proved equal for years >= 1; correspondence model<->code on both backends; oracle = CPython calendar",
         "Lean 4 proof over regenerated source (Gen.*) + hand model tied by differential run"),
}
CLAIMED["C02"] = ("DESIGN.md#c02", "Lean theorems for every well-formed zone table (classification unique/repeated/skipped, resolution rules, raise_iff) over the model of Timezone.convert/DateTime.create; correspondence on every gap/overlap of every tzdata zone x 10 entry points x both backends; oracle classifies wall values from the tz table",
         "Lean 4 proof over zone-table model + differential correspondence run")
CLAIMED["C03"] = ("DESIGN.md#c03", "Lean theorems: add of fixed-length units = fromUtc(toUtc + delta) on every well-formed zone table (instant moves by exactly delta, subtract inverts); carry normalisation preserves the total; correspondence of DateTime.add/subtract/+/- timedelta against the model around every sampled transition, both backends; oracle = integer instant arithmetic on the tz table",
         "Lean 4 proof over zone-table + add_duration model, differential correspondence run")
CLAIMED["C01"] = ("DESIGN.md#c01", "Lean theorems for every well-formed zone table: conversion preserves the instant, fields/offset are the table's rendering, A->B->C = A->C, int_timestamp inverts from_timestamp, instance() keeps the instant; correspondence of in_tz/in_timezone/astimezone/convert/from_timestamp/instance (5 tzinfo kinds) against the model around transitions of every zone, both backends; oracle = integer instants from the tz table",
         "Lean 4 proof over zone-table model + differential correspondence run")
CLAIMED["C09"] = ("DESIGN.md#c09", "Lean theorems over the exact-microsecond model of Duration.__new__/components/in_*()/AbsoluteDuration (all integer argument tuples, unbounded); correspondence model<->code on the whole input range (the normalisation is integer arithmetic since the exactness fix); oracle = native timedelta + integer split",
         "Lean 4 proof of the integer model + hand model tied by differential run (float bridge stated as assumption)")
CLAIMED["C13"] = ("DESIGN.md#c13", "Lean theorems over a model of both duration parsers (Rust state machine, Python regex groups + per-group code) on token lists of arbitrary digit strings: exact value rounded to the nearest microsecond, backends agree on every well-formed string, order/fraction/size rejections, interval assembly over abstract add/sub; correspondence on ~10^5 strings x 2 backends; oracle = fractions.Fraction",
         "Lean 4 proof over parser models + differential correspondence run")
CLAIMED["C18"] = ("DESIGN.md#c18", "Locale dictionaries, templates and CLDR plural/ordinal lambdas of all 27 locales are regenerated into Lean on every run; theorems: plural/ordinal ranges for all n, totality of every (locale, unit, class, flag) lookup by kernel evaluation, format_diff/in_words/locale tokens total and brace-free for all inputs, unit selection, rounding, direction markers, within-one-unit; correspondence on ~5x10^5 ops x 2 backends; oracle re-states phrase/direction/count independently",
         "Lean 4 proof over regenerated locale data + hand model of DifferenceFormatter, differential correspondence run")
CLAIMED["C04"] = ("DESIGN.md#c04", "Lean theorems: add_duration = month-index arithmetic + min(day, daysInMonth) clamp (generated table) + linear rest; DateTime.add calendar branch = that spec followed by the C02 construction rules (unique/repeated/skipped targets); add(neg)=subtract; dt - d = dt + (-d) = subtract(components) for every Duration signature; Date variants; correspondence ~9x10^4 ops x 2 backends; oracle = independent month arithmetic + tz-table normalisation",
         "Lean 4 proof over add_duration/DateTime.add model + differential correspondence run")
CLAIMED["C05"] = ("DESIGN.md#c05", "Lean theorems: Interval length = instant(end) - instant(start) for same-object/same-name/different zones and either fold on every well-formed zone table; in_* truncate toward zero; swap negates; absolute = magnitude outside the wall-order region (known finding F12, with Lean counterexample); correspondence ~8x10^4 ops x 2 backends; oracle = integer instants from the tz table, exact below 2^33 s, 64 us tolerance beyond",
         "Lean 4 proof over Interval.__new__ model + differential correspondence run")
CLAIMED["C20"] = ("DESIGN.md#c20", "Lean theorems: Time.add/subtract = (t + delta) mod 86400e6 for all integer h/m/s/us of either sign (through the add_duration carry model), subtract inverts add, timedeltas with a day component rejected, diff signed/abs exact to the microsecond, closest/farthest by that distance; correspondence 6x10^5 ops x 2 backends; oracle = integer arithmetic mod 86400e6",
         "Lean 4 proof over time-of-day model + differential correspondence run")
CLAIMED["C16"] = ("DESIGN.md#c16", "Lean theorems on proleptic ordinals for every date and every n >= 1: next/previous nearest strictly later/earlier weekday, first_of/last_of/nth_of for month/quarter/year (the code's loops and monthcalendar lookups modelled literally), PendulumException iff the unit holds fewer than n; DateTime-level theorems through DTOps.create, partial where a constructed wall time is skipped (known finding F11 with Lean counterexamples); correspondence 1.5x10^5 ops x 2 backends over all zones; oracle = day-by-day scan with datetime.date",
         "Lean 4 proof over weekday-navigation model + differential correspondence run")
CLAIMED["C07"] = ("DESIGN.md#c07", "Lean theorems for both parser backends over a recursive-descent model on List Char: parse(render(v)) = v for calendar/ordinal/week dates (years 1..9999), times, date-times with fractions 1-9 digits and offsets up to +-23:59, impossible day/ordinal/week/weekday rejected, exact=True narrowest type, parse inverts isoformat/str/to_iso8601/rfc3339 (atom/w3c to the second); ordinal/week conversion proved through the regenerated helpers and tables; correspondence 6.8x10^5 strings x 2 backends (thorough: every date 1583..9999 x 6 forms); oracle = the value the string was rendered from",
         "Lean 4 proof over parser model + regenerated calendar helpers, differential correspondence run")
CLAIMED["C14"] = ("DESIGN.md#c14", "Lean theorems per type: observe(rebuild(reduce v)) = observe v and observe(deepcopy v) = observe v for DateTime (fields, tzinfo, fold when it matters, instant), Duration (all components incl. years/months/weeks, sign), Interval (endpoints, invert, absolute, length), Time, Date, Timezone, FixedTimezone, on a model of what __reduce_ex__/__deepcopy__/_getstate/__getinitargs__ carry; counterexamples for the pinned code; correspondence + oracle over pickle protocols 0..5, copy, deepcopy on every zone's overlaps/gaps and every subset of Duration arguments",
         "Lean 4 proof over reduce/rebuild model + differential correspondence run")
CLAIMED["C11"] = ("DESIGN.md#c11", "Lean theorems for the overridden methods (astimezone = inTz, replace = create, subtraction, comparison table: different tzinfo objects order by instant, same object by wall clock as datetime defines; partial outside the wall-order region) + differential testing of every stdlib accessor/operator against the native object with the same fields and tzinfo (reported as such); known findings F12b/F21/F22 where 'same as native' and 'instants' conflict",
         "Lean 4 proof over override models + differential run against native classes")
CLAIMED["C12"] = ("DESIGN.md#c12", "Lean theorems: the nine units are WallUnits (7 consistent week configurations); start_of <= x <= end_of as instants, same unit, the microsecond before/after lies in another unit, idempotence, zone kept, origin independence for every well-formed zone table when the boundary label is ordinary, repeated, or the first/last value of a gap (after the fix); full for fixed offsets, naive values and Dates; sub-day units partial (known finding F11b with Lean counterexamples); correspondence 2.5x10^5 ops x 2 backends; oracle = min/max of the unit's instant set computed from the tz table",
         "Lean 4 proof over zone-table + calendar model + differential correspondence run")
CLAIMED["C08"] = ("DESIGN.md#c08", "Token alternation order, rule/regex key sets, the 30 _TOKENS_RULES lambdas, named formats, to_*_string bodies and per-locale name/ordinal tables are regenerated into Lean; theorems: one per token family against the calendar definitions (YYYY..SSSSSS, Z/ZZ for every whole-minute offset, X/x, Q, DDDD, E/d, A), literal text verbatim, named formats = documented compositions, from_format(format(dt)) = dt on the class of separator-delimited numeric formats (partial outside it), defaults from now, mismatch -> ValueError only, locale tables injective / round-trip for all 27 locales; correspondence 8x10^4 ops x 2 backends; oracle = strftime + integer arithmetic",
         "Lean 4 proof over regenerated formatter tables (Gen.Format*) + hand model tied by differential run")
CLAIMED["C06"] = ("DESIGN.md#c06", "Lean theorems over models of both precise_diff backends (repaired) and add_duration, every year: canonical ranges, rebuild add(a, pd(a,b)) = b, reversed = negated, in_months, weeks/remaining_days, cross-zone pairs decomposed in UTC, backends agree on same-tzinfo pairs; correspondence 2.8x10^5 comparisons (direct helper calls + Interval), oracle = independent calendar add; known finding F23 (fold dropped for cross-zone endpoints in an overlap)",
         "Lean 4 proof over precise_diff/add_duration models + differential correspondence run")
CLAIMED["C19"] = ("DESIGN.md#c19", "Lean theorems about the range loop for any step/comparison: k-th value computed from the start (no drift), containment, strict monotonicity, stops at the last value not beyond the end, end yielded iff reachable, finite with an explicit bound, contains_iff; unconditional instantiation for naive values, partial for DST zones outside the known findings F15/F16 (Lean counterexamples); correspondence 8x10^4 comparisons, oracle = independent list of start.add(unit=k*n) cut by instants; F24 (range end at the representable limit)",
         "Lean 4 proof over range-loop model + differential correspondence run")
CLAIMED["C10"] = ("DESIGN.md#c10", "Lean theorems: every Duration operator (neg, abs, +, -, * int/float, / int/float, // int, // / % divmod by a duration or plain timedelta) equals the integer semantics of the native timedelta operator (floor division/modulo, round-half-even proved for divisors of either sign), neg/* int component-wise on years/months, result-type table, comparison/hash read the native slots; correspondence on the whole input range; oracle = the same operator on native timedeltas (former findings F17/F18 fixed)",
         "Lean 4 proof over exact-microsecond Duration model + differential correspondence run")
CLAIMED["C17"] = ("DESIGN.md#c17", "Lean theorems over a model of the whole parse() pipeline (parser.py + parsing/__init__.py on top of the C07/C13 parser models) with Python exception kinds explicit: for every string, every option combination and every dateutil that fails only with ValueError/ArithmeticError the result is one of the five types or a ValueError kind (both backends); strict=True never consults dateutil and accepts only what the ISO 8601 / interval / common parsers accept; durations are never computed from wrapped numbers (lifted from C13); backends agree on the well-formed families (partial, counterexamples F22/F23 in Lean); correspondence ~2x10^5 strings (all single edits of 47 seeds, sampled double edits, truncations, concatenations, Unicode digits, random, free text) x options x 2 backends (thorough 3x10^6+); oracle = exception class / result type, independent grammar for the strict gate, Fraction reference for values, cross-backend comparison",
         "Lean 4 proof over pipeline model + differential correspondence run (dateutil as a parameter fed from the real library)")
NA = {}
def main():
    props = [json.loads(l) for l in open(os.path.join(ROOT, "properties.jsonl"))]
    checks = []
    for p in props:
        pid = p["id"]
        if pid in CLAIMED:
            ref, text, tech = CLAIMED[pid]
            checks.append(dict(
                property_id=pid,
                quick_cmd=f"./check {pid} --tier quick",
                thorough_cmd=f"./check {pid} --tier thorough",
                evidence_file=f"evidence/{pid}.json",
                replay_cmd_template=f"./check {pid} --replay {{path}}",
                engine="lean4-proof+correspondence",
                level_claimed=dict(category="proof", text=text, design_ref=ref),
                level_note="Trusted: Lean kernel; axioms propext/Classical.choice/Quot.sound only; tools/gen_lean.py translator; the differential correspondence run for hand-modelled code; CPython datetime/zoneinfo/tzdata as oracle. See DESIGN.md section 5 and the evidence file's trusted_base.",
                technique=tech))
    na = [dict(property_id=p["id"], reason=NA.get(p["id"], "not yet built in this round; planned (DESIGN.md section 7)")) for p in props if p["id"] not in CLAIMED]
    m = dict(version=1, setup_cmd="./setup.sh",
             hooks=dict(guard="PENDULUM_VERIF", enable="none needed: every observation point is public API or an importable module function; no hook commits exist",
                        baseline_off_cmd="cd /repo && /venv/bin/python -m pytest -ra -q -p no:cacheprovider --timeout=900 --continue-on-collection-errors",
                        source_commits=[], add_only=True),
             engines=[dict(name="lean4-proof+correspondence", path="lean/ + harness/ + tools/gen_lean.py", serves_properties=sorted(CLAIMED),
                           kind_free_text="Lean 4 theorems about a model of pendulum; model regenerated from source where it is data/closed-form, otherwise hand-written and tied by a differential correspondence run against the real code (both helper backends)")],
             checks=checks, not_applicable=na,
             notes="Entry point ./check <id> [--tier quick|thorough] [--replay f]. VERIF_SEED and VERIF_TIER honoured. Exit 2 = infrastructure failure.")
    json.dump(m, open(os.path.join(ROOT, "MANIFEST.json"), "w"), indent=1)
    print("manifest:", len(checks), "checks,", len(na), "not_applicable")
if __name__ == "__main__":
    main()
