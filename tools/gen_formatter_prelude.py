"""Lean prelude emitted verbatim at the top of lean/Pendulum/Gen/Formatter.lean by tools/gen_formatter.py:
the vocabulary of the translation (Python built-ins on the value shapes the formatter handles, the parameter record `Ops`)."""

PRELUDE = r"""
/-! ### the exception monad (`Except String`: the exception class by name) -/

/-- evaluate `x`; what it raises propagates -/
def bindE {α β : Type} (x : Except String α) (f : α → Except String β) : Except String β :=
  match x with
  | .ok v => f v
  | .error e => .error e

/-- `for a in xs: body` threading the variables the body assigns -/
def pyFor {σ α : Type} : List α → σ → (σ → α → Except String σ) → Except String σ
  | [], s, _ => .ok s
  | a :: as, s, f => bindE (f s a) fun s' => pyFor as s' f

/-- `while cond: body` threading the variables the body assigns; `fuel` bounds the number of iterations
    (running out of it is reported as the exception "fuel") -/
def pyWhile {σ : Type} : Nat → σ → (σ → Bool) → (σ → Except String σ) → Except String σ
  | 0, _, _, _ => .error "fuel"
  | f+1, s, c, b => if c s then bindE (b s) fun s' => pyWhile f s' c b else .ok s

/-! ### dictionaries of the class (`Gen.Format.*` tables) -/

/-- `k in d` -/
def hasKey {β : Type} (tbl : List (String × β)) (k : String) : Bool := (tbl.find? (fun p => p.1 == k)).isSome

/-- `d[k]` -/
def dictGet {β : Type} (tbl : List (String × β)) (k : String) : Except String β :=
  match tbl.find? (fun p => p.1 == k) with
  | some p => .ok p.2
  | none => .error "KeyError"

/-- `self._TOKENS_RULES[token](dt)` -/
def py_call_rule (r : Option Str) : Except String Str :=
  match r with
  | some s => .ok s
  | none => .error "KeyError"

/-- `self._REGEX_TOKENS[token]`, flattened as gen_format does: `None` = [], a string = one candidate, a tuple = its members
    (so `not candidates` is emptiness and `if not isinstance(candidates, tuple): candidates = (candidates,)` is the identity) -/
def regexCandidates (token : String) : Except String (List Str) :=
  bindE (dictGet Gen.Format.regexTokens token) fun cs => .ok (cs.map String.toList)

/-! ### optional strings, integers -/

/-- truth value of `m.group(i)`: took part in the match and is not empty -/
def optTruthy : Option Str → Bool
  | some (_ :: _) => true
  | _ => false

/-- a group known to be a string -/
def optVal : Option Str → Str
  | some s => s
  | none => []

/-- `g or s` for an optional string `g` -/
def optOr (g : Option Str) (s : Str) : Str := if optTruthy g then optVal g else s

/-- truth value of an `Optional[str]` argument: not None and not empty -/
def optStringTruthy : Option String → Bool
  | some s => s != ""
  | none => false

/-- `x or y` for `x : Optional[str]` -/
def optStringOr (x : Option String) (y : String) : String :=
  match x with
  | some s => if s != "" then s else y
  | none => y

/-- `x or y` for `x : Optional[int]` (None and 0 are false) -/
def optIntOr (x : Option Int) (y : Int) : Int :=
  match x with
  | some v => if v != 0 then v else y
  | none => y

/-- an `Optional[int]` used where an integer is required (`None % 12`, `datetime(None, ..)`, …: TypeError) -/
def py_as_int (x : Option Int) : Except String Int :=
  match x with
  | some v => .ok v
  | none => .error "TypeError"

/-- `a - b` where `b` may be None -/
def py_sub_opt (a : Int) (b : Option Int) : Except String Int :=
  match b with
  | some v => .ok (a - v)
  | none => .error "TypeError"

def py_abs (x : Int) : Int := if x < 0 then -x else x

/-- lexicographic `a >= b` on tuples of integers of the same length -/
def py_tuple_ge : List Int → List Int → Bool
  | a :: as, b :: bs => if a > b then true else if a < b then false else py_tuple_ge as bs
  | _, _ => true

/-- lexicographic `a > b` -/
def py_tuple_gt (a b : List Int) : Bool := !(py_tuple_ge b a)

/-! ### strings -/

def py_startswith (s p : Str) : Bool := p.isPrefixOf s
def py_endswith (s p : Str) : Bool := p.reverse.isPrefixOf s.reverse

/-- `s[a:b]` for non-negative constants -/
def py_slice (s : Str) (a b : Nat) : Str := (s.drop a).take (b - a)

/-- `s[1:-1]` -/
def py_strip1 (s : Str) : Str := (s.drop 1).take (s.length - 2)

/-- `s.ljust(n, c)` -/
def py_ljust (s : Str) (n : Nat) (c : Char) : Str := s ++ List.replicate (n - s.length) c

/-- `a, b = s.split(sep)`: exactly one separator, else ValueError (too many / not enough values to unpack) -/
def py_split2 (sep : Char) (s : Str) : Except String (Str × Str) :=
  match s.dropWhile (· != sep) with
  | [] => .error "ValueError"
  | _ :: b => if b.contains sep then .error "ValueError" else .ok (s.takeWhile (· != sep), b)

/-- `s.split(sep)[1]` (IndexError when there is no separator) -/
def py_split_at1 (sep : Char) (s : Str) : Except String Str :=
  match s.dropWhile (· != sep) with
  | [] => .error "IndexError"
  | _ :: b => .ok (b.takeWhile (· != sep))

/-- `xs.index(v)` -/
def py_index (xs : List Str) (v : Str) : Except String Nat :=
  match xs.findIdx? (· == v) with
  | some i => .ok i
  | none => .error "ValueError"

/-- `xs[i]` -/
def py_getitem (xs : List Str) (i : Nat) : Except String Str :=
  match xs[i]? with
  | some s => .ok s
  | none => .error "IndexError"

/-! ### `offset.total_seconds() / 60`: a float that is an exact quotient of integers -/

structure PyQ where
  num : Int
  den : Int
deriving Repr, DecidableEq

/-- `q / n` -/
def PyQ.div (q : PyQ) (n : Int) : PyQ := ⟨q.num, q.den * n⟩
/-- `q // n` (floor, still a float) -/
def PyQ.floordiv (q : PyQ) (n : Int) : PyQ := ⟨q.num / (q.den * n), 1⟩
/-- `q >= 0` for a positive denominator -/
def PyQ.ge0 (q : PyQ) : Bool := decide (q.num ≥ 0)
def PyQ.gt0 (q : PyQ) : Bool := decide (q.num > 0)
def PyQ.lt0 (q : PyQ) : Bool := decide (q.num < 0)
def PyQ.le0 (q : PyQ) : Bool := decide (q.num ≤ 0)
/-- `int(q)`: truncation toward zero -/
def PyQ.trunc (q : PyQ) : Int := Int.tdiv q.num q.den

/-! ### the regular expression `_FORMAT_RE` applied to a format string -/

/-- one match of `_FORMAT_RE` in the format string: the text between the end of the previous match and its start
    (`fmt[position : m.start()]`) and its three groups (`\[([^\[]*)\]`, `\\(.)`, the token) -/
structure FMatch where
  before : Str
  g1 : Option Str
  g2 : Option Str
  g3 : Option String
deriving Repr, DecidableEq

/-- all the matches (`finditer` / `findall` / `sub`) and the text after the last one (`fmt[position:]`) -/
structure Segs where
  ms : List FMatch
  tail : Str
deriving Repr, DecidableEq

/-- `_FORMAT_RE.sub(callback, fmt)`: text between the matches copied, each match replaced, left to right -/
def py_re_sub_ms : List FMatch → (FMatch → Except String Str) → Str → Except String Str
  | [], _, tail => .ok tail
  | m :: ms, f, tail => bindE (f m) fun r => bindE (py_re_sub_ms ms f tail) fun rest => .ok (m.before ++ (r ++ rest))

def py_re_sub (segs : Segs) (f : FMatch → Except String Str) : Except String Str := py_re_sub_ms segs.ms f segs.tail

/-- a piece of the regular expression `Formatter.parse` assembles -/
inductive PatEl
  | esc (text : Str)                          -- `re.escape(text)`
  | raw (text : Str)                          -- text used as it is
  | group (name : String) (alts : List Str)    -- `(?P<name>alt1|alt2|…)`
deriving Repr, DecidableEq

/-- a piece of an f-string handed to `pendulum.parse` -/
inductive FPart
  | lit (s : String)
  | val (v : Option Int) (spec : String)
deriving Repr, DecidableEq

/-! ### values -/

/-- the `locale` argument of `Formatter.format`: None, a name, a loaded `Locale` -/
inductive LocArg (Λ : Type)
  | absent
  | name (s : String)
  | obj (l : Λ)

/-- `locale or other` -/
def LocArg.or {Λ : Type} (a b : LocArg Λ) : LocArg Λ :=
  match a with
  | .absent => b
  | .name s => if s != "" then a else b
  | .obj _ => a

def LocArg.ofOptName {Λ : Type} : Option String → LocArg Λ
  | some s => .name s
  | none => .absent

/-- what `_PARSE_TOKENS[token](value)` returns -/
inductive PTok (F : Type)
  | int (n : Int)
  | str (s : Str)
  | float (f : F)

def PTok.asInt {F : Type} : PTok F → Except String Int
  | .int n => .ok n
  | _ => .error "TypeError"

def PTok.asFloat {F : Type} : PTok F → Except String F
  | .float f => .ok f
  | _ => .error "TypeError"

/-- the `parsed` dictionary of `Formatter.parse` -/
structure PDict (F Tz : Type) where
  year : Option Int := none
  month : Option Int := none
  day : Option Int := none
  hour : Option Int := none
  minute : Option Int := none
  second : Option Int := none
  microsecond : Option Int := none
  tz : Option Tz := none
  quarter : Option Int := none
  day_of_week : Option Int := none
  day_of_year : Option Int := none
  meridiem : Option Str := none
  timestamp : Option F := none

/-- `parsed[unit] = v` for a key computed at run time (an integer-valued key) -/
def PDict.setInt {F Tz : Type} (p : PDict F Tz) (key : String) (v : Option Int) : Except String (PDict F Tz) :=
  if key == "year" then .ok { p with year := v }
  else if key == "month" then .ok { p with month := v }
  else if key == "day" then .ok { p with day := v }
  else if key == "hour" then .ok { p with hour := v }
  else if key == "minute" then .ok { p with minute := v }
  else if key == "second" then .ok { p with second := v }
  else if key == "microsecond" then .ok { p with microsecond := v }
  else if key == "quarter" then .ok { p with quarter := v }
  else if key == "day_of_week" then .ok { p with day_of_week := v }
  else if key == "day_of_year" then .ok { p with day_of_year := v }
  else .error "Unmodelled"

/-- the `validated` dictionary `_check_parsed` returns -/
structure VDict (Tz : Type) where
  year : Option Int
  month : Option Int
  day : Option Int
  hour : Option Int
  minute : Option Int
  second : Option Int
  microsecond : Option Int
  tz : Option Tz

/-- what `local_time` returns -/
structure Time7 where
  t0 : Int
  t1 : Int
  t2 : Int
  t3 : Int
  t4 : Int
  t5 : Int
  t6 : Int
deriving Repr, DecidableEq

/-- everything the translated code calls that is not formatter.py control flow. `Λ` = loaded locales, `F` = floats,
    `Tz` = timezones (and whatever is acceptable as the `tz` argument), `D` = DateTime objects -/
structure Ops (Λ F Tz D : Type) where
  /-- the matches of `_FORMAT_RE` in a format string -/
  FORMAT_RE : Str → Segs
  /-- `pendulum.get_locale()` -/
  get_locale : String
  /-- `Locale.load(x)` -/
  Locale_load : LocArg Λ → Except String Λ
  /-- `locale.get(path)[i]` -/
  locale_get_item : Λ → String → Int → Except String Str
  /-- `cast(int, locale.get(path))` (None when absent) -/
  locale_get_int : Λ → String → Option Int
  /-- `cast(str, locale.get(key))` -/
  locale_get_str : Λ → String → Except String Str
  /-- `locale.get(f"<prefix>{token}")` -/
  locale_get_prefixed : Λ → String → String → Option String
  /-- `locale.get(path).values()` -/
  locale_get_values : Λ → String → Except String (List Str)
  /-- `locale.translation(path)` (a string) -/
  locale_translation : Λ → String → Str
  /-- `tuple(locale.translation(<entry of _LOCALIZABLE_TOKENS>).values())`; the entry as gen_format encodes it -/
  locale_translation_values : Λ → String → Except String (List Str)
  /-- `locale.ordinalize(n)` -/
  locale_ordinalize : Λ → Int → Str
  /-- `locale.match_translation(key, value)` -/
  locale_match_translation : Λ → String → Str → Option Int
  /-- `s.lower()` -/
  str_lower : Str → Str
  /-- `int(s)` -/
  py_int : Str → Except String Int
  /-- `float(s)` (`false`), `float(s) / 1e3` (`true`) -/
  py_float : Bool → Str → F
  /-- `str(f)` -/
  float_str : F → Str
  /-- `f < 0` -/
  float_lt0 : F → Bool
  /-- `local_time(f, offset, microseconds)` -/
  local_time : F → Int → Int → Time7
  /-- `re.fullmatch(pattern, text)`: none = no match, else (group name, matched text) in `groupindex` order;
      `re.error` for a pattern that does not compile -/
  re_fullmatch : List PatEl → Str → Except String (Option (List (String × Str)))
  /-- `re.match(regex, text).group(i)` -/
  re_match_group : String → Nat → Str → Except String Str
  /-- `name in pendulum.timezones()` -/
  timezones_contains : Str → Bool
  /-- `pendulum.timezone(<int>)`, `pendulum.timezone(<str>)` -/
  timezone_of_offset : Int → Tz
  timezone_of_name : Str → Tz
  /-- `pendulum.datetime(y, m, d)` -/
  pendulum_datetime : Int → Int → Int → Except String D
  /-- `pendulum.parse(f"…")` -/
  pendulum_parse : List FPart → Except String D
  /-- `pendulum.now(tz=tz)` -/
  pendulum_now : Tz → Except String D
  /-- `pendulum.datetime(**parts)` -/
  pendulum_datetime_kw : VDict Tz → Except String D
  dt_year : D → Int
  dt_month : D → Int
  dt_day : D → Int
  dt_quarter : D → Int
  /-- `dt.start_of(unit)`, `dt.add(months=n)`, `dt.subtract(days=n)`, `dt.next(day_of_week)` -/
  dt_start_of : D → String → Except String D
  dt_add_months : D → Int → Except String D
  dt_subtract_days : D → Int → Except String D
  dt_next : D → Int → Except String D

/-- `_PARSE_TOKENS[token](value)`, the table as `Gen.Format.parseKind` -/
def py_parse_token {Λ F Tz D : Type} (ops : Ops Λ F Tz D) (kind : Option PKind) (value : Str) : Except String (PTok F) :=
  match kind with
  | none => .error "KeyError"
  | some (PKind.int mul add) => bindE (ops.py_int value) fun n => .ok (PTok.int (n * mul + add))
  | some PKind.str => .ok (PTok.str value)
  | some PKind.float => .ok (PTok.float (ops.py_float false value))
  | some PKind.floatMs => .ok (PTok.float (ops.py_float true value))
"""
