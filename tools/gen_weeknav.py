"""Translator: the weekday-navigation methods of src/pendulum/date.py (all) and src/pendulum/datetime.py (next, previous,
_first_of_month, _last_of_month)  ->  lean/Pendulum/Gen/WeekNav.lean

Translated (one Lean definition per Python method, namespace `Pendulum.Gen.WeekNav`):
  Date.replace, Date.set, Date.next, Date.previous (with their `while` loops),
  Date._first_of_month/_quarter/_year, _last_of_month/_quarter/_year, _nth_of_month/_quarter/_year (with their
  `for _ in range(...)` loops), and the dispatchers first_of / last_of / nth_of (unit list, ValueError,
  `getattr(self, f"_first_of_{unit}")` method table, the PendulumException of nth_of).
A Date value is the record `D` (year, month, day); a method runs on `self : D`; `self.__class__(y, m, d)` is `D.mk`.
What is not pendulum source is a field of the parameter record `Env`:
  weekday d            `d.weekday()` (Monday = 0)               monthrange1 y m   `calendar.monthrange(y, m)[1]`
  monthcalendar y m r c  `calendar.monthcalendar(y, m)[r][c]` (r < 0 counts from the end, as Python does)
  add_days d n         `d.add(days=n)` (helpers.add_duration, property C03)
Replaced by their arithmetic meaning (the source shape is checked, anything else is a fallback):
  property `quarter` = `math.ceil(self.month / 3)`  ->  `(month + 2) / 3`;
  `a.format(F) == b.format(F)` for F in "YYYY-MM", "%Y-%M"  ->  equal year and equal month (formatting is property C08).
A call `x.first_of("month", wd)` with a literal unit is resolved through the dispatcher's unit list to `_first_of_month`.
DateTime level (`dt_next`, `dt_previous`, `dt_first_of_month`, `dt_last_of_month`): the methods run on the parameter record
`Gen.StartOf.Inst` of tools/gen_startof.py and return a `DtReq` — `create (dt_boundary self y m d false)` for
`self._boundary(y, m, d)` or `add_days n` for `self.add(days=n)` / `self.subtract(days=n)` (n negated); the month calendar is
the field of `DtEnv`. Not translated: DateTime `_first_of_quarter/_year`, `_last_of_*`, `_nth_of_*` (they call methods on a
DateTime returned by `create`, i.e. on a zone-dependent value) — those stay with the hand model.
Uses the expression/statement translator of tools/gen_startof.py; anything outside its subset is a fallback
(prefix "WeekNav:").
"""
from __future__ import annotations

import ast

from tools import gen_startof as G
from tools.gen_startof import Bad, Bv, I, L, M, NONE, OI, RES, SELF, STRC, Sig, body_of

UNITS = ["month", "quarter", "year"]
FMT_OK = ("YYYY-MM", "%Y-%M")


class DV:           # a Date value: Lean term of type D
    def __init__(self, e):
        self.e = e


class MCAL:         # calendar.monthcalendar(y, m)
    def __init__(self, y, m):
        self.y, self.m = y, m


class FMT:          # x.format(F) for a Date value x
    def __init__(self, d, f):
        self.d, self.f = d, f


class OD:           # Option D (the result of a `_nth_of_*` method)
    def __init__(self, e):
        self.e = e


class _Cont(ast.stmt):
    _fields = ()

    def __init__(self, cb):
        super().__init__()
        self.cb = cb


RET_TY = {"D": "D", "OptD": "Option D", "DtReq": "DtReq"}
G.RET_TY.update(RET_TY)


class NoneMatch:
    """`if x is None: … return …` on an optional parameter -> `match x with | none => … | some x' => …`"""

    def block(self, stmts, env):
        if stmts and isinstance(stmts[0], ast.If):
            s, rest = stmts[0], stmts[1:]
            t = s.test
            if (isinstance(t, ast.Compare) and len(t.ops) == 1 and isinstance(t.ops[0], (ast.Is, ast.IsNot))
                    and isinstance(t.left, ast.Name) and isinstance(env.get(t.left.id), OI)
                    and isinstance(t.comparators[0], ast.Constant) and t.comparators[0].value is None
                    and self.simple([s], env) is None):
                nm = t.left.id
                n = self.fresh(nm)
                e_none, e_some = dict(env), dict(env)
                e_none[nm] = NONE
                e_some[nm] = I(n)
                b_none, b_some = (s.body, s.orelse) if isinstance(t.ops[0], ast.Is) else (s.orelse, s.body)
                tn = self.block(list(b_none) + ([] if G.terminates(b_none) else rest), e_none)
                ts = self.block(list(b_some) + ([] if G.terminates(b_some) else rest), e_some)
                return f"(match {env[nm].e} with | none => ({tn}) | some {n} => ({ts}))"
        return super().block(stmts, env)

    def mcal_lookup(self, x, env):
        if isinstance(x, ast.Subscript) and isinstance(x.value, ast.Subscript):
            m = self.ev(x.value.value, env)
            if isinstance(m, MCAL):
                r = x.value.slice
                rv = None
                if isinstance(r, ast.Constant) and isinstance(r.value, int):
                    rv = r.value
                elif isinstance(r, ast.UnaryOp) and isinstance(r.op, ast.USub) and isinstance(r.operand, ast.Constant) \
                        and isinstance(r.operand.value, int):
                    rv = -r.operand.value
                if rv is None:
                    raise Bad("monthcalendar row index is not an integer literal")
                c = self.i(x.slice, env)
                row = L(rv) if rv >= 0 else f"(-{L(-rv)})"
                return I(f"(E.monthcalendar {m.y} {m.m} {row} {c})")
        return None

    def substitutable(self, v):
        return isinstance(v, (MCAL, FMT))


class MD(NoneMatch, M):
    """DateTime-level methods: they run on `self : Gen.StartOf.Inst` (+ `E : DtEnv` for the month calendar) and return a
    `DtReq`: a `create(...)` request (through `_boundary`) or `self.add(days=n)`"""

    def ev(self, x, env):
        r = self.mcal_lookup(x, env)
        if r is not None:
            return r
        return super().ev(x, env)

    def call(self, x, env):
        fsrc = ast.unparse(x.func)
        kws = {k.arg: k.value for k in x.keywords}
        if fsrc == "calendar.monthcalendar" and len(x.args) == 2 and not kws:
            return MCAL(self.i(x.args[0], env), self.i(x.args[1], env))
        if isinstance(x.func, ast.Attribute) and x.func.attr in ("add", "subtract") and not x.args and set(kws) == {"days"} \
                and self.ev(x.func.value, env) is SELF:
            fn = self.cx.own.get("subtract")
            if x.func.attr == "subtract" and (fn is None or "days=-days" not in ast.unparse(body_of(fn)[-1])
                                              or not ast.unparse(body_of(fn)[-1]).startswith("return self.add(")):
                raise Bad("DateTime.subtract is no longer `self.add(..., days=-days, ...)`")
            k = self.i(kws["days"], env)
            return RES(f"(DtReq.add_days {k})" if x.func.attr == "add" else f"(DtReq.add_days (-{k}))", "DtReq")
        return super().call(x, env)


class MW(NoneMatch, M):
    BINDABLE = {"D": "V", "OptD": "O"}
    CTX_DECL, CTX_ARGS = "(E : Env)", "E"

    def as_dsh(self, v):
        return None

    def recv(self, v):
        if v is SELF:
            return "self"
        if isinstance(v, DV):
            return v.e
        return None

    def kind_of(self, v):
        if isinstance(v, I):
            return ("I", "Int", v.e)
        if isinstance(v, Bv):
            return ("B", "Bool", v.e)
        if isinstance(v, DV):
            return ("V", "D", v.e)
        if v is SELF:
            return ("V", "D", "self")
        if isinstance(v, OD):
            return ("O", "Option D", v.e)
        return None

    def make(self, tag, name):
        return {"I": I, "B": Bv, "V": DV, "O": OD}[tag](name)

    # ---- expressions
    def ev(self, x, env):
        r = self.mcal_lookup(x, env)
        if r is not None:
            return r
        if isinstance(x, ast.UnaryOp) and isinstance(x.op, ast.Not):
            v = self.ev(x.operand, env)
            if isinstance(v, OD):                      # `not dt` on a `Self | None` result: a Date object is truthy
                return Bv(f"({v.e}).isNone")
        return super().ev(x, env)

    def compare(self, x, env):
        if isinstance(x.ops[0], (ast.Eq, ast.NotEq)):
            a, b = self.ev(x.left, env), self.ev(x.comparators[0], env)
            if isinstance(a, FMT) and isinstance(b, FMT):
                if a.f != b.f or a.f not in FMT_OK:
                    raise Bad("comparison of formatted dates with an unsupported format")
                e = f"((decide ({a.d}.year = {b.d}.year)) && (decide ({a.d}.month = {b.d}.month)))"
                return Bv(e if isinstance(x.ops[0], ast.Eq) else f"(!{e})")
        return super().compare(x, env)

    def attribute(self, x, env):
        cx = self.cx
        src = ast.unparse(x)
        if src.startswith("pendulum."):
            raise Bad("module global " + src)
        v = self.ev(x.value, env)
        r = self.recv(v)
        a = x.attr
        if r is not None:
            if a in ("year", "month", "day"):
                return I(f"{r}.{a}")
            fn = cx.method(a)
            if fn is None or not cx.is_prop(fn):
                raise Bad("unsupported attribute ." + a)
            last = ast.unparse(body_of(fn)[-1]) if len(body_of(fn)) == 1 else ""
            if a == "day_of_week":
                if last != "return WeekDay(self.weekday())":
                    raise Bad("property day_of_week is no longer `WeekDay(self.weekday())`")
                return I(f"(E.weekday {r})")
            if a == "days_in_month":
                if last != "return calendar.monthrange(self.year, self.month)[1]":
                    raise Bad("days_in_month is no longer `calendar.monthrange(self.year, self.month)[1]`")
                return I(f"(E.monthrange1 {r}.year {r}.month)")
            if a == "quarter":
                if last != "return math.ceil(self.month / 3)":
                    raise Bad("property quarter is no longer `math.ceil(self.month / 3)`")
                return I(f"(({r}.month + {L(2)}) / {L(3)})")
        raise Bad("attribute outside the subset: " + src[:100])

    def call(self, x, env):
        cx = self.cx
        f = x.func
        fsrc = ast.unparse(f)
        kws = {k.arg: k.value for k in x.keywords}
        if fsrc == "calendar.monthcalendar" and len(x.args) == 2 and not kws:
            return MCAL(self.i(x.args[0], env), self.i(x.args[1], env))
        if fsrc == "self.__class__" and not kws and len(x.args) == 3:
            return DV("(D.mk " + " ".join(self.i(a, env) for a in x.args) + ")")
        if isinstance(f, ast.Attribute):
            v = self.ev(f.value, env)
            r = self.recv(v)
            name = f.attr
            if r is not None:
                if name in ("add", "subtract") and not x.args and set(kws) == {"days"}:
                    self.check_date_add_subtract()
                    k = self.i(kws["days"], env)
                    return DV(f"(E.add_days {r} {k})" if name == "add" else f"(E.add_days {r} (-{k}))")
                if name == "format" and len(x.args) == 1 and not kws:
                    s = self.ev(x.args[0], env)
                    if isinstance(s, STRC) and s.s in FMT_OK:
                        return FMT(r, s.s)
                    raise Bad("format(...) with an unsupported format string")
                if name in ("first_of", "last_of") and x.args:
                    u = self.ev(x.args[0], env)
                    if isinstance(u, STRC):
                        units, prefix, _ = dispatcher_shape(cx, name)
                        if u.s not in units:
                            raise Bad(f"{name}({u.s!r}) is outside the dispatcher's unit list")
                        inner = ast.Call(func=ast.Attribute(value=f.value, attr=prefix + u.s, ctx=ast.Load()),
                                         args=list(x.args[1:]), keywords=list(x.keywords))
                        # an argument left out takes the dispatcher's own default
                        dfn = cx.method(name)
                        dpos = dfn.args.args[2:]
                        ddef = [None] * (len(dpos) - len(dfn.args.defaults)) + list(dfn.args.defaults)
                        ddef = ddef[-len(dpos):] if dpos else []
                        have = {k.arg for k in inner.keywords}
                        for j, (pa, dv) in enumerate(zip(dpos, ddef)):
                            if j >= len(inner.args) and pa.arg not in have and dv is not None:
                                inner.keywords.append(ast.keyword(arg=pa.arg, value=dv))
                        if prefix + u.s not in cx.sigs:
                            raise Bad(f"{prefix + u.s} is not translated (yet)")
                        return self.call_method(prefix + u.s, inner, env, r)
                    raise Bad(f"{name}(...) with a computed unit")
                if name in cx.sigs:
                    return self.call_method(name, x, env, r)
                if cx.method(name) is not None:
                    raise Bad(f"call of .{name}(...), which is not translated")
        if fsrc == "cast" and len(x.args) == 2:
            return self.ev(x.args[1], env)
        if fsrc in ("int", "WeekDay") and len(x.args) == 1 and not kws:
            v = self.ev(x.args[0], env)
            if isinstance(v, (I, Bv)):
                return v
        raise Bad("call outside the subset: " + ast.unparse(x)[:120])

    def call_method(self, name, x, env, recv="self"):
        res = super().call_method(name, x, env)
        sig = self.cx.sigs[name]
        head = f"({sig.lean} self"
        assert res.e.startswith(head)
        e = f"({sig.lean} E" + (" fuel" if sig.fuel else "") + f" {recv}" + res.e[len(head) + (5 if sig.fuel else 0):]
        if not res.raises:
            if res.ty == "D":
                return DV(e)
            if res.ty == "OptD":
                return OD(e)
        return RES(e, res.ty, res.raises)

    # ---- statements
    def ret(self, v):
        if v is NONE:
            self.retkinds.add("None")
            return "\x00R|None|none\x01"
        if isinstance(v, DV) or v is SELF:
            self.retkinds.add("D")
            return f"\x00R|D|{self.recv(v)}\x01"
        if isinstance(v, OD):
            self.retkinds.add("OptD")
            return f"\x00R|OptD|{v.e}\x01"
        return super().ret(v)

    def other_stmt(self, s, rest, env):
        if isinstance(s, _Cont):
            return s.cb(env)
        if isinstance(s, ast.For) and not s.orelse:
            return self.forloop(s, rest, env)
        return None

    def forloop(self, s, rest, env):
        """`for _ in range(n): <assignments>` -> an auxiliary definition recursive over the iteration count"""
        it = s.iter
        if not (isinstance(it, ast.Call) and ast.unparse(it.func) == "range" and len(it.args) == 1 and not it.keywords
                and isinstance(s.target, ast.Name)):
            raise Bad("for loop that is not `for _ in range(n)`")
        if any(isinstance(n, ast.Name) and n.id == s.target.id for b in s.body for n in ast.walk(b)):
            raise Bad("for loop whose body reads the loop variable")
        count = self.i(it.args[0], env)
        ws = list(dict.fromkeys(G.assigned(s.body)))
        if not ws or any(w not in env for w in ws):
            raise Bad("for loop assigning a name unknown before the loop")
        ks = [self.kind_of(env[w]) for w in ws]
        if any(k is None for k in ks):
            raise Bad("for loop over an unsupported value")
        used = {n.id for b in s.body for n in ast.walk(b) if isinstance(n, ast.Name)}
        params = [(k, v) for k, v in env.items() if k in used and k not in ws and isinstance(v, (I, Bv))]
        lname = f"{self.cx.pre(self.fn.name)}_loop"
        if any(a[0] == lname for a in self.aux):
            lname += str(len(self.aux) + 1)
        inner = {k: (I(k) if isinstance(v, I) else Bv(k)) for k, v in params}
        for w, k in zip(ws, ks):
            inner[w] = self.make(k[0], w)
        sub = type(self)(self.cx, self.fn)
        pargs = "".join(f" {k}" for k, _ in params)
        fuel = " fuel" if self.fuel else ""

        def cont(e):
            return f"({lname} E{fuel}{pargs} n " + " ".join(sub.kind_of(e[w])[2] for w in ws) + ")"
        body = sub.block(list(s.body) + [_Cont(cont)], inner)
        tup = ws[0] if len(ws) == 1 else "(" + ", ".join(ws) + ")"
        rty = " × ".join(k[1] for k in ks)
        sty = " → ".join(k[1] for k in ks)
        if self.raises:
            base, rty_full = f".ok {tup}", f"Except String ({rty})" if len(ws) > 1 else f"Except String {rty}"
        else:
            base, rty_full = tup, rty
        body = G.finish(body, "D", False)
        pdecl = "".join(f" ({k} : {'Int' if isinstance(v, I) else 'Bool'})" for k, v in params)
        cur = ", ".join(ws)
        self.aux.append((lname,
                         f"/-- `for _ in range(...)` loop of `{self.fn.name}` -/\n"
                         f"def {lname} (E : Env){' (fuel : Nat)' if self.fuel else ''}{pdecl} : Nat → {sty} → {rty_full}\n"
                         f"  | 0, {cur} => {base}\n"
                         f"  | n+1, {cur} => {body}\n"))
        call = (f"({lname} E{fuel}" + "".join(f" {v.e}" for _, v in params) + f" (Int.toNat {count}) "
                + " ".join(k[2] for k in ks) + ")")
        env2 = dict(env)
        if len(ws) != 1:
            raise Bad("for loop carrying more than one name")
        n = self.fresh(ws[0])
        env2[ws[0]] = self.make(ks[0][0], n)
        if self.raises:
            return f"(match {call} with | .error err => \x00P|err\x01 | .ok {n} => ({self.block(rest, env2)}))"
        return f"let {n} : {ks[0][1]} := {call}; " + self.block(rest, env2)


def dispatcher_shape(cx, name):
    """(unit list, method prefix, exception) of first_of / last_of / nth_of"""
    fn = cx.method(name)
    if fn is None:
        raise Bad(name + " not found")
    body = body_of(fn)
    g = body[0] if body else None
    ok = (isinstance(g, ast.If) and not g.orelse and len(g.body) == 1 and isinstance(g.body[0], ast.Raise)
          and isinstance(g.body[0].exc, ast.Call) and isinstance(g.body[0].exc.func, ast.Name)
          and isinstance(g.test, ast.Compare) and len(g.test.ops) == 1 and isinstance(g.test.ops[0], ast.NotIn)
          and ast.unparse(g.test.left) == "unit" and isinstance(g.test.comparators[0], ast.List)
          and all(isinstance(e, ast.Constant) and isinstance(e.value, str) for e in g.test.comparators[0].elts))
    if not ok:
        raise Bad(f"{name} no longer starts with `if unit not in [<literals>]: raise E(...)`")
    units = [e.value for e in g.test.comparators[0].elts]
    prefix = "_" + name + "_"
    return units, prefix, g.body[0].exc.func.id


def translate_dispatch(cx, name):
    units, prefix, exc = dispatcher_shape(cx, name)
    fn = cx.method(name)
    body = body_of(fn)[1:]
    args = [a.arg for a in fn.args.args]
    nth = name == "nth_of"
    if args != (["self", "unit", "nth", "day_of_week"] if nth else ["self", "unit", "day_of_week"]):
        raise Bad(f"unexpected signature {args}")
    call_args = "nth, day_of_week" if nth else "day_of_week"
    getter = f"getattr(self, f'{prefix}{{unit}}')({call_args})"
    if not nth:
        ok = len(body) == 1 and isinstance(body[0], ast.Return) and \
            ast.unparse(body[0].value) in (f"cast('Self', {getter})", getter)
        if not ok:
            raise Bad(f"{name} is no longer `return {getter}`")
    else:
        ok = (len(body) == 3 and isinstance(body[0], ast.Assign) and ast.unparse(body[0].targets[0]) == "dt"
              and ast.unparse(body[0].value) in (f"cast('Self', {getter})", getter, f"cast(Optional['Self'], {getter})")
              and isinstance(body[1], ast.If) and ast.unparse(body[1].test) == "not dt" and not body[1].orelse
              and len(body[1].body) == 1 and isinstance(body[1].body[0], ast.Raise)
              and isinstance(body[1].body[0].exc, ast.Call) and isinstance(body[1].body[0].exc.func, ast.Name)
              and isinstance(body[2], ast.Return) and ast.unparse(body[2].value) == "dt")
        if not ok:
            raise Bad("nth_of is no longer `dt = getattr(...)(nth, day_of_week); if not dt: raise E(...); return dt`")
        exc2 = body[1].body[0].exc.func.id
    fuel = False
    arms = []
    for u in units:
        mname = prefix + u
        if cx.method(mname) is None:
            arms.append((u, '.error "AttributeError"'))
            continue
        sig = cx.sigs.get(mname)
        if sig is None:
            raise Bad(f"{mname} is reachable but was not translated")
        fuel = fuel or sig.fuel
        pk = [p[1] for p in sig.params]
        if nth:
            if pk not in (["I", "I"], ["I", "OI"]):
                raise Bad(f"{mname}: unexpected parameters")
            a = "nth " + ("day_of_week" if pk[1] == "I" else "(some day_of_week)")
        else:
            if pk != ["OI"]:
                raise Bad(f"{mname}: unexpected parameters")
            a = "day_of_week"
        call = f"{sig.lean} E" + (" fuel" if sig.fuel else "") + f" self {a}"
        if nth:
            if sig.ret != "OptD":
                raise Bad(f"{mname} does not return `Self | None`")
            if sig.raises:
                arms.append((u, f'(match {call} with | .error err => .error err | .ok none => .error "{exc2}" '
                                f'| .ok (some dt) => .ok dt)'))
            else:
                arms.append((u, f'(match {call} with | none => .error "{exc2}" | some dt => .ok dt)'))
        else:
            if sig.ret != "D":
                raise Bad(f"{mname} does not return a Date")
            arms.append((u, call if sig.raises else f".ok ({call})"))
    lean = cx.pre(name)
    ulist = "[" + ", ".join(f'"{u}"' for u in units) + "]"
    chain = "".join(f'if unit = "{u}" then {t} else\n  ' for u, t in arms) + '.error "AttributeError"'
    dow_ty = "Int" if nth else "Option Int"
    return (f"def {lean} (E : Env){' (fuel : Nat)' if fuel else ''} (self : D) (unit : String)"
            f"{' (nth : Int)' if nth else ''} (day_of_week : {dow_ty}) : Except String D :=\n"
            f'  if !(({ulist} : List String).contains unit) then .error "{exc}" else\n  {chain}\n')


def coerce(ty, ret, e):
    if ret == "OptD":
        if ty == "D":
            return f"(some {e})"
        if ty == "None":
            return "none"
    return None


def coerce_dt(ty, ret, e):
    if ret == "DtReq" and ty == "Call":
        return f"(DtReq.create {e})"
    return None


def translate_method(cx, name, mcls=None, ctx="(E : Env)", selfty="D"):
    mcls = mcls or MW
    fn = cx.method(name)
    if fn is None:
        raise Bad("method not found")
    params, env = [], {}
    args = fn.args
    if args.vararg or args.kwarg or args.kwonlyargs or args.posonlyargs:
        raise Bad("unsupported parameter list")
    pos = args.args[1:]
    defaults = [None] * (len(pos) - len(args.defaults)) + list(args.defaults)
    tested = {ast.unparse(n.left) for n in ast.walk(fn) if isinstance(n, ast.Compare) and len(n.ops) == 1
              and isinstance(n.ops[0], (ast.Is, ast.IsNot))}
    for a, d in zip(pos, defaults):
        kind = G.ann_kind(a.annotation)
        if kind == "I" and a.arg in tested:
            kind = "OI"                    # annotated `WeekDay` but tested against None (and called with None)
        if kind not in ("I", "OI", "B"):
            raise Bad(f"parameter {a.arg}: unsupported annotation")
        dflt = None
        if d is not None:
            if isinstance(d, ast.Constant) and d.value is None and kind == "OI":
                dflt = "none"
            elif isinstance(d, ast.Constant) and isinstance(d.value, bool) and kind == "B":
                dflt = "true" if d.value else "false"
            else:
                raise Bad(f"parameter {a.arg}: unsupported default")
        params.append((a.arg, kind, dflt))
        env[a.arg] = {"I": I, "OI": OI, "B": Bv}[kind](a.arg)
    m = mcls(cx, fn)
    term = m.block(body_of(fn), env)
    kinds = m.retkinds
    if mcls is MD:
        if not kinds or not kinds <= {"Call", "DtReq"}:
            raise Bad(f"mixed result kinds {sorted(kinds)}")
        ret = "DtReq"
        term = G.layout(G.finish(term, ret, m.raises, coerce_dt))
        lean = cx.pre(name)
        pdecl = "".join(f" ({p} : {G.LEAN_TY[k]})" for p, k, _ in params)
        rty = "Except String DtReq" if m.raises else "DtReq"
        cx.sigs[name] = Sig(lean, params, ret, m.raises, m.fuel)
        return f"def {lean} {ctx} (self : Inst){pdecl} : {rty} :=\n  {term}\n"
    if kinds == {"D"}:
        ret = "D"
    elif kinds and kinds <= {"D", "None", "OptD"}:
        ret = "OptD"
    else:
        raise Bad(f"mixed result kinds {sorted(kinds)}")
    term = G.layout(G.finish(term, ret, m.raises, coerce))
    lean = cx.pre(name)
    pdecl = "".join(f" ({p} : {G.LEAN_TY[k]})" for p, k, _ in params)
    rty = RET_TY[ret]
    if m.raises:
        rty = f"Except String ({rty})" if " " in rty else f"Except String {rty}"
    text = "".join(a[1] + "\n" for a in m.aux)
    text += f"def {lean} (E : Env){' (fuel : Nat)' if m.fuel else ''} (self : D){pdecl} : {rty} :=\n  {term}\n"
    cx.sigs[name] = Sig(lean, params, ret, m.raises, m.fuel)
    return text


HEADER = '''import Pendulum.Gen.StartOf
/-! GENERATED by tools/gen_weeknav.py from src/pendulum/date.py and src/pendulum/datetime.py — do not edit.

`D` is a Date (`self.__class__(y, m, d)` = `D.mk y m d`). `Env` holds what the translated code reads that is not
pendulum source:
  weekday d              `d.weekday()` (Monday = 0; `d.day_of_week`)
  monthrange1 y m        `calendar.monthrange(y, m)[1]`
  monthcalendar y m r c  `calendar.monthcalendar(y, m)[r][c]` (r < 0 counts from the end)
  add_days d n           `d.add(days=n)` (helpers.add_duration, property C03)
`quarter` is `(month + 2) / 3` (the source is `math.ceil(self.month / 3)`); `a.format("YYYY-MM") == b.format("YYYY-MM")`
is "equal year and equal month". `fuel` bounds the iterations of a `while` loop. -/
set_option linter.unusedVariables false
namespace Pendulum.Gen.WeekNav
open Pendulum.Gen.StartOf (Inst Call dt_boundary days_in_month)

structure D where
  year : Int
  month : Int
  day : Int
deriving DecidableEq, Repr

structure Env where
  weekday : D → Int
  monthrange1 : Int → Int → Int
  monthcalendar : Int → Int → Int → Int → Int
  add_days : D → Int → D

/-- DateTime level (`dt_*` below): the methods run on `self : Gen.StartOf.Inst` (see Gen/StartOf.lean) and hand over
    either a `create(...)` request built by `self._boundary(y, m, d)` or `self.add(days=n)` -/
inductive DtReq
  | create (c : Call)
  | add_days (n : Int)
deriving DecidableEq, Repr

structure DtEnv where
  monthcalendar : Int → Int → Int → Int → Int
'''

ORDER = ["replace", "set", "next", "previous",
         "_first_of_month", "_last_of_month", "_first_of_quarter", "_last_of_quarter", "_first_of_year", "_last_of_year",
         "_nth_of_month", "_nth_of_quarter", "_nth_of_year"]


DT_ORDER = ["next", "previous", "_first_of_month", "_last_of_month"]


def generate(changed, fallbacks, _write):
    from tools.gen_lean import GEN, py_constants
    out = [HEADER]

    def finish_file():
        out.append("end Pendulum.Gen.WeekNav\n")
        _write(GEN / "WeekNav.lean", "\n".join(out), changed)
        return 0

    try:
        trees, weekdays, imported = G.load_classes()
        allc = py_constants()
    except (OSError, SyntaxError, StopIteration) as e:
        fallbacks.append(f"WeekNav: cannot read the sources: {e}")
        return finish_file()

    def emit(label, thunk):
        try:
            out.append(thunk())
        except (Bad, StopIteration, KeyError, IndexError, AttributeError, AssertionError, OSError, SyntaxError) as e:
            fallbacks.append(f"WeekNav: cannot translate {label}: {e}")
            out.append(f"-- UNTRANSLATABLE {label}: {str(e)[:300]}\n")

    consts = {k: v for k, v in allc.items() if k in imported["Date"]}
    cx = G.Cx("date", trees, consts, weekdays, out)
    for name in ORDER:
        emit("Date." + name, lambda name=name: translate_method(cx, name))
    for name in ("first_of", "last_of", "nth_of"):
        emit("Date." + name, lambda name=name: translate_dispatch(cx, name))
    # DateTime level: next / previous / _first_of_month / _last_of_month (the methods that do not call a method on a
    # *created* DateTime; the quarter / year / nth variants chain through `create` and are left to the hand model)
    consts = {k: v for k, v in allc.items() if k in imported["DateTime"]}
    cxd = G.Cx("dt", trees, consts, weekdays, out)
    try:
        G.translate_prop(cxd, "days_in_month")
        G.translate_method(cxd, "_boundary")          # signature only; the definition lives in Gen/StartOf.lean
        for name in DT_ORDER:
            emit("DateTime." + name, lambda name=name: translate_method(cxd, name, MD, "(E : DtEnv)", "Inst"))
    except Bad as e:
        fallbacks.append(f"WeekNav: cannot translate the DateTime level: {e}")
    return finish_file()


if __name__ == "__main__":
    import json
    import sys
    from pathlib import Path
    sys.path.insert(0, str(Path(__file__).resolve().parent.parent))
    from tools.gen_lean import _write
    ch, fb = [], []
    generate(ch, fb, _write)
    print(json.dumps(dict(changed=ch, fallbacks=fb), indent=1))
