#!/bin/sh
# usage: tools/seed_test.sh <seed-name> <property> <worktree(ignored)> <outdir>
# Confirms a seeded change on a FRESH worktree of /repo HEAD with <outdir>/patch.diff applied:
# demo passes on /repo, fails on the changed tree, baseline suite unchanged, then runs the check against it.
name="$1"; prop="$2"; out="$4"
dst=/verif/seeded/$name; mkdir -p "$dst"
cp "$out/patch.diff" "$out/demo.py" "$dst/" 2>/dev/null
wt=/tmp/mut/apply_$name
git -C /repo worktree remove --force "$wt" 2>/dev/null; rm -rf "$wt"
git -C /repo worktree add -q --detach "$wt" HEAD || exit 2
if ! git -C "$wt" apply "$out/patch.diff"; then echo "PATCH DOES NOT APPLY"; git -C /repo worktree remove --force "$wt"; exit 2; fi
so=$(cd /verif && VERIF_REPO=$wt /venv/bin/python -c "from harness import common; print(common.build_rust())")
cp "$so" "$wt/src/pendulum/_pendulum.cpython-312-x86_64-linux-gnu.so"
echo "== demo on original"; PYTHONPATH=/repo/src /venv/bin/python "$out/demo.py" >/dev/null 2>&1; o=$?; echo "exit=$o"
echo "== demo on changed tree"; PYTHONPATH=$wt/src /venv/bin/python "$out/demo.py" 2>&1 | tail -n 2; PYTHONPATH=$wt/src /venv/bin/python "$out/demo.py" >/dev/null 2>&1; c=$?; echo "exit=$c"
echo "== baseline on changed tree"; b=$(/venv/bin/python /verif/tools/baseline_check.py "$wt" | tail -n 1); echo "$b"
echo "== check $prop against changed tree"
(cd /verif && VERIF_REPO=$wt ./check "$prop" > "$dst/check_output.txt" 2>&1); k=$?; tail -n 3 "$dst/check_output.txt"; echo "check exit=$k"
rp=$(grep -o 'replay=[^ ]*' "$dst/check_output.txt" | head -n 1 | cut -d= -f2)
[ -n "$rp" ] && cp "/verif/$rp" "$dst/replay.json"
echo "demo_original_exit=$o demo_changed_exit=$c baseline='$b' check_exit=$k" > "$dst/result.txt"
git -C /repo worktree remove --force "$wt"
