#!/bin/sh
# usage: tools/seed_test.sh <seed-name> <property> <worktree> <outdir>
# confirms a seeded change (demo passes on /repo, fails on the worktree, suite unchanged), runs the check against it
name="$1"; prop="$2"; wt="$3"; out="$4"
dst=/verif/seeded/$name; mkdir -p "$dst"
cp "$out/patch.diff" "$out/demo.py" "$dst/" 2>/dev/null
echo "== demo on original"; PYTHONPATH=/repo/src /venv/bin/python "$out/demo.py" >/dev/null 2>&1; o=$?; echo "exit=$o"
echo "== demo on changed tree"; PYTHONPATH=$wt/src /venv/bin/python "$out/demo.py" 2>&1 | tail -2; PYTHONPATH=$wt/src /venv/bin/python "$out/demo.py" >/dev/null 2>&1; c=$?; echo "exit=$c"
echo "== baseline on changed tree"; b=$(/venv/bin/python /verif/tools/baseline_check.py "$wt" | tail -1); echo "$b"
echo "== check $prop against changed tree"
VERIF_REPO=$wt ./check "$prop" > "$dst/check_output.txt" 2>&1; k=$?; tail -3 "$dst/check_output.txt"; echo "check exit=$k"
rp=$(grep -o 'replay=[^ ]*' "$dst/check_output.txt" | head -1 | cut -d= -f2)
[ -n "$rp" ] && cp "$rp" "$dst/replay.json"
echo "demo_original_exit=$o demo_changed_exit=$c baseline='$b' check_exit=$k" > "$dst/result.txt"
