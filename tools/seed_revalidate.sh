#!/bin/sh
# re-applies every seeded/<name>/patch.diff to a fresh worktree of /repo HEAD and re-runs the property's check against it
cd /verif || exit 2
head=$(git -C /repo log --format=%h -1)
for d in seeded/*/; do
  name=$(basename "$d"); pid=$(echo "$name" | cut -c1-3)
  wt=/tmp/mut/reval_$name
  git -C /repo worktree remove --force "$wt" 2>/dev/null; rm -rf "$wt"
  git -C /repo worktree add -q --detach "$wt" HEAD || continue
  if git -C "$wt" apply "/verif/$d/patch.diff" 2>/dev/null; then
    VERIF_REPO=$wt ./check "$pid" > /tmp/mut/reval_$name.log 2>&1; k=$?
    l=$(tail -n 1 /tmp/mut/reval_$name.log)
    echo "repo=$head applies=yes check_exit=$k $l" > "$d/revalidated.txt"
  else
    echo "repo=$head applies=no (the code the patch touches was changed by a later fix commit)" > "$d/revalidated.txt"
  fi
  echo "$name: $(cat $d/revalidated.txt | cut -c1-110)"
  git -C /repo worktree remove --force "$wt"; rm -f /tmp/mut/reval_$name.log
done
rm -rf /verif/evidence/replays
