#!/bin/sh
# re-applies every seeded/<name>/patch.diff to a fresh worktree of /repo HEAD and re-runs the property's check against it
# usage: [VERIF_DIR=<copy of /verif>] tools/seed_revalidate.sh [egrep pattern on the seed name]
#   (run it in a copy — tools/agent_ws.sh — when /verif itself is in use: the runs rewrite evidence/ and lean/Pendulum/Gen/)
V=${VERIF_DIR:-/verif}; pat=${1:-.}
cd "$V" || exit 2
head=$(git -C /repo log --format=%h -1)
for d in seeded/*/; do
  name=$(basename "$d"); pid=$(echo "$name" | cut -c1-3)
  echo "$name" | grep -Eq "$pat" || continue
  wt=/tmp/mut/reval_$name
  git -C /repo worktree remove --force "$wt" 2>/dev/null; rm -rf "$wt"
  git -C /repo worktree add -q --detach "$wt" HEAD || continue
  if git -C "$wt" apply "$V/$d/patch.diff" 2>/dev/null; then
    VERIF_REPO=$wt ./check "$pid" > /tmp/mut/reval_$name.log 2>&1; k=$?
    l=$(tail -n 1 /tmp/mut/reval_$name.log)
    echo "repo=$head applies=yes check_exit=$k $l" > "$d/revalidated.txt"
  else
    echo "repo=$head applies=no (the code the patch touches was changed by a later fix commit)" > "$d/revalidated.txt"
  fi
  echo "$name: $(cat $d/revalidated.txt | cut -c1-110)"
  git -C /repo worktree remove --force "$wt"; rm -f /tmp/mut/reval_$name.log
done
rm -rf "$V/evidence/replays"
