"""Translator: the logic of src/pendulum/time.py  ->  lean/Pendulum/Gen/TimeOfDay.lean

A typed symbolic translator (in the style of gen_convert.py) for the subset `Time`'s arithmetic is written in.
Translated (each a Lean definition in `Pendulum.Gen.TimeOfDay`):
  `Time.diff`                      -> `diff`      the two microsecond totals, the class chosen by `abs`, the `microseconds=`
                                                  argument handed to it: result `(Klass, microseconds)`
  `Time.closest` / `farthest`      -> `closest`, `farthest`   the rebuilt operands, the comparison of the two
                                                  `self.diff(x).total_seconds()`, the operand returned (its four fields)
  `Time.add` / `subtract`          -> `add`, `subtract`       which fields go into `DateTime.EPOCH.at(..)`, which keyword
                                                  arguments go to `.add(..)` / `.subtract(..)`, that `.time()` is taken
  `Time.add_timedelta` / `subtract_timedelta`  -> `add_timedelta`, `subtract_timedelta`   the day-component guard and
                                                  the arguments handed on to `add` / `subtract`
  `Time.__add__`, `__sub__`, `__rsub__`        -> `op_add`, `op_sub`, `op_rsub`   which branch is taken for which kind of
                                                  operand (`OKind`), aware operands, rebuilt operands, the delegate called
  from datetime.py (the carrier `Time.add` runs on): `DateTime.at` -> `dt_at` (the fields it sets), `DateTime.time` ->
  `dt_time`, `DateTime.subtract` -> `dt_subtract` (the negated keyword arguments handed to `DateTime.add`).
Parameters of the generated definitions (not translated):
  `dtAdd f years months weeks days hours minutes seconds microseconds` = the (hour, minute, second, microsecond) of
      `<DateTime.EPOCH with time-of-day fields f>.add(years=.., ..)`, or the name of the exception it raises;
  `total_seconds d` = the microsecond numerator of `klass(microseconds=us).total_seconds()` for `d = (klass, us)`
      (a float in the code: `<int µs> / 10^6`, strictly monotone on |µs| < 2^53).
Expressions: + - *, unary -, comparisons, and/or/not, int truthiness, `a if c else b`, the calls listed above.
Values: Int, Bool, a Time (four Int fields + aware flag), an operand of unknown kind (`OKind` + aware flag + time fields +
timedelta slots, narrowed by `isinstance` tests along each path), a timedelta (days, seconds, microseconds), a class
(`Duration` / `AbsoluteDuration`), a Duration `(klass, microseconds)`, float seconds (as µs numerator), `NotImplemented`.
Statements: assignment, `if`/`else` (the rest of the body is continued in both arms), `raise Exc(..)`, `return`,
`from pendulum.datetime import DateTime`.  A path on which no operand kind remains possible is emitted as
`.error "unreachable"`.  Anything else is reported as a fallback (prefix "TimeOfDay:").
"""
from __future__ import annotations

import ast
import os
from pathlib import Path

REPO = Path(os.environ.get("VERIF_REPO", "/repo"))
F4 = ["hour", "minute", "second", "microsecond"]
TD3 = ["days", "seconds", "microseconds"]
DT_ADD_ARGS = ["years", "months", "weeks", "days", "hours", "minutes", "seconds", "microseconds"]
TIME_ADD_ARGS = ["hours", "minutes", "seconds", "microseconds"]
KINDS = ["pendulumTime", "time", "timedelta", "other"]
TIMELIKE = frozenset(["pendulumTime", "time"])
CLASS_KINDS = {"Time": frozenset(["pendulumTime"]), "time": TIMELIKE, "datetime.time": TIMELIKE,
               "timedelta": frozenset(["timedelta"]), "datetime.timedelta": frozenset(["timedelta"])}
KLASSES = ("Duration", "AbsoluteDuration")


class Bad(Exception):
    pass


# ----------------------------------------------------------------------------- values

class I:                      # Int term
    def __init__(self, e):
        self.e = e


class Bv:                     # Bool term
    def __init__(self, e):
        self.e = e


class T:                      # a pendulum Time: four Int terms, aware flag (Bool term or None = not available)
    def __init__(self, f, aware=None):
        self.f, self.aware = list(f), aware


class Op:                     # operand parameter of unknown kind; S = kinds still possible on this path
    def __init__(self, name, S):
        self.name, self.S = name, frozenset(S)


class TDl:                    # timedelta slots
    def __init__(self, d, s, us):
        self.d, self.s, self.us = d, s, us


class K:                      # class value (Lean term of type Klass)
    def __init__(self, e):
        self.e = e


class D:                      # Duration built as klass(microseconds=us): Lean term of type Klass × Int
    def __init__(self, pair):
        self.pair = pair


class FS:                     # float seconds, as the µs numerator
    def __init__(self, e):
        self.e = e


class TE:                     # Except String F (a Time or the exception raised)
    def __init__(self, e):
        self.e = e


class RE:                     # Except String Res
    def __init__(self, e):
        self.e = e


class Carrier:                # DateTime.EPOCH.at(..): term of type F
    def __init__(self, e):
        self.e = e


class CarrierRes:             # Carrier.add(..) / .subtract(..): Except String F
    def __init__(self, e):
        self.e = e


class Marker:                 # NotImplemented, self.__class__, DateTime, DateTime.EPOCH
    def __init__(self, what):
        self.what = what


def L(v):
    return f"({v} : Int)"


def kind_test(name, kinds):
    ks = [k for k in KINDS if k in kinds]
    if not ks:
        return "false"
    return "(" + " || ".join(f"decide ({name}_kind = OKind.{k})" for k in ks) + ")"


# ----------------------------------------------------------------------------- translator

class Tr:
    def __init__(self, consts, sigs, done):
        self.consts, self.sigs, self.done, self.n = consts, sigs, done, 0

    def fresh(self, base):
        self.n += 1
        return f"{base}_{self.n}"

    # --- helpers
    def need(self, name):
        if name not in self.done:
            raise Bad(f"depends on `{name}`, which could not be translated")

    def as_time(self, v, what):
        if isinstance(v, T):
            return v
        if isinstance(v, Op):
            if not v.S <= TIMELIKE:
                raise Bad(f"{what}: operand `{v.name}` may be of kind {sorted(v.S - TIMELIKE)} here")
            return T([f"{v.name}_{f}" for f in F4], f"{v.name}_aware")
        raise Bad(f"{what}: not a time value")

    def as_td(self, v, what):
        if isinstance(v, TDl):
            return v
        if isinstance(v, Op):
            if not v.S <= {"timedelta"}:
                raise Bad(f"{what}: operand `{v.name}` may be of kind {sorted(v.S - {'timedelta'})} here")
            return TDl(*[f"{v.name}_{f}" for f in TD3])
        raise Bad(f"{what}: not a timedelta value")

    def as_bool(self, v, what):
        if isinstance(v, Bv):
            return v.e
        if isinstance(v, I):
            return f"(decide ({v.e} ≠ (0 : Int)))"          # truthiness of an int
        raise Bad(f"{what}: not a boolean")

    def bind_args(self, call, names, defaults, what):
        """positional + keyword arguments of `call` against a signature -> {name: ast | default}"""
        if len(call.args) > len(names):
            raise Bad(f"{what}: too many positional arguments")
        got = dict(zip(names, call.args))
        for kw in call.keywords:
            if kw.arg is None or kw.arg not in names or kw.arg in got:
                raise Bad(f"{what}: unexpected keyword {kw.arg}")
            got[kw.arg] = kw.value
        for n in names:
            if n not in got:
                if n not in defaults:
                    raise Bad(f"{what}: argument {n} missing")
                got[n] = defaults[n]
        return got

    def classes(self, x):
        xs = x.elts if isinstance(x, ast.Tuple) else [x]
        out = frozenset()
        for c in xs:
            k = CLASS_KINDS.get(ast.unparse(c))
            if k is None:
                raise Bad("isinstance against " + ast.unparse(c))
            out |= k
        return out

    def isinstance_parts(self, x, env):
        """`isinstance(<operand>, C)` -> (operand name in env, kinds of C) or None"""
        if (isinstance(x, ast.Call) and isinstance(x.func, ast.Name) and x.func.id == "isinstance" and len(x.args) == 2
                and not x.keywords and isinstance(x.args[0], ast.Name) and isinstance(env.get(x.args[0].id), Op)):
            return x.args[0].id, self.classes(x.args[1])
        return None

    # --- expressions
    def expr(self, x, env):
        if isinstance(x, ast.Constant):
            if isinstance(x.value, bool):
                return Bv("true" if x.value else "false")
            if isinstance(x.value, int):
                return I(L(x.value))
            raise Bad("constant " + repr(x.value))
        if isinstance(x, ast.Name):
            if x.id in env:
                return env[x.id]
            if x.id == "NotImplemented":
                return Marker("NotImplemented")
            if x.id in KLASSES:
                return K("Klass." + x.id)
            if x.id == "Time":
                return Marker("TimeClass")
            if isinstance(self.consts.get(x.id), int) and not isinstance(self.consts.get(x.id), bool):
                return I(L(self.consts[x.id]))
            raise Bad("unknown name " + x.id)
        if isinstance(x, ast.Attribute):
            if x.attr == "__class__" and isinstance(x.value, ast.Name) and x.value.id == "self":
                return Marker("TimeClass")
            v = self.expr(x.value, env)
            if isinstance(v, Marker) and v.what == "DateTime" and x.attr == "EPOCH":
                return Marker("EPOCH")
            if x.attr in F4 and isinstance(v, (T, Op)):
                return I(self.as_time(v, "." + x.attr).f[F4.index(x.attr)])
            if x.attr in TD3 and isinstance(v, (TDl, Op)):
                t = self.as_td(v, "." + x.attr)
                return I([t.d, t.s, t.us][TD3.index(x.attr)])
            raise Bad("attribute outside the subset: " + ast.unparse(x))
        if isinstance(x, ast.UnaryOp) and isinstance(x.op, ast.USub):
            v = self.expr(x.operand, env)
            if isinstance(v, I):
                return I(f"(-{v.e})")
        if isinstance(x, ast.UnaryOp) and isinstance(x.op, ast.Not):
            return Bv(f"(!{self.as_bool(self.expr(x.operand, env), 'not')})")
        if isinstance(x, ast.BinOp) and type(x.op) in (ast.Add, ast.Sub, ast.Mult):
            a, b = self.expr(x.left, env), self.expr(x.right, env)
            if isinstance(a, I) and isinstance(b, I):
                o = {ast.Add: "+", ast.Sub: "-", ast.Mult: "*"}[type(x.op)]
                return I(f"({a.e} {o} {b.e})")
        if isinstance(x, ast.BoolOp):
            op = " && " if isinstance(x.op, ast.And) else " || "
            return Bv("(" + op.join(self.as_bool(self.expr(v, env), "and/or") for v in x.values) + ")")
        if isinstance(x, ast.Compare) and len(x.ops) == 1:
            o, r = x.ops[0], x.comparators[0]
            if isinstance(o, (ast.Is, ast.IsNot)) and isinstance(r, ast.Constant) and r.value is None:
                if isinstance(x.left, ast.Attribute) and x.left.attr == "tzinfo":
                    t = self.as_time(self.expr(x.left.value, env), ".tzinfo")
                    if t.aware is None:
                        raise Bad("tzinfo of a value whose awareness is not a parameter: " + ast.unparse(x))
                    return Bv(t.aware if isinstance(o, ast.IsNot) else f"(!{t.aware})")
                raise Bad("`is None` test outside the subset: " + ast.unparse(x))
            a, b = self.expr(x.left, env), self.expr(r, env)
            sym = {ast.Eq: "=", ast.NotEq: "≠", ast.Lt: "<", ast.LtE: "≤", ast.Gt: ">", ast.GtE: "≥"}.get(type(o))
            if sym and ((isinstance(a, I) and isinstance(b, I)) or (isinstance(a, FS) and isinstance(b, FS))):
                return Bv(f"(decide ({a.e} {sym} {b.e}))")
        if isinstance(x, ast.IfExp):
            c = self.as_bool(self.expr(x.test, env), "conditional expression")
            a, b = self.expr(x.body, env), self.expr(x.orelse, env)
            for cls in (I, Bv, K, FS):
                if isinstance(a, cls) and isinstance(b, cls):
                    return cls(f"(if {c} then {a.e} else {b.e})")
            raise Bad("conditional expression over values outside the subset: " + ast.unparse(x)[:120])
        if isinstance(x, ast.Call):
            return self.call(x, env)
        raise Bad("expression outside the subset: " + ast.unparse(x)[:120])

    def ints(self, got, names, env, what):
        out = []
        for n in names:
            v = got[n]
            v = self.expr(v, env) if isinstance(v, ast.AST) else v
            if not isinstance(v, I):
                raise Bad(f"{what}: argument {n} is not an integer expression")
            out.append(v.e)
        return out

    def call(self, x, env):
        f = x.func
        ip = self.isinstance_parts(x, env)
        if ip is not None:
            return Bv(kind_test(env[ip[0]].name, ip[1]))
        fv = None
        if isinstance(f, (ast.Name, ast.Attribute)) and not (isinstance(f, ast.Attribute) and f.attr != "__class__"):
            fv = self.expr(f, env)
        # Time(h, m, s, us) / self.__class__(h, m, s, us)
        if isinstance(fv, Marker) and fv.what == "TimeClass":
            if x.keywords or len(x.args) != 4:
                raise Bad("Time constructor call outside the subset: " + ast.unparse(x)[:120])
            vs = [self.expr(a, env) for a in x.args]
            if not all(isinstance(v, I) for v in vs):
                raise Bad("Time constructor with non-integer arguments")
            return T([v.e for v in vs], "false")
        # klass(microseconds=e)
        if isinstance(fv, K):
            if x.args or [k.arg for k in x.keywords] != ["microseconds"]:
                raise Bad("Duration constructor call outside the subset: " + ast.unparse(x)[:120])
            v = self.expr(x.keywords[0].value, env)
            if not isinstance(v, I):
                raise Bad("Duration(microseconds=<non-integer>)")
            return D(f"({fv.e}, {v.e})")
        if not isinstance(f, ast.Attribute):
            raise Bad("call outside the subset: " + ast.unparse(x)[:120])
        recv, m = self.expr(f.value, env), f.attr
        what = f".{m}()"
        if isinstance(recv, (T, Op)) and m == "diff":
            self.need("diff")
            me = self.as_time(recv, what)
            names, defaults = self.sigs["diff"]
            got = self.bind_args(x, names, defaults, what)
            dt = got["dt"]
            if not isinstance(dt, ast.AST) or (isinstance(dt, ast.Constant) and dt.value is None):
                raise Bad("diff() against now")
            other = self.as_time(self.expr(dt, env), what)
            ab = got["abs"]
            ab = self.as_bool(self.expr(ab, env), what) if isinstance(ab, ast.AST) else ab
            return D("(diff " + " ".join(me.f + other.f) + f" {ab})")
        if isinstance(recv, D) and m == "total_seconds" and not x.args and not x.keywords:
            return FS(f"(total_seconds {recv.pair})")
        if isinstance(recv, T) and m in ("add", "subtract"):
            self.need(m)
            names, defaults = self.sigs[m]
            got = self.bind_args(x, names, defaults, what)
            return TE(f"({m} dtAdd " + " ".join(recv.f + self.ints(got, names, env, what)) + ")")
        if isinstance(recv, T) and m in ("add_timedelta", "subtract_timedelta"):
            self.need(m)
            if x.keywords or len(x.args) != 1:
                raise Bad(what + " arguments")
            t = self.as_td(self.expr(x.args[0], env), what)
            return TE(f"({m} dtAdd " + " ".join(recv.f + [t.d, t.s, t.us]) + ")")
        if isinstance(recv, T) and m == "__sub__":
            self.need("op_sub")
            if x.keywords or len(x.args) != 1 or recv.aware is None:
                raise Bad(what + " arguments")
            a = self.expr(x.args[0], env)
            if isinstance(a, T):
                if a.aware is None:
                    raise Bad(what + ": awareness of the argument unknown")
                rest = ["OKind.pendulumTime", a.aware] + a.f + [L(0)] * 3
            elif isinstance(a, Op):
                rest = [f"{a.name}_kind", f"{a.name}_aware"] + [f"{a.name}_{n}" for n in F4 + TD3]
            else:
                raise Bad(what + ": argument is not an operand")
            return RE("(op_sub dtAdd " + " ".join(recv.f + [recv.aware] + rest) + ")")
        if isinstance(recv, Marker) and recv.what == "EPOCH" and m == "at":
            self.need("dt_at")
            names, defaults = self.sigs["dt_at"]
            got = self.bind_args(x, names, defaults, what)
            return Carrier("(dt_at " + " ".join(self.ints(got, names, env, what)) + ")")
        if isinstance(recv, Carrier) and m in ("add", "subtract"):
            names, defaults = self.sigs["dt_add"]
            got = self.bind_args(x, names, defaults, what)
            args = " ".join(self.ints(got, names, env, what))
            if m == "add":
                return CarrierRes(f"(dtAdd {recv.e} {args})")
            self.need("dt_subtract")
            return CarrierRes(f"(dt_subtract dtAdd {recv.e} {args})")
        if isinstance(recv, CarrierRes) and m == "time" and not x.args and not x.keywords:
            self.need("dt_time")
            return TE(f"(Except.map (fun (c : F) => dt_time c.1 c.2.1 c.2.2.1 c.2.2.2) {recv.e})")
        raise Bad("call outside the subset: " + ast.unparse(x)[:120])

    # --- statements
    def ret(self, v, mode):
        if mode == "D" and isinstance(v, D):
            return v.pair
        if mode == "T" and isinstance(v, (T, Op)):
            return "(" + ", ".join(self.as_time(v, "return").f) + ")"
        if mode == "TE":
            if isinstance(v, TE):
                return v.e
            if isinstance(v, T):
                return "(.ok (" + ", ".join(v.f) + "))"
        if mode == "RE":
            if isinstance(v, RE):
                return v.e
            if isinstance(v, TE):
                return f"(Except.map Res.time {v.e})"
            if isinstance(v, T):
                return "(.ok (Res.time (" + ", ".join(v.f) + ")))"
            if isinstance(v, D):
                return f"(.ok (Res.duration {v.pair}))"
            if isinstance(v, Marker) and v.what == "NotImplemented":
                return "(.ok Res.notImplemented)"
        raise Bad(f"return value of the wrong kind for this method ({type(v).__name__})")

    def block(self, stmts, env, mode):
        if not stmts:
            raise Bad("control falls off the end")
        s, rest = stmts[0], stmts[1:]
        if isinstance(s, ast.Expr) and isinstance(s.value, ast.Constant):
            return self.block(rest, env, mode)
        if isinstance(s, ast.ImportFrom):
            if s.module == "pendulum.datetime" and [(a.name, a.asname) for a in s.names] == [("DateTime", None)]:
                env = dict(env)
                env["DateTime"] = Marker("DateTime")
                return self.block(rest, env, mode)
            raise Bad("import outside the subset: " + ast.unparse(s))
        if isinstance(s, ast.AnnAssign) and s.value is not None:
            s = ast.Assign(targets=[s.target], value=s.value)
        if isinstance(s, ast.Assign) and len(s.targets) == 1 and isinstance(s.targets[0], ast.Name):
            name = s.targets[0].id
            v = self.expr(s.value, env)
            env = dict(env)
            if isinstance(v, T):
                ns = [self.fresh(f"{name}_{f}") for f in F4]
                env[name] = T(ns, v.aware)
                lets = "".join(f"let {n} : Int := {e}\n  " for n, e in zip(ns, v.f))
                return lets + self.block(rest, env, mode)
            for cls, ty, mk, get in ((I, "Int", I, "e"), (Bv, "Bool", Bv, "e"), (K, "Klass", K, "e"), (D, "Klass × Int", D, "pair"),
                                     (FS, "Int", FS, "e"), (TE, "Except String F", TE, "e"), (RE, "Except String Res", RE, "e")):
                if isinstance(v, cls):
                    n = self.fresh(name)
                    env[name] = mk(n)
                    return f"let {n} : {ty} := {getattr(v, get)}\n  " + self.block(rest, env, mode)
            if isinstance(v, (Op, TDl, Marker, Carrier)):
                env[name] = v                                  # alias, no binding needed
                return self.block(rest, env, mode)
            raise Bad("assignment of a value outside the subset: " + ast.unparse(s)[:120])
        if isinstance(s, ast.If):
            test, neg = s.test, False
            if isinstance(test, ast.UnaryOp) and isinstance(test.op, ast.Not):
                test, neg = test.operand, True
            ip = self.isinstance_parts(test, env)
            env_t = env_f = env
            if ip is not None:
                o = env[ip[0]]
                c = kind_test(o.name, ip[1])
                yes, no = dict(env), dict(env)
                yes[ip[0]] = Op(o.name, o.S & ip[1])
                no[ip[0]] = Op(o.name, o.S - ip[1])
                env_t, env_f = (no, yes) if neg else (yes, no)
                if neg:
                    c = f"(!{c})"
            else:
                c = self.as_bool(self.expr(s.test, env), "if")
            th = self.branch(list(s.body) + rest, env_t, mode)
            el = self.branch(list(s.orelse) + rest, env_f, mode)
            return f"if {c} then\n  ({th})\n  else\n  ({el})"
        if isinstance(s, ast.Raise) and isinstance(s.exc, ast.Call) and isinstance(s.exc.func, ast.Name):
            if mode not in ("TE", "RE"):
                raise Bad("raise in a method translated without an error channel")
            return f'(.error "{s.exc.func.id}")'
        if isinstance(s, ast.Return) and s.value is not None:
            return self.ret(self.expr(s.value, env), mode)
        raise Bad("statement outside the subset: " + ast.unparse(s)[:120])

    def branch(self, stmts, env, mode):
        if any(isinstance(v, Op) and not v.S for v in env.values()):
            if mode not in ("TE", "RE"):
                raise Bad("dead branch in a method translated without an error channel")
            return '.error "unreachable"'                      # no operand kind reaches this path
        return self.block(stmts, env, mode)


# ----------------------------------------------------------------------------- driver

PRELUDE = """/-- (hour, minute, second, microsecond) -/
abbrev F := Int × Int × Int × Int
/-- the class a `Duration` is built with -/
inductive Klass | Duration | AbsoluteDuration
deriving DecidableEq, Repr
/-- kind of the other operand of an operator: a `pendulum.Time`, a plain `datetime.time`, a `datetime.timedelta`
    (or subclass), anything else.  `isinstance(x, time)` holds for the first two, `isinstance(x, Time)` for the first. -/
inductive OKind | pendulumTime | time | timedelta | other
deriving DecidableEq, Repr
/-- what an operator returns: a Time (its fields), a Duration `klass(microseconds=..)`, or `NotImplemented` -/
inductive Res | time (f : F) | duration (d : Klass × Int) | notImplemented
deriving DecidableEq, Repr
/-- `dtAdd f years months weeks days hours minutes seconds microseconds`: time-of-day fields of
    `<DateTime.EPOCH at fields f>.add(years=.., .., microseconds=..)`, or the exception it raises -/
abbrev DtAdd := F → Int → Int → Int → Int → Int → Int → Int → Int → Except String F
"""


def _sig(fn, skip_self=True):
    a = fn.args
    if a.vararg or a.kwarg or a.kwonlyargs or a.posonlyargs:
        raise Bad(f"{fn.name}: signature outside the subset")
    names = [x.arg for x in a.args]
    if skip_self:
        if not names or names[0] != "self":
            raise Bad(f"{fn.name}: first parameter is not self")
        names = names[1:]
    defaults = dict(zip(names[len(names) - len(a.defaults):], a.defaults)) if a.defaults else {}
    return names, defaults


def _body(fn):
    return [s for s in fn.body if not (isinstance(s, ast.Expr) and isinstance(s.value, ast.Constant))]


def _int_defaults(tr, names, defaults, what, must_be=None):
    out = {}
    for n in names:
        if n in defaults:
            v = tr.expr(defaults[n], {})
            if not isinstance(v, I):
                raise Bad(f"{what}: default of {n} is not an integer")
            if must_be is not None and v.e != L(must_be):
                raise Bad(f"{what}: default of {n} is {v.e}")
            out[n] = v
    return out


def _params(names):
    return " ".join(f"({n} : Int)" for n in names)


def _time_params(prefix, aware=False):
    s = "(" + " ".join(f"{prefix}_{f}" for f in F4) + " : Int)"
    return s + (f" ({prefix}_aware : Bool)" if aware else "")


def _op_params(prefix):
    return (f"({prefix}_kind : OKind) ({prefix}_aware : Bool) (" + " ".join(f"{prefix}_{f}" for f in F4 + TD3) + " : Int)")


def generate(changed, fallbacks, _write):
    from tools.gen_lean import GEN, py_constants
    out = ["/-! GENERATED by tools/gen_time.py from src/pendulum/time.py (and `DateTime.at/time/subtract` of datetime.py) — do not edit.",
           "`dtAdd` stands for `DateTime.add` on the carrier `DateTime.EPOCH.at(..)` (time-of-day fields of the result, or the",
           "exception name); `total_seconds (klass, us)` for the µs numerator of `klass(microseconds=us).total_seconds()`. -/",
           "set_option linter.unusedVariables false", "namespace Pendulum.Gen.TimeOfDay", "", PRELUDE]
    done: set = set()
    sigs: dict = {}

    def finish():
        out.extend(["end Pendulum.Gen.TimeOfDay", ""])
        _write(GEN / "TimeOfDay.lean", "\n".join(out), changed)
        return 0

    def emit(label, key, thunk):
        try:
            out.append(thunk())
            done.add(key)
        except (Bad, StopIteration, KeyError, IndexError, AttributeError, OSError, SyntaxError) as e:
            fallbacks.append(f"TimeOfDay: cannot translate {label}: {e}")
            out.append(f"-- UNTRANSLATABLE {label}: {str(e)[:300]}\n")

    try:
        consts = py_constants()
        ttree = ast.parse((REPO / "src/pendulum/time.py").read_text())
        dtree = ast.parse((REPO / "src/pendulum/datetime.py").read_text())
    except (OSError, SyntaxError) as e:
        fallbacks.append(f"TimeOfDay: cannot read time.py/datetime.py: {e}")
        return finish()

    def methods(tree, cname):
        cls = next((n for n in tree.body if isinstance(n, ast.ClassDef) and n.name == cname), None)
        if cls is None:
            return None, {}
        fns = {}
        for n in cls.body:
            if isinstance(n, ast.FunctionDef) and not any(ast.unparse(d) == "overload" for d in n.decorator_list):
                fns.setdefault(n.name, n)
        return cls, fns

    tcls, tf = methods(ttree, "Time")
    _, df = methods(dtree, "DateTime")
    if tcls is None:
        fallbacks.append("TimeOfDay: class Time not found in time.py")
        return finish()
    bases = [ast.unparse(b) for b in tcls.bases]
    if "time" not in bases and "datetime.time" not in bases:
        fallbacks.append(f"TimeOfDay: Time no longer derives from datetime.time (bases {bases})")
    imported = {a.asname or a.name: (n.module, a.name) for n in ttree.body if isinstance(n, ast.ImportFrom) for a in n.names}
    for nm, src in (("time", ("datetime", "time")), ("timedelta", ("datetime", "timedelta")),
                    ("Duration", ("pendulum.duration", "Duration")), ("AbsoluteDuration", ("pendulum.duration", "AbsoluteDuration"))):
        if imported.get(nm) != src:
            fallbacks.append(f"TimeOfDay: the name `{nm}` in time.py is no longer {src[0]}.{src[1]}")
    tr = Tr(consts, sigs, done)

    # ---- the carrier (datetime.py)
    def t_dt_at():
        fn = df["at"]
        names, defaults = _sig(fn)
        if names != F4:
            raise Bad(f"signature {names}")
        sigs["dt_at"] = (names, _int_defaults(tr, names, defaults, "DateTime.at"))
        b = _body(fn)
        r = b[0].value if len(b) == 1 and isinstance(b[0], ast.Return) else None
        if not (isinstance(r, ast.Call) and ast.unparse(r.func) == "self.set" and not r.args):
            raise Bad("body is no longer `return self.set(<keywords>)`")
        kw = {k.arg: k.value for k in r.keywords}
        if sorted(kw) != sorted(F4):
            raise Bad(f"set() keywords {sorted(kw)}")
        env = {n: I(n) for n in names}
        vals = tr.ints(kw, F4, env, "DateTime.at")
        return ("/-- `DateTime.at(hour, minute, second, microsecond)`: the time-of-day fields it sets (`self.set(hour=.., ..)`) -/\n"
                f"def dt_at {_params(F4)} : F :=\n  (" + ", ".join(vals) + ")\n")

    def t_dt_time():
        fn = df["time"]
        names, _ = _sig(fn)
        b = _body(fn)
        if names or not (len(b) == 1 and isinstance(b[0], ast.Return)):
            raise Bad("new shape")
        v = tr.expr(b[0].value, {"self": T(F4, None)})
        if not isinstance(v, T):
            raise Bad("does not return a Time")
        return ("/-- `DateTime.time()`: the fields of the `Time` it builds from the carrier's own -/\n"
                f"def dt_time {_params(F4)} : F :=\n  (" + ", ".join(v.f) + ")\n")

    def t_dt_add_sig():
        names, defaults = _sig(df["add"])
        if names != DT_ADD_ARGS:
            raise Bad(f"signature {names}")
        d = _int_defaults(tr, names, defaults, "DateTime.add", must_be=0)
        if sorted(d) != sorted(names):
            raise Bad("a parameter without default")
        sigs["dt_add"] = (names, d)
        return "-- DateTime.add(" + ", ".join(n + "=0" for n in names) + ")\n"

    def t_dt_subtract():
        fn = df["subtract"]
        names, defaults = _sig(fn)
        if (names, sorted(defaults)) != (DT_ADD_ARGS, sorted(DT_ADD_ARGS)):
            raise Bad(f"signature {names}")
        _int_defaults(tr, names, defaults, "DateTime.subtract", must_be=0)
        tr.need("dt_add")
        b = _body(fn)
        r = b[0].value if len(b) == 1 and isinstance(b[0], ast.Return) else None
        if not (isinstance(r, ast.Call) and ast.unparse(r.func) == "self.add"):
            raise Bad("body is no longer `return self.add(..)`")
        env = {n: I(n) for n in names}
        anames, adef = sigs["dt_add"]
        got = tr.bind_args(r, anames, adef, "DateTime.subtract -> add")
        return ("/-- `DateTime.subtract(..)`: the arguments it hands to `self.add` -/\n"
                f"def dt_subtract (dtAdd : DtAdd) (f : F) {_params(names)} : Except String F :=\n  dtAdd f "
                + " ".join(tr.ints(got, anames, env, "DateTime.subtract")) + "\n")

    # ---- time.py
    def t_diff():
        fn = tf["diff"]
        names, defaults = _sig(fn)
        if names != ["dt", "abs"]:
            raise Bad(f"signature {names}")
        if "abs" in defaults:
            v = tr.expr(defaults["abs"], {})
            if not isinstance(v, Bv):
                raise Bad("default of abs is not a bool")
            defaults = dict(defaults)
            defaults["abs"] = v.e
        sigs["diff"] = (names, defaults)
        b = _body(fn)
        first = b[0]
        if not (isinstance(first, ast.If) and ast.unparse(first.test) == "dt is None" and first.orelse
                and ast.unparse(first.body[0]) == "dt = pendulum.now().time()" and len(first.body) == 1):
            raise Bad("no longer starts with `if dt is None: dt = pendulum.now().time() else: ...`")
        env = {"self": T([f"self_{f}" for f in F4]), "dt": T([f"dt_{f}" for f in F4]), "abs": Bv("abs")}
        term = Tr(consts, sigs, done).block(list(first.orelse) + b[1:], env, "D")
        return ("/-- `self.diff(dt, abs)` for `dt` not None: (class of the result, its `microseconds=` argument) -/\n"
                f"def diff {_time_params('self')} {_time_params('dt')} (abs : Bool) : Klass × Int :=\n  {term}\n")

    def t_pick(name):
        def go():
            fn = tf[name]
            names, defaults = _sig(fn)
            if names != ["dt1", "dt2"] or defaults:
                raise Bad(f"signature {names}")
            env = {"self": T([f"self_{f}" for f in F4]), "dt1": T([f"dt1_{f}" for f in F4]), "dt2": T([f"dt2_{f}" for f in F4])}
            term = Tr(consts, sigs, done).block(_body(fn), env, "T")
            return (f"/-- `self.{name}(dt1, dt2)`: the fields of the operand returned -/\n"
                    f"def {name} (total_seconds : Klass × Int → Int) {_time_params('self')} {_time_params('dt1')} {_time_params('dt2')} : F :=\n  {term}\n")
        return go

    def t_addsub(name):
        def go():
            fn = tf[name]
            names, defaults = _sig(fn)
            if names != TIME_ADD_ARGS:
                raise Bad(f"signature {names}")
            sigs[name] = (names, _int_defaults(tr, names, defaults, "Time." + name))
            env = {"self": T([f"self_{f}" for f in F4])}
            env.update({n: I(n) for n in names})
            term = Tr(consts, sigs, done).block(_body(fn), env, "TE")
            return (f"/-- `self.{name}(hours, minutes, seconds, microseconds)` -/\n"
                    f"def {name} (dtAdd : DtAdd) {_time_params('self')} {_params(names)} : Except String F :=\n  {term}\n")
        return go

    def t_td(name):
        def go():
            fn = tf[name]
            names, defaults = _sig(fn)
            if names != ["delta"] or defaults:
                raise Bad(f"signature {names}")
            env = {"self": T([f"self_{f}" for f in F4]), "delta": TDl(*[f"delta_{f}" for f in TD3])}
            term = Tr(consts, sigs, done).block(_body(fn), env, "TE")
            return (f"/-- `self.{name}(delta)` for a timedelta with slots (days, seconds, microseconds) -/\n"
                    f"def {name} (dtAdd : DtAdd) {_time_params('self')} {_params(['delta_' + f for f in TD3])} : Except String F :=\n  {term}\n")
        return go

    def t_op(name, lname):
        def go():
            fn = tf[name]
            names, defaults = _sig(fn)
            if names != ["other"] or defaults:
                raise Bad(f"signature {names}")
            env = {"self": T([f"self_{f}" for f in F4], "self_aware"), "other": Op("other", KINDS)}
            term = Tr(consts, sigs, done).block(_body(fn), env, "RE")
            return (f"/-- `self.{name}(other)`; `other` is described by its kind, awareness, time fields and timedelta slots -/\n"
                    f"def {lname} (dtAdd : DtAdd) {_time_params('self', True)} {_op_params('other')} : Except String Res :=\n  {term}\n")
        return go

    emit("DateTime.at", "dt_at", t_dt_at)
    emit("DateTime.time", "dt_time", t_dt_time)
    emit("DateTime.add (signature)", "dt_add", t_dt_add_sig)
    emit("DateTime.subtract", "dt_subtract", t_dt_subtract)
    emit("Time.diff", "diff", t_diff)
    emit("Time.closest", "closest", t_pick("closest"))
    emit("Time.farthest", "farthest", t_pick("farthest"))
    emit("Time.add", "add", t_addsub("add"))
    emit("Time.subtract", "subtract", t_addsub("subtract"))
    emit("Time.add_timedelta", "add_timedelta", t_td("add_timedelta"))
    emit("Time.subtract_timedelta", "subtract_timedelta", t_td("subtract_timedelta"))
    emit("Time.__add__", "op_add", t_op("__add__", "op_add"))
    emit("Time.__sub__", "op_sub", t_op("__sub__", "op_sub"))
    emit("Time.__rsub__", "op_rsub", t_op("__rsub__", "op_rsub"))
    return finish()
