"""Translator: `Timezone.convert` (naive branch) of src/pendulum/tz/timezone.py  ->  lean/Pendulum/Gen/Convert.lean

A small typed symbolic translator for the statement/expression subset that function uses:
  values:  DT = naive datetime (wall, fold)   TD = timedelta (Int)   B = bool
  `self.utcoffset(x)` -> `woff x.fold x.wall`        (the zone is a parameter `woff : Bool -> Int -> Int`)
  `x.replace(fold=0|1)`, `x.replace(tzinfo=self)`, `x.fold`, `cast(T, e)`, `a if c else b`,
  TD comparison / subtraction, `x + td` (native datetime + timedelta: fold reset to 0), `and`, `not`,
  statements: assignment, if/elif/else, `raise Exc(dt)`, `return e`.
The generated definition returns `Except String (Int × Bool)`: the exception class name, or (wall, fold).
Anything outside the subset is reported as a fallback (prefix "Convert:").
"""
from __future__ import annotations

import ast
import os
from pathlib import Path

REPO = Path(os.environ.get("VERIF_REPO", "/repo"))


class Bad(Exception):
    pass


class DT:
    def __init__(self, w, f):
        self.w, self.f = w, f


class TD:
    def __init__(self, e):
        self.e = e


class B:
    def __init__(self, e):
        self.e = e


class Tr:
    def __init__(self):
        self.n = 0

    def fresh(self, base):
        self.n += 1
        return f"{base}_{self.n}"

    def expr(self, x, env):
        if isinstance(x, ast.Call) and isinstance(x.func, ast.Name) and x.func.id == "cast":
            return self.expr(x.args[1], env)
        if isinstance(x, ast.Name):
            if x.id not in env:
                raise Bad("unknown name " + x.id)
            return env[x.id]
        if isinstance(x, ast.Attribute) and x.attr == "fold":
            v = self.expr(x.value, env)
            if isinstance(v, DT):
                return B(v.f)
        if isinstance(x, ast.Call) and isinstance(x.func, ast.Attribute):
            f = x.func
            if f.attr == "utcoffset" and isinstance(f.value, ast.Name) and f.value.id == "self" and len(x.args) == 1:
                v = self.expr(x.args[0], env)
                if isinstance(v, DT):
                    return TD(f"(woff {v.f} {v.w})")
            if f.attr == "replace" and not x.args and len(x.keywords) == 1:
                v = self.expr(f.value, env)
                kw = x.keywords[0]
                if isinstance(v, DT) and kw.arg == "fold" and isinstance(kw.value, ast.Constant) and kw.value.value in (0, 1):
                    return DT(v.w, "true" if kw.value.value else "false")
                if isinstance(v, DT) and kw.arg == "tzinfo" and isinstance(kw.value, ast.Name) and kw.value.id == "self":
                    return v
        if isinstance(x, ast.IfExp):
            c = self.expr(x.test, env)
            a = self.expr(x.body, env)
            b = self.expr(x.orelse, env)
            if isinstance(c, B) and type(a) is type(b):
                if isinstance(a, TD):
                    return TD(f"(if {c.e} then {a.e} else {b.e})")
                if isinstance(a, B):
                    return B(f"(if {c.e} then {a.e} else {b.e})")
                if isinstance(a, DT):
                    return DT(f"(if {c.e} then {a.w} else {b.w})", f"(if {c.e} then {a.f} else {b.f})")
        if isinstance(x, ast.BinOp):
            a, b = self.expr(x.left, env), self.expr(x.right, env)
            if isinstance(x.op, ast.Sub) and isinstance(a, TD) and isinstance(b, TD):
                return TD(f"({a.e} - {b.e})")
            if isinstance(x.op, ast.Add) and isinstance(a, TD) and isinstance(b, TD):
                return TD(f"({a.e} + {b.e})")
            if isinstance(x.op, ast.Add) and isinstance(a, DT) and isinstance(b, TD):
                return DT(f"({a.w} + {b.e})", "false")      # datetime + timedelta: new value, fold = 0
            if isinstance(x.op, ast.Sub) and isinstance(a, DT) and isinstance(b, TD):
                return DT(f"({a.w} - {b.e})", "false")
        if isinstance(x, ast.Compare) and len(x.ops) == 1:
            a, b = self.expr(x.left, env), self.expr(x.comparators[0], env)
            o = {ast.Gt: ">", ast.Lt: "<", ast.GtE: "≥", ast.LtE: "≤", ast.Eq: "=", ast.NotEq: "≠"}.get(type(x.ops[0]))
            if o and isinstance(a, TD) and isinstance(b, TD):
                return B(f"(decide ({a.e} {o} {b.e}))")
        if isinstance(x, ast.BoolOp):
            vs = [self.expr(v, env) for v in x.values]
            if all(isinstance(v, B) for v in vs):
                op = " && " if isinstance(x.op, ast.And) else " || "
                return B("(" + op.join(v.e for v in vs) + ")")
        if isinstance(x, ast.UnaryOp) and isinstance(x.op, ast.Not):
            v = self.expr(x.operand, env)
            if isinstance(v, B):
                return B(f"(!{v.e})")
        raise Bad("expression outside the subset: " + ast.dump(x)[:200])

    def block(self, stmts, env):
        if not stmts:
            raise Bad("control falls off the end")
        s, rest = stmts[0], stmts[1:]
        if isinstance(s, ast.Expr) and isinstance(s.value, ast.Constant):
            return self.block(rest, env)
        if isinstance(s, ast.Assign) and len(s.targets) == 1 and isinstance(s.targets[0], ast.Name):
            v = self.expr(s.value, env)
            name = s.targets[0].id
            env = dict(env)
            if isinstance(v, DT):
                w, f = self.fresh(name + "_w"), self.fresh(name + "_fold")
                env[name] = DT(w, f)
                return f"let {w} : Int := {v.w}\n  let {f} : Bool := {v.f}\n  {self.block(rest, env)}"
            n = self.fresh(name)
            if isinstance(v, TD):
                env[name] = TD(n)
                return f"let {n} : Int := {v.e}\n  {self.block(rest, env)}"
            env[name] = B(n)
            return f"let {n} : Bool := {v.e}\n  {self.block(rest, env)}"
        if isinstance(s, ast.If):
            c = self.expr(s.test, env)
            if not isinstance(c, B):
                raise Bad("non-boolean condition")
            th = self.block(list(s.body) + rest, env)
            el = self.block(list(s.orelse) + rest, env)
            return f"if {c.e} then\n  {th}\n  else\n  {el}"
        if isinstance(s, ast.Raise) and isinstance(s.exc, ast.Call) and isinstance(s.exc.func, ast.Name):
            return f'(.error "{s.exc.func.id}")'
        if isinstance(s, ast.Return):
            v = self.expr(s.value, env)
            if isinstance(v, DT):
                return f"(.ok ({v.w}, {v.f}))"
        raise Bad("statement outside the subset: " + ast.dump(s)[:200])


def generate(changed, fallbacks, _write):
    from tools.gen_lean import GEN
    out = ["/-! GENERATED by tools/gen_convert.py from src/pendulum/tz/timezone.py (`Timezone.convert`, naive branch) — do not edit.",
           "`woff fold wall` stands for `self.utcoffset(<naive value with that wall time and fold>)`. -/",
           "namespace Pendulum.Gen", ""]
    try:
        tree = ast.parse((REPO / "src/pendulum/tz/timezone.py").read_text())
        cls = next(n for n in tree.body if isinstance(n, ast.ClassDef) and n.name == "Timezone")
        fn = next(n for n in cls.body if isinstance(n, ast.FunctionDef) and n.name == "convert")
        args = [a.arg for a in fn.args.args]
        if args != ["self", "dt", "raise_on_unknown_times"]:
            raise Bad(f"unexpected signature {args}")
        body = [s for s in fn.body if not (isinstance(s, ast.Expr) and isinstance(s.value, ast.Constant))]
        first = body[0]
        ok = (isinstance(first, ast.If) and isinstance(first.test, ast.Compare) and isinstance(first.test.ops[0], ast.Is)
              and ast.unparse(first.test.left) == "dt.tzinfo" and ast.unparse(first.test.comparators[0]) == "None")
        if not ok:
            raise Bad("convert() no longer starts with `if dt.tzinfo is None:`")
        env = {"dt": DT("w", "fold"), "raise_on_unknown_times": B("raise_")}
        term = Tr().block(list(first.body), env)
        out.append("def convertNaive (woff : Bool → Int → Int) (w : Int) (fold raise_ : Bool) : Except String (Int × Bool) :=\n  " + term + "\n")
        aware = ast.unparse(body[1]) if len(body) > 1 else ""
        out.append(f"/-- the aware branch of `convert`, verbatim: `{aware}` -/")
        out.append(f'def convertAwareSource : String := "{aware}"')
    except (Bad, StopIteration, OSError, SyntaxError) as e:
        fallbacks.append(f"Convert: cannot translate Timezone.convert: {e}")
        out.append(f"-- UNTRANSLATABLE: {str(e)[:300]}")
    out += ["", "end Pendulum.Gen", ""]
    _write(GEN / "Convert.lean", "\n".join(out), changed)
    return 0
