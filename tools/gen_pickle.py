"""Translator: the hand-written state hooks of every pendulum value class  ->  lean/Pendulum/Gen/Pickle.lean

Source (all under src/pendulum/):
  datetime.py   DateTime: `__getnewargs__`, `_getstate`, `__reduce__`, `__reduce_ex__`, `__deepcopy__`; module helper
                `_rebuild_with_fold` (and any other module-level function a hook names as its callable)
  date.py       Date (defines no hook: everything is inherited from `datetime.date`)
  time.py       Time: `__getnewargs__`, `_get_state`, `__reduce__`, `__reduce_ex__`
  duration.py   Duration: `__reduce__`, `__deepcopy__`; AbsoluteDuration: `__deepcopy__` (+ the inherited `__reduce__`)
  interval.py   Interval: `_getstate`, `__reduce__`, `__reduce_ex__`, `__deepcopy__`
  tz/timezone.py  FixedTimezone: `__getinitargs__` (everything else inherited from `datetime.tzinfo`); Timezone (no hook:
                `zoneinfo.ZoneInfo.__reduce__`)
  tz/__init__.py  `fixed_timezone` (interning through `_tz_cache`)

What is generated, per class C (namespace `Pendulum.Gen.Pickle`):
  * `C.hooks`      which class of C's MRO defines each pickle/copy hook (HOOKS below) — so that a hook that appears,
                   disappears or moves changes a generated definition;
  * `C.slots`      the instance attributes assigned in `__new__` / `__init__` (source order);
  * `C.<hook>`     one definition per hook defined in (or inherited from a pendulum class by) C, statement by statement:
                   state tuples are `List (Val ρ)` in source order, reduce values are `Red ρ` (callable as an enum value,
                   arguments, state items), `__deepcopy__` / `__copy__` are `Copied ρ` (the constructor call with its
                   positional and keyword arguments, each sub-value marked shared `.ref` or deep-copied `.deep`);
  * `C.pickle_reduce / C.copy / C.deepcopy`   what the pickle / copy machinery obtains from an instance, resolved through
                   the MRO exactly as `copyreg` / `copy` do (own hook, else `object.__reduce_ex__` -> `__reduce__`, else the
                   stdlib base's, which is a field `std_reduce` of the instance record);
  * module helpers named as callables (`_rebuild_with_fold`): `List (Val ρ) -> Option (Call ρ)`, the call they make;
  * `fixed_timezone`: (object returned, cache afterwards) as a function of the cache before.
Parameters (not pendulum source): the instance's fields / private slots / `__dict__` (record `<C>Inst`), properties that are
other methods (`Duration.hours`, `DateTime.tz`, ...), the stdlib base's `__reduce__` (`std_reduce`), `type(self) is <C>`
(`exact_class`).
Subset: tuple displays with `*` splices, `(callable, args[, state..])`, `(*<reduce value>, item)`, `<reduce value> + (item,)`,
`self.<state method>(..)`, `super().__reduce__()`, `self.__class__(..)` / `Name(..)` with keywords and `**self._signature`,
`copy.copy(self)`, `copy.deepcopy(x[, memo])`, `{k: v for k, v in self.__dict__.items() if <test on k>}`, integer / boolean
expressions, conditional expressions; statements: (tuple) assignment, unpacking of a state tuple, `if` (merged when both arms
only assign), `return`, local `from .. import ..`.
Pinned verbatim (object-level code outside the subset): `FixedTimezone.__init__`, `FixedTimezone.__repr__`, `Timezone.__new__`,
`Timezone.__repr__`.
Anything outside the subset is a fallback (prefix "Pickle:").
"""
from __future__ import annotations

import ast
import os
from pathlib import Path

REPO = Path(os.environ.get("VERIF_REPO", "/repo"))

HOOKS = ["__getnewargs__", "__getnewargs_ex__", "__getinitargs__", "__getstate__", "__setstate__", "__reduce__",
         "__reduce_ex__", "__copy__", "__deepcopy__"]
STATE_METHODS = {"_getstate": "L", "_get_state": "L", "__getinitargs__": "L", "__getnewargs__": "L",
                 "__reduce__": "R", "__reduce_ex__": "R", "__copy__": "C", "__deepcopy__": "C"}

# stdlib classes: (bases, hooks they define) — CPython 3.12
STD = {
    "datetime": (["date"], {"__reduce__", "__reduce_ex__"}),
    "date": (["object"], {"__reduce__"}),
    "time": (["object"], {"__reduce__", "__reduce_ex__"}),
    "timedelta": (["object"], {"__reduce__"}),
    "tzinfo": (["object"], {"__reduce__"}),
    "ZoneInfo": (["tzinfo"], {"__reduce__"}),
    "object": ([], {"__reduce__", "__reduce_ex__", "__getstate__"}),
}
IGNORED_BASES = {"ABC", "Generic"}

FILES = {
    "DateTime": "datetime.py", "Date": "date.py", "Time": "time.py", "Duration": "duration.py",
    "AbsoluteDuration": "duration.py", "Interval": "interval.py", "FixedTimezone": "tz/timezone.py",
    "Timezone": "tz/timezone.py", "PendulumTimezone": "tz/timezone.py", "FormattableMixin": "mixins/default.py",
}
VALUE_CLASSES = ["DateTime", "Date", "Time", "Duration", "AbsoluteDuration", "Interval", "FixedTimezone", "Timezone"]

# instance record per class and the attributes a hook may read: python attribute -> (lean field, kind)
#   I Int, B Bool, O Option ρ (object or None), P ρ (object), S Str, F float by its µs numerator, D Dict, KW keyword dict
F7 = ["year", "month", "day", "hour", "minute", "second", "microsecond"]
INST = {
    "DateTime": ("DateTimeInst", dict({f: (f, "I") for f in F7}, fold=("fold", "B"), tzinfo=("tzinfo", "O"),
                                      tz=("tz", "O"), timezone=("timezone", "O"))),
    "Date": ("DateInst", {f: (f, "I") for f in F7[:3]}),
    "Time": ("TimeInst", dict({f: (f, "I") for f in F7[3:]}, fold=("fold", "B"), tzinfo=("tzinfo", "O"))),
    "Duration": ("DurationInst", dict(
        {f: (f, "I") for f in ["_years", "_months", "_weeks", "_days", "_remaining_days", "_seconds", "_microseconds",
                               "years", "months", "weeks", "days", "remaining_days", "hours", "minutes", "seconds",
                               "remaining_seconds", "microseconds"]},
        _total=("_total", "F"), invert=("invert", "B"), _signature=("_signature", "KW"), __dict__=("dict", "D"))),
    "Interval": ("IntervalInst", dict(start=("start", "P"), end=("end_", "P"), _start=("_start", "P"), _end=("_end", "P"),
                                      _absolute=("_absolute", "B"), _invert=("_invert", "B"), __dict__=("dict", "D"))),
    "FixedTimezone": ("FixedTimezoneInst", dict(_offset=("_offset", "I"), offset=("offset", "I"), _name=("_name", "S"),
                                                name=("name", "S"), _utcoffset=("_utcoffset", "P"), __dict__=("dict", "D"))),
    "Timezone": ("TimezoneInst", dict(key=("key", "S"), name=("name", "S"))),
}
INST["AbsoluteDuration"] = INST["Duration"]
# the stdlib `__reduce__` an instance inherits is a field of the record; for tzinfo it calls back `__getinitargs__`
STD_REDUCE_TAKES_INITARGS = {"FixedTimezone"}

LEAN_TY = {"I": "Int", "B": "Bool", "V": "Val ρ", "L": "List (Val ρ)", "O": "Option ρ", "P": "ρ", "D": "Dict ρ",
           "R": "Red ρ", "S": "Str", "F": "Int", "KW": "List (String × Val ρ)", "C": "Copied ρ"}
LEAN_KEYWORDS = {"end", "from", "at", "in", "do", "then", "else", "if", "let", "have", "fun", "match", "with", "open",
                 "show", "where", "by", "structure", "variable", "instance", "class", "def", "theorem", "namespace"}

PRELUDE = r'''abbrev Str := List Nat

/-- a Python value handed to the pickle / copy machinery, over opaque object references `ρ` -/
inductive Val (ρ : Type)
  | int (i : Int)
  | bool (b : Bool)
  | none
  | str (s : Str)
  | float (usNumerator : Int)      -- a float attribute (`Duration._total`), by its µs numerator
  | bytes (b : List Int)
  | ref (r : ρ)                     -- an object passed on as it is (shared with the original)
  | deep (r : ρ)                    -- `copy.deepcopy(r, memo)`
  | self_                           -- the instance itself
  | selfClass                       -- `self.__class__`
  | named (n : String)              -- a module-level name (class or function)
deriving DecidableEq, Repr

variable {ρ : Type}

/-- an attribute that is an object or None -/
def Val.ofOpt : Option ρ → Val ρ
  | some r => .ref r
  | Option.none => .none

/-- `copy.deepcopy(v, memo)`: atoms come back as they are, objects are deep-copied -/
def Val.deepOf : Val ρ → Val ρ
  | .ref r => .deep r
  | v => v

abbrev Dict (ρ : Type) := List (String × Val ρ)

/-- third and later items of a reduce value (state, …) -/
inductive Item (ρ : Type)
  | val (v : Val ρ)
  | dict (d : Dict ρ)
deriving DecidableEq, Repr

/-- the callable of a reduce value: `self.__class__`, an attribute of it (`cls._unpickle`), or a module-level name -/
inductive Callable
  | selfClass
  | selfClassAttr (n : String)
  | named (n : String)
deriving DecidableEq, Repr

/-- a reduce value `(callable, args, *rest)` -/
structure Red (ρ : Type) where
  callable : Callable
  args : List (Val ρ)
  rest : List (Item ρ)
deriving DecidableEq, Repr

/-- the tuple `(*r, x)` -/
def Red.snoc (r : Red ρ) (x : Item ρ) : Red ρ := { r with rest := r.rest ++ [x] }

/-- a call `callee(*args, **kwargs)` -/
structure Call (ρ : Type) where
  callee : Val ρ
  args : List (Val ρ)
  kwargs : List (String × Val ρ)
deriving DecidableEq, Repr

/-- what `copy.copy` / `copy.deepcopy` obtain: the value of a call made by a `__copy__` / `__deepcopy__` hook, or — no
    such hook — `copy._reconstruct` on the reduce value (`deep`: arguments and state are deep-copied first) -/
inductive Copied (ρ : Type)
  | call (c : Call ρ)
  | reconstruct (r : Red ρ) (deep : Bool)
  | error (e : String)
deriving DecidableEq, Repr

/-- `self.__dict__` filtered by a predicate on the key (dict comprehension over `.items()`) -/
def Dict.filterKeys (d : Dict ρ) (p : String → Bool) : Dict ρ := d.filter fun kv => p kv.1

def cacheGet (c : List (Int × ρ)) (k : Int) : Option ρ := (c.find? fun e => e.1 == k).map (·.2)
def cacheSet (c : List (Int × ρ)) (k : Int) (v : ρ) : List (Int × ρ) := (k, v) :: c.filter fun e => e.1 != k

/-! instance records: the fields, private slots and `__dict__` a hook reads; properties that are other methods;
    `std_reduce` = the `__reduce__` / `__reduce_ex__` inherited from the stdlib base class, on this instance -/

structure DateTimeInst (ρ : Type) where
  year : Int
  month : Int
  day : Int
  hour : Int
  minute : Int
  second : Int
  microsecond : Int
  fold : Bool
  tzinfo : Option ρ               -- the tzinfo slot
  tz : Option ρ                   -- property `tz` (= `timezone`): None unless the tzinfo is a pendulum timezone
  timezone : Option ρ
  std_reduce : Int → Red ρ        -- `datetime.datetime.__reduce_ex__(self, protocol)`
  exact_class : Bool            -- `type(self)` is the pendulum class itself, not a user subclass

structure DateInst (ρ : Type) where
  year : Int
  month : Int
  day : Int
  std_reduce : Red ρ              -- `datetime.date.__reduce__(self)`
  exact_class : Bool            -- `type(self)` is the pendulum class itself, not a user subclass

structure TimeInst (ρ : Type) where
  hour : Int
  minute : Int
  second : Int
  microsecond : Int
  fold : Bool
  tzinfo : Option ρ
  std_reduce : Int → Red ρ        -- `datetime.time.__reduce_ex__(self, protocol)`
  exact_class : Bool            -- `type(self)` is the pendulum class itself, not a user subclass

structure DurationInst (ρ : Type) where
  _total : Int
  _years : Int
  _months : Int
  _weeks : Int
  _days : Int
  _remaining_days : Int
  _seconds : Int
  _microseconds : Int
  _signature : List (String × Val ρ)
  dict : Dict ρ                   -- `self.__dict__`
  years : Int                     -- properties (other methods of duration.py)
  months : Int
  weeks : Int
  days : Int
  remaining_days : Int
  hours : Int
  minutes : Int
  seconds : Int
  remaining_seconds : Int
  microseconds : Int
  invert : Bool
  std_reduce : Red ρ              -- `timedelta.__reduce__(self)`
  exact_class : Bool            -- `type(self)` is the pendulum class itself, not a user subclass

structure IntervalInst (ρ : Type) where
  start : ρ                       -- properties `start` / `end`
  end_ : ρ
  _start : ρ
  _end : ρ
  _absolute : Bool
  _invert : Bool
  dict : Dict ρ
  std_reduce : Red ρ              -- `timedelta.__reduce__(self)`
  exact_class : Bool            -- `type(self)` is the pendulum class itself, not a user subclass

structure FixedTimezoneInst (ρ : Type) where
  _offset : Int
  offset : Int
  _name : Str
  name : Str
  _utcoffset : ρ
  dict : Dict ρ
  std_reduce : List (Val ρ) → Red ρ   -- `tzinfo.__reduce__(self)`, given what `self.__getinitargs__()` returns
  exact_class : Bool            -- `type(self)` is the pendulum class itself, not a user subclass

structure TimezoneInst (ρ : Type) where
  key : Str
  name : Str
  std_reduce : Red ρ              -- `zoneinfo.ZoneInfo.__reduce__(self)`
  exact_class : Bool            -- `type(self)` is the pendulum class itself, not a user subclass
'''


class Bad(Exception):
    pass


class E:
    """a translated expression: kind + Lean term"""

    def __init__(self, k, e):
        self.k, self.e = k, e


def lean_str(s: str) -> str:
    out = []
    for ch in s:
        if ch == "\\":
            out.append("\\\\")
        elif ch == '"':
            out.append('\\"')
        elif ch == "\n":
            out.append("\\n")
        elif ch == "\t":
            out.append("\\t")
        elif ord(ch) < 32 or ord(ch) == 127:
            out.append("\\x%02x" % ord(ch))
        else:
            out.append(ch)
    return '"' + "".join(out) + '"'


def ident(n: str) -> str:
    return n + "_" if n in LEAN_KEYWORDS else n


def strip_doc(body):
    return [s for s in body if not (isinstance(s, ast.Expr) and isinstance(s.value, ast.Constant)
                                    and isinstance(s.value.value, str))]


def base_name(b) -> str | None:
    """last component of a base-class expression; None for the ignored ones"""
    if isinstance(b, ast.Subscript):
        b = b.value
    s = ast.unparse(b).split(".")[-1]
    return None if s in IGNORED_BASES else s


# ----------------------------------------------------------------------------- the class graph

class World:
    def __init__(self):
        self.trees, self.classes, self.funcs, self.modnames = {}, {}, {}, {}
        for cname, rel in FILES.items():
            if rel not in self.trees:
                self.trees[rel] = ast.parse((REPO / "src/pendulum" / rel).read_text())
            tree = self.trees[rel]
            cls = next((n for n in tree.body if isinstance(n, ast.ClassDef) and n.name == cname), None)
            if cls is None:
                raise Bad(f"class {cname} not found in {rel}")
            self.classes[cname] = cls
        for rel, tree in self.trees.items():
            self.funcs[rel] = {n.name: n for n in tree.body if isinstance(n, ast.FunctionDef)}
            names = set(self.funcs[rel]) | {n.name for n in tree.body if isinstance(n, ast.ClassDef)}
            for n in tree.body:
                if isinstance(n, ast.ImportFrom):
                    names |= {a.asname or a.name for a in n.names}
            self.modnames[rel] = names

    def bases(self, c):
        if c in STD:
            return STD[c][0]
        out = [base_name(b) for b in self.classes[c].bases]
        out = [b for b in out if b is not None]
        for b in out:
            if b not in STD and b not in self.classes:
                raise Bad(f"{c} has an unknown base class {b}")
        return out or ["object"]

    def mro(self, c):
        """C3 linearisation"""
        if c == "object":
            return ["object"]
        bs = self.bases(c)
        seqs = [self.mro(b) for b in bs] + [list(bs)]
        out = [c]
        while any(seqs):
            seqs = [s for s in seqs if s]
            for s in seqs:
                h = s[0]
                if not any(h in t[1:] for t in seqs):
                    break
            else:
                raise Bad(f"inconsistent MRO for {c}")
            out.append(h)
            seqs = [[x for x in s if x != h] for s in seqs]
        return out

    def methods(self, c):
        out = {}
        for n in self.classes[c].body:
            if isinstance(n, (ast.FunctionDef, ast.AsyncFunctionDef)):
                if any(isinstance(d, ast.Attribute) and d.attr in ("setter", "deleter") for d in n.decorator_list):
                    continue
                if any(ast.unparse(d) == "overload" for d in n.decorator_list):
                    continue
                out[n.name] = n
            elif isinstance(n, ast.Assign):          # `__copy__ = something` in a class body
                for t in n.targets:
                    if isinstance(t, ast.Name):
                        out[t.id] = n
            elif isinstance(n, ast.AnnAssign) and isinstance(n.target, ast.Name) and n.value is not None:
                out[n.target.id] = n
        return out

    def defines(self, c, name):
        if c in STD:
            return name in STD[c][1]
        return name in self.methods(c)

    def resolve(self, c, name, after=None):
        """first class of c's MRO (after class `after`, for super()) that defines `name`"""
        m = self.mro(c)
        if after is not None:
            m = m[m.index(after) + 1:]
        for k in m:
            if self.defines(k, name):
                return k
        return None

    def slots(self, c):
        """attributes assigned on `self` in __new__ / __init__ of c (own class body only), source order"""
        out = []
        ms = self.methods(c)
        for mname in ("__new__", "__init__"):
            fn = ms.get(mname)
            if not isinstance(fn, ast.FunctionDef):
                continue
            for n in ast.walk(fn):
                tg = []
                if isinstance(n, ast.Assign):
                    tg = n.targets
                elif isinstance(n, (ast.AnnAssign, ast.AugAssign)):
                    tg = [n.target]
                for t in tg:
                    for tt in (t.elts if isinstance(t, ast.Tuple) else [t]):
                        if isinstance(tt, ast.Attribute) and isinstance(tt.value, ast.Name) and tt.value.id == "self":
                            out.append((tt.lineno, tt.col_offset, tt.attr))
        seen, res = set(), []
        for _, _, a in sorted(out):
            if a not in seen:
                seen.add(a)
                res.append(a)
        return res


# ----------------------------------------------------------------------------- method translator

class Tr:
    """translates one method of class `owner`, read on an instance of class `cname`"""

    def __init__(self, gen, cname, owner, fn):
        self.gen, self.w, self.cname, self.owner, self.fn = gen, gen.w, cname, owner, fn
        self.inst, self.attrs = INST[cname]
        self.n = 0
        self.local_imports = set()

    def fresh(self, base):
        self.n += 1
        return f"{base.strip('_') or 'v'}_{self.n}"

    # ---- coercions
    def toV(self, v: E) -> str:
        k = v.k
        if k == "V":
            return v.e
        if k == "I":
            return f"(Val.int {v.e})"
        if k == "B":
            return f"(Val.bool {v.e})"
        if k == "O":
            return f"(Val.ofOpt {v.e})"
        if k == "P":
            return f"(Val.ref {v.e})"
        if k == "S":
            return f"(Val.str {v.e})"
        if k == "F":
            return f"(Val.float {v.e})"
        raise Bad(f"a {k}-valued expression cannot be an element of a state tuple")

    def toB(self, v: E) -> str:
        if v.k == "B":
            return v.e
        if v.k == "I":
            return f"(decide ({v.e} ≠ 0))"
        if v.k == "O":
            return f"({v.e}).isSome"
        raise Bad(f"truth value of a {v.k}-valued expression")

    def toI(self, v: E) -> str:
        if v.k == "I":
            return v.e
        if v.k == "B":
            return f"(if {v.e} then (1 : Int) else 0)"
        raise Bad(f"integer expected, got {v.k}")

    def toItem(self, v: E) -> str:
        if v.k == "D":
            return f"(Item.dict {v.e})"
        return f"(Item.val {self.toV(v)})"

    # ---- expressions
    def module_name(self, n):
        rel = FILES[self.owner]
        return n in self.w.modnames[rel] or n in self.local_imports

    def ev(self, x, env) -> E:
        if isinstance(x, ast.Constant):
            c = x.value
            if c is None:
                return E("V", "Val.none")
            if isinstance(c, bool):
                return E("B", "true" if c else "false")
            if isinstance(c, int):
                return E("I", f"({c} : Int)")
            if isinstance(c, str):
                return E("S", "[" + ", ".join(str(ord(ch)) for ch in c) + "]")
            raise Bad("constant outside the subset: " + repr(c))
        if isinstance(x, ast.Name):
            if x.id in env:
                return env[x.id]
            if x.id == "self":
                return E("V", "Val.self_")
            if self.module_name(x.id):
                return E("V", f"(Val.named {lean_str(x.id)})")
            raise Bad("unknown name " + x.id)
        if isinstance(x, ast.Attribute):
            src = ast.unparse(x)
            if src == "self.__class__":
                return E("V", "Val.selfClass")
            if isinstance(x.value, ast.Name) and x.value.id == "self" and "self" not in env:
                if x.attr in self.attrs:
                    f, k = self.attrs[x.attr]
                    return E(k, f"self.{f}")
                raise Bad(f"attribute self.{x.attr} is not in the instance record of {self.cname}")
            raise Bad("attribute outside the subset: " + src[:100])
        if isinstance(x, ast.UnaryOp) and isinstance(x.op, ast.Not):
            return E("B", f"(!{self.toB(self.ev(x.operand, env))})")
        if isinstance(x, ast.UnaryOp) and isinstance(x.op, ast.USub):
            return E("I", f"(-{self.toI(self.ev(x.operand, env))})")
        if isinstance(x, ast.BoolOp):
            op = " && " if isinstance(x.op, ast.And) else " || "
            return E("B", "(" + op.join(self.toB(self.ev(v, env)) for v in x.values) + ")")
        if isinstance(x, ast.BinOp) and isinstance(x.op, ast.Add) and isinstance(x.right, ast.Tuple) \
                and not any(isinstance(e, ast.Starred) for e in x.right.elts):
            left = self.ev(x.left, env)
            if left.k == "R":                      # `<reduce value> + (item, ...)`
                t = left.e
                for e in x.right.elts:
                    t = f"(Red.snoc {t} {self.toItem(self.ev(e, env))})"
                return E("R", t)
        if isinstance(x, ast.BinOp) and type(x.op) in (ast.Add, ast.Sub, ast.Mult):
            o = {ast.Add: "+", ast.Sub: "-", ast.Mult: "*"}[type(x.op)]
            a, b = self.ev(x.left, env), self.ev(x.right, env)
            if a.k == "L" and b.k == "L" and o == "+":
                return E("L", f"({a.e} ++ {b.e})")
            return E("I", f"({self.toI(a)} {o} {self.toI(b)})")
        if isinstance(x, ast.Compare) and len(x.ops) == 1:
            return self.compare(x, env)
        if isinstance(x, ast.IfExp):
            c = self.toB(self.ev(x.test, env))
            a, b = self.ev(x.body, env), self.ev(x.orelse, env)
            return self.merge(c, a, b)
        if isinstance(x, ast.Tuple):
            return E("L", self.tuple_items(x.elts, env))
        if isinstance(x, ast.DictComp):
            return self.dictcomp(x, env)
        if isinstance(x, ast.Call):
            return self.call(x, env)
        raise Bad("expression outside the subset: " + ast.unparse(x)[:120])

    def merge(self, c, a: E, b: E) -> E:
        if a.k == b.k and a.k in LEAN_TY:
            return E(a.k, f"(if {c} then {a.e} else {b.e})")
        return E("V", f"(if {c} then {self.toV(a)} else {self.toV(b)})")

    def compare(self, x, env) -> E:
        op = x.ops[0]
        if isinstance(op, (ast.Is, ast.IsNot, ast.Eq, ast.NotEq)) and ast.unparse(x.left) in ("type(self)", "self.__class__") \
                and isinstance(x.comparators[0], ast.Name) and x.comparators[0].id == self.cname and "self" not in env:
            return E("B", "self.exact_class" if isinstance(op, (ast.Is, ast.Eq)) else "(!self.exact_class)")
        a, b = self.ev(x.left, env), self.ev(x.comparators[0], env)
        if isinstance(op, (ast.Is, ast.IsNot)):
            if b.k == "V" and b.e == "Val.none" and a.k == "O":
                return E("B", f"({a.e}).isNone" if isinstance(op, ast.Is) else f"({a.e}).isSome")
            raise Bad("`is` outside the subset: " + ast.unparse(x)[:100])
        o = {ast.Eq: "=", ast.NotEq: "≠", ast.Lt: "<", ast.LtE: "≤", ast.Gt: ">", ast.GtE: "≥"}.get(type(op))
        if o is None:
            raise Bad("comparison outside the subset: " + ast.unparse(x)[:100])
        if a.k in "IB" and b.k in "IB":
            return E("B", f"(decide ({self.toI(a)} {o} {self.toI(b)}))")
        raise Bad("comparison of unsupported values: " + ast.unparse(x)[:100])

    def tuple_items(self, elts, env) -> str:
        """Lean list for a tuple display, `*x` spliced"""
        parts, cur = [], []
        for e in elts:
            if isinstance(e, ast.Starred):
                v = self.ev(e.value, env)
                if v.k != "L":
                    raise Bad("`*` of something that is not a state tuple: " + ast.unparse(e)[:80])
                if cur:
                    parts.append("[" + ", ".join(cur) + "]")
                    cur = []
                parts.append(v.e)
            else:
                cur.append(self.toV(self.ev(e, env)))
        if cur or not parts:
            parts.append("[" + ", ".join(cur) + "]")
        return parts[0] if len(parts) == 1 else "(" + " ++ ".join(parts) + ")"

    def dictcomp(self, x, env) -> E:
        """`{k: v for k, v in self.__dict__.items() if <test on k>}`"""
        if len(x.generators) != 1:
            raise Bad("dict comprehension with several generators")
        g = x.generators[0]
        it = g.iter
        if not (isinstance(g.target, ast.Tuple) and len(g.target.elts) == 2 and all(isinstance(t, ast.Name) for t in g.target.elts)
                and isinstance(it, ast.Call) and isinstance(it.func, ast.Attribute) and it.func.attr == "items" and not it.args):
            raise Bad("dict comprehension outside the subset: " + ast.unparse(x)[:120])
        kn, vn = (t.id for t in g.target.elts)
        d = self.ev(it.func.value, env)
        if d.k != "D" or not (isinstance(x.key, ast.Name) and x.key.id == kn and isinstance(x.value, ast.Name) and x.value.id == vn):
            raise Bad("dict comprehension outside the subset: " + ast.unparse(x)[:120])
        conds = []
        for t in g.ifs:
            conds.append(self.keytest(t, kn))
        p = " && ".join(conds) if conds else "true"
        return E("D", f"(Dict.filterKeys {d.e} (fun {ident(kn)} => {p}))")

    def keytest(self, t, kn) -> str:
        if isinstance(t, ast.Compare) and len(t.ops) == 1 and isinstance(t.left, ast.Name) and t.left.id == kn:
            r = t.comparators[0]
            if isinstance(r, ast.Constant) and isinstance(r.value, str) and isinstance(t.ops[0], (ast.Eq, ast.NotEq)):
                return f"({ident(kn)} {'==' if isinstance(t.ops[0], ast.Eq) else '!='} {lean_str(r.value)})"
            if isinstance(r, (ast.Tuple, ast.List, ast.Set)) and all(isinstance(e, ast.Constant) and isinstance(e.value, str) for e in r.elts) \
                    and isinstance(t.ops[0], (ast.In, ast.NotIn)):
                lst = "[" + ", ".join(lean_str(e.value) for e in r.elts) + "]"
                return f"({'' if isinstance(t.ops[0], ast.In) else '!'}({lst}.contains {ident(kn)}))"
        if isinstance(t, ast.BoolOp):
            op = " && " if isinstance(t.op, ast.And) else " || "
            return "(" + op.join(self.keytest(v, kn) for v in t.values) + ")"
        if isinstance(t, ast.UnaryOp) and isinstance(t.op, ast.Not):
            return f"(!{self.keytest(t.operand, kn)})"
        if isinstance(t, ast.Call) and isinstance(t.func, ast.Attribute) and isinstance(t.func.value, ast.Name) and t.func.value.id == kn \
                and t.func.attr in ("startswith", "endswith") and len(t.args) == 1 and isinstance(t.args[0], ast.Constant) \
                and isinstance(t.args[0].value, str):
            return f"({ident(kn)}.{'startsWith' if t.func.attr == 'startswith' else 'endsWith'} {lean_str(t.args[0].value)})"
        raise Bad("test on a dict key outside the subset: " + ast.unparse(t)[:100])

    def call_args(self, x, env):
        """(positional list term, keyword list term) of a call expression"""
        pos = self.tuple_items(x.args, env)
        kws, splice = [], []
        for k in x.keywords:
            if k.arg is None:
                v = self.ev(k.value, env)
                if v.k != "KW":
                    raise Bad("`**` of something that is not a keyword dictionary: " + ast.unparse(k.value)[:80])
                if kws:
                    splice.append("[" + ", ".join(kws) + "]")
                    kws = []
                splice.append(v.e)
            else:
                kws.append(f"({lean_str(k.arg)}, {self.toV(self.ev(k.value, env))})")
        if kws or not splice:
            splice.append("[" + ", ".join(kws) + "]")
        kw = splice[0] if len(splice) == 1 else "(" + " ++ ".join(splice) + ")"
        return pos, kw

    def call(self, x, env) -> E:
        f = x.func
        fsrc = ast.unparse(f)
        if fsrc in ("int", "bool") and len(x.args) == 1 and not x.keywords:
            v = self.ev(x.args[0], env)
            return E("I", self.toI(v)) if fsrc == "int" else E("B", self.toB(v))
        if fsrc == "cast" and len(x.args) == 2:
            return self.ev(x.args[1], env)
        if fsrc == "tuple" and len(x.args) == 1 and not x.keywords:
            v = self.ev(x.args[0], env)
            if v.k == "L":
                return v
        if fsrc == "copy.deepcopy" and 1 <= len(x.args) <= 2 and not x.keywords:
            if len(x.args) == 2 and self.ev(x.args[1], env).k != "MEMO":
                raise Bad("copy.deepcopy with a second argument that is not the memo")
            v = self.ev(x.args[0], env)
            if v.k == "V" and v.e == "Val.self_":
                raise Bad("copy.deepcopy(self) inside a hook")
            return E("V", f"(Val.deepOf {self.toV(v)})")
        if fsrc == "copy.copy" and len(x.args) == 1 and not x.keywords and ast.unparse(x.args[0]) == "self":
            if self.fn.name == "__copy__" or (self.cname, "copy") not in self.gen.entries:
                raise Bad("copy.copy(self) where `copy.copy` of the class is not resolved yet (inside __copy__?)")
            return E("C", f"({self.cname}.copy self)")
        # super().<hook>() / self.<method>(...)
        if fsrc != "self.__class__" and isinstance(f, ast.Attribute) and ast.unparse(f.value) == "super()":
            return self.method_call(f.attr, x, env, after=self.owner)
        if fsrc != "self.__class__" and isinstance(f, ast.Attribute) and isinstance(f.value, ast.Name) and f.value.id == "self" \
                and "self" not in env:
            return self.method_call(f.attr, x, env)
        # a constructor / helper call
        if fsrc == "self.__class__" or (isinstance(f, ast.Name) and (f.id in env or self.module_name(f.id))):
            callee = self.ev(f, env)
            pos, kw = self.call_args(x, env)
            return E("C", f"(Copied.call ⟨{self.toV(callee)}, {pos}, {kw}⟩)")
        raise Bad("call outside the subset: " + ast.unparse(x)[:120])

    def method_call(self, mname, x, env, after=None) -> E:
        if mname not in STATE_METHODS:
            raise Bad(f"call of {mname}() — not a state hook")
        k = self.w.resolve(self.cname, mname, after=after)
        if k is None:
            raise Bad(f"{self.cname} has no {mname}")
        kind = STATE_METHODS[mname]
        if k in STD:
            if mname not in ("__reduce__", "__reduce_ex__"):
                raise Bad(f"{mname} of the stdlib class {k}")
            return E("R", self.gen.std_reduce_term(self.cname, mname, [self.toI(self.ev(a, env)) for a in x.args]))
        name, params = self.gen.need(self.cname, k, mname)
        if x.keywords:
            raise Bad(f"keyword arguments in a call of {mname}")
        args = [self.toI(self.ev(a, env)) for a in x.args]
        if len(args) > len(params):
            raise Bad(f"too many arguments for {mname}")
        for pn, dflt in params[len(args):]:
            if dflt is None:
                raise Bad(f"missing argument {pn} in a call of {mname}")
            args.append(dflt)
        return E(kind, "(" + " ".join([name, "self"] + args) + ")")

    # ---- statements
    def bind(self, name, v: E, env):
        """let-bind a value; returns (let line, new env)"""
        if v.k not in LEAN_TY:
            raise Bad(f"cannot bind a {v.k}-valued expression to {name}")
        ln = self.fresh(ident(name))
        env = dict(env)
        env[name] = E(v.k, ln)
        return f"let {ln} : {LEAN_TY[v.k]} := {v.e}", env

    def assign_targets(self, s):
        if isinstance(s, ast.Assign) and len(s.targets) == 1:
            return s.targets[0], s.value
        if isinstance(s, ast.AnnAssign) and s.value is not None:
            return s.target, s.value
        return None, None

    def pure_assign(self, stmts, env):
        """assignments inside an `if` arm: no lets, the environment maps names to expressions"""
        env = dict(env)
        for s in stmts:
            if isinstance(s, ast.Pass):
                continue
            t, v = self.assign_targets(s)
            if t is None:
                raise Bad("statement outside the subset inside an `if` arm: " + ast.unparse(s)[:100])
            if isinstance(t, ast.Name):
                env[t.id] = self.ev(v, env)
            elif isinstance(t, ast.Tuple) and isinstance(v, ast.Tuple) and len(t.elts) == len(v.elts) \
                    and all(isinstance(e, ast.Name) for e in t.elts):
                vals = [self.ev(e, env) for e in v.elts]
                for e, val in zip(t.elts, vals):
                    env[e.id] = val
            else:
                raise Bad("assignment outside the subset: " + ast.unparse(s)[:100])
        return env

    @staticmethod
    def only_assigns(stmts):
        return all(isinstance(s, (ast.Assign, ast.AnnAssign, ast.Pass)) for s in stmts)

    def block(self, stmts, env, kind) -> str:
        if not stmts:
            raise Bad("a path falls off the end of the method (returns None)")
        s, rest = stmts[0], stmts[1:]
        if isinstance(s, ast.Expr) and isinstance(s.value, ast.Constant):
            return self.block(rest, env, kind)
        if isinstance(s, ast.Pass):
            return self.block(rest, env, kind)
        if isinstance(s, ast.ImportFrom):
            for a in s.names:
                self.local_imports.add(a.asname or a.name)
            return self.block(rest, env, kind)
        if isinstance(s, ast.Return):
            if s.value is None:
                raise Bad("bare return")
            return self.ret(s.value, env, kind)
        t, v = self.assign_targets(s)
        if t is not None:
            if isinstance(t, ast.Name):
                line, env2 = self.bind(t.id, self.ev(v, env), env)
                return line + "\n  " + self.block(rest, env2, kind)
            if isinstance(t, ast.Tuple) and all(isinstance(e, ast.Name) for e in t.elts):
                if isinstance(v, ast.Tuple) and len(v.elts) == len(t.elts) and not any(isinstance(e, ast.Starred) for e in v.elts):
                    vals = [self.ev(e, env) for e in v.elts]
                    lines = []
                    env2 = env
                    for e, val in zip(t.elts, vals):
                        line, env2 = self.bind(e.id, val, env2)
                        lines.append(line)
                    return "\n  ".join(lines) + "\n  " + self.block(rest, env2, kind)
                val = self.ev(v, env)
                if val.k == "L":
                    if kind != "C":
                        raise Bad("unpacking a state tuple outside a __copy__/__deepcopy__ hook")
                    env2 = dict(env)
                    pats = []
                    for e in t.elts:
                        ln = self.fresh(ident(e.id))
                        env2[e.id] = E("V", ln)
                        pats.append(ln)
                    return (f"match {val.e} with\n  | [" + ", ".join(pats) + "] =>\n  (" + self.block(rest, env2, kind)
                            + ")\n  | _ => Copied.error \"ValueError\"")
            raise Bad("assignment outside the subset: " + ast.unparse(s)[:100])
        if isinstance(s, ast.If):
            c = self.toB(self.ev(s.test, env))
            if self.only_assigns(s.body) and self.only_assigns(s.orelse):
                e1, e2 = self.pure_assign(s.body, env), self.pure_assign(s.orelse, env)
                names = [n for n in dict.fromkeys(list(e1) + list(e2)) if e1.get(n) is not env.get(n) or e2.get(n) is not env.get(n)]
                lines, env2 = [], env
                for n in names:
                    if n not in e1 or n not in e2:
                        raise Bad(f"{n} is assigned in one arm of an `if` only")
                    line, env2 = self.bind(n, self.merge(c, e1[n], e2[n]), env2)
                    lines.append(line)
                return "\n  ".join(lines + [self.block(rest, env2, kind)])
            return (f"if {c} then\n  (" + self.block(list(s.body) + list(rest), env, kind) + ")\n  else\n  ("
                    + self.block(list(s.orelse) + list(rest), env, kind) + ")")
        raise Bad("statement outside the subset: " + ast.unparse(s)[:100])

    def callable_of(self, x, env) -> str:
        src = ast.unparse(x)
        if src == "self.__class__":
            return "Callable.selfClass"
        if isinstance(x, ast.Attribute) and ast.unparse(x.value) == "self.__class__":
            return f"(Callable.selfClassAttr {lean_str(x.attr)})"
        if isinstance(x, ast.Name) and x.id not in env and self.module_name(x.id):
            self.gen.callables.add((FILES[self.owner], x.id))
            return f"(Callable.named {lean_str(x.id)})"
        raise Bad("callable of a reduce value outside the subset: " + src[:100])

    def ret(self, x, env, kind) -> str:
        if kind == "L":
            v = self.ev(x, env)
            if v.k != "L":
                raise Bad("a state method must return a tuple: " + ast.unparse(x)[:100])
            return v.e
        if kind == "R":
            if isinstance(x, ast.Tuple):
                els = x.elts
                if els and isinstance(els[0], ast.Starred):
                    r = self.ev(els[0].value, env)
                    if r.k != "R" or any(isinstance(e, ast.Starred) for e in els[1:]):
                        raise Bad("reduce value outside the subset: " + ast.unparse(x)[:120])
                    t = r.e
                    for e in els[1:]:
                        t = f"(Red.snoc {t} {self.toItem(self.ev(e, env))})"
                    return t
                if len(els) >= 2 and not any(isinstance(e, ast.Starred) for e in els):
                    c = self.callable_of(els[0], env)
                    a = self.ev(els[1], env)
                    if a.k != "L":
                        raise Bad("the arguments of a reduce value must be a tuple: " + ast.unparse(els[1])[:100])
                    items = "[" + ", ".join(self.toItem(self.ev(e, env)) for e in els[2:]) + "]"
                    return f"⟨{c}, {a.e}, {items}⟩"
                raise Bad("reduce value outside the subset: " + ast.unparse(x)[:120])
            v = self.ev(x, env)
            if v.k != "R":
                raise Bad("a reduce hook must return a reduce value: " + ast.unparse(x)[:100])
            return v.e
        if kind == "C":
            v = self.ev(x, env)
            if v.k != "C":
                raise Bad("a copy hook must return a constructor call or copy.copy(self): " + ast.unparse(x)[:100])
            return v.e
        raise Bad("unknown result kind " + kind)


# ----------------------------------------------------------------------------- generator

class Gen:
    def __init__(self, world, fallbacks):
        self.w, self.fallbacks = world, fallbacks
        self.out: list = []
        self.done: dict = {}          # (cname, mname) -> (lean name, params) | None while in progress
        self.callables: set = set()   # (file, module-level name) used as the callable of a reduce value
        self.entries: set = set()

    def std_reduce_term(self, cname, mname, args):
        inst = INST[cname][0]
        if inst in ("DateTimeInst", "TimeInst"):
            proto = args[0] if (mname == "__reduce_ex__" and args) else "(2 : Int)"
            return f"(self.std_reduce {proto})"
        if cname in STD_REDUCE_TAKES_INITARGS:
            k = self.w.resolve(cname, "__getinitargs__")
            if k is None:
                return "(self.std_reduce [])"
            if k in STD:
                raise Bad("__getinitargs__ of a stdlib class")
            name, _ = self.need(cname, k, "__getinitargs__")
            return f"(self.std_reduce ({name} self))"
        return "self.std_reduce"

    def need(self, cname, owner, mname):
        key = (cname, mname)
        if key in self.done:
            if self.done[key] is None:
                raise Bad(f"{cname}.{mname} is recursive")
            return self.done[key]
        self.done[key] = None
        try:
            fn = self.w.methods(owner)[mname]
            if not isinstance(fn, ast.FunctionDef):
                raise Bad(f"{owner}.{mname} is not a plain method: " + ast.unparse(fn)[:100])
            if fn.decorator_list:
                raise Bad(f"{owner}.{mname} is decorated")
            a = fn.args
            if a.vararg or a.kwarg or a.kwonlyargs or a.posonlyargs or not a.args or a.args[0].arg != "self":
                raise Bad(f"signature of {owner}.{mname} is outside the subset")
            kind = STATE_METHODS[mname]
            tr = Tr(self, cname, owner, fn)
            env, params, decl = {}, [], []
            names = [p.arg for p in a.args[1:]]
            dfl = [None] * (len(names) - len(a.defaults)) + list(a.defaults)
            for pn, d in zip(names, dfl):
                if kind == "C":
                    env[pn] = E("MEMO", "memo")
                    continue
                dv = None
                if d is not None:
                    if not (isinstance(d, ast.Constant) and isinstance(d.value, int) and not isinstance(d.value, bool)):
                        raise Bad(f"default of {pn} in {owner}.{mname} is not an integer")
                    dv = f"({d.value} : Int)"
                ln = ident(pn)
                env[pn] = E("I", ln)
                params.append((pn, dv))
                decl.append(f"({ln} : Int)")
            body = tr.block(strip_doc(fn.body), env, kind)
            lname = f"{cname}.{mname}"
            inh = "" if owner == cname else f" (inherited from `{owner}`)"
            self.out.append(f"/-- `{owner}.{mname}`{inh}, read on an instance of `{cname}` -/\n"
                            f"def {lname} (self : {INST[cname][0]} ρ) " + " ".join(decl) + (" " if decl else "")
                            + f": {LEAN_TY[kind]} :=\n  {body}\n")
            self.done[key] = (lname, params)
            return self.done[key]
        except Bad:
            del self.done[key]
            raise

    # ---- resolution through the MRO, as copyreg / copy do it
    def entry_reduce(self, cname):
        w = self.w
        inst = INST[cname][0]
        for h in ("__getstate__", "__setstate__", "__getnewargs_ex__"):
            k = w.resolve(cname, h)
            if k is not None and k != "object":
                raise Bad(f"{cname} has a {h} (from {k}): outside the subset")
        # pickle / copy.copy / copy.deepcopy all start from obj.__reduce_ex__(protocol)
        k = w.resolve(cname, "__reduce_ex__")
        if k not in STD:
            name, _ = self.need(cname, k, "__reduce_ex__")
            body, why = f"{name} self protocol", f"`{k}.__reduce_ex__`"
        elif k != "object":
            body = "self.std_reduce protocol"
            why = f"no pendulum class defines `__reduce_ex__`: `{k}.__reduce_ex__` of the stdlib"
        else:
            k2 = w.resolve(cname, "__reduce__")
            if k2 == "object":
                raise Bad(f"{cname} reaches object.__reduce__ (copyreg.__reduce_ex__): outside the subset")
            if k2 in STD:
                body = self.std_reduce_term(cname, "__reduce__", [])
                body = body[1:-1] if body.startswith("(") else body
                why = f"no pendulum class defines `__reduce_ex__` or `__reduce__`: `{k2}.__reduce__` of the stdlib"
                if cname in STD_REDUCE_TAKES_INITARGS:
                    why += " (which calls `__getinitargs__`)"
            else:
                name, _ = self.need(cname, k2, "__reduce__")
                body = f"{name} self"
                why = f"no `__reduce_ex__`: `object.__reduce_ex__` calls the overridden `{k2}.__reduce__`"
        self.out.append(f"/-- what `{cname}(..).__reduce_ex__(protocol)` gives the pickle / copy machinery — {why} -/\n"
                        f"def {cname}.pickle_reduce (self : {inst} ρ) (protocol : Int) : Red ρ :=\n  {body}\n")
        self.entries.add((cname, "pickle_reduce"))

    def entry_copy(self, cname, hook, entry, deep):
        w = self.w
        inst = INST[cname][0]
        if (cname, "pickle_reduce") not in self.entries:
            raise Bad(f"{cname}.pickle_reduce could not be generated")
        k = w.resolve(cname, hook)
        if k is None:
            body = f"Copied.reconstruct ({cname}.pickle_reduce self 4) {deep}"
            why = f"no `{hook}`: `copy._reconstruct` on `__reduce_ex__(4)`" + (", arguments and state deep-copied" if deep == "true" else "")
        elif k in STD:
            raise Bad(f"{hook} of the stdlib class {k}")
        else:
            name, _ = self.need(cname, k, hook)
            body, why = f"{name} self", f"`{k}.{hook}`"
        self.out.append(f"/-- `copy.{entry}` of a `{cname}` — {why} -/\n"
                        f"def {cname}.{entry} (self : {inst} ρ) : Copied ρ :=\n  {body}\n")
        self.entries.add((cname, entry))

    def hook_table(self, cname):
        rows = []
        for h in HOOKS:
            k = self.w.resolve(cname, h)
            if k is not None and k not in STD:
                rows.append(f"({lean_str(h)}, {lean_str(k)})")
        mro = ", ".join(lean_str(k) for k in self.w.mro(cname))
        self.out.append(f"/-- method resolution order of `{cname}` (stdlib classes by their bare name) -/\n"
                        f"def {cname}.mro : List String := [{mro}]\n"
                        f"/-- the pickle / copy hooks of `{cname}` that a pendulum class defines, with the defining class -/\n"
                        f"def {cname}.hooks : List (String × String) := [" + ", ".join(rows) + "]\n"
                        f"/-- instance attributes assigned in `{cname}.__new__` / `__init__` -/\n"
                        f"def {cname}.slots : List String := [" + ", ".join(lean_str(s) for s in self.w.slots(cname)) + "]\n")

    def helper(self, rel, fname):
        """a module-level function used as the callable of a reduce value: the call it makes on its arguments"""
        fn = self.w.funcs[rel].get(fname)
        if fn is None:
            raise Bad(f"{fname} is not a function of {rel}")
        a = fn.args
        if a.kwarg or a.kwonlyargs or a.posonlyargs or a.defaults or fn.decorator_list:
            raise Bad(f"signature of {fname} is outside the subset")
        owner = next(c for c in VALUE_CLASSES if FILES[c] == rel)
        tr = Tr(self, owner, owner, fn)
        env, pats = {"self": E("X", "")}, []       # `self` is not bound in a module-level function
        for p in a.args:
            ln = ident(p.arg)
            env[p.arg] = E("V", ln)
            pats.append(ln)
        if a.vararg:
            ln = ident(a.vararg.arg)
            env[a.vararg.arg] = E("L", ln)
            pat = " :: ".join(pats + [ln])
        else:
            pat = "[" + ", ".join(pats) + "]"
        body = strip_doc(fn.body)
        if len(body) != 1 or not isinstance(body[0], ast.Return) or not isinstance(body[0].value, ast.Call):
            raise Bad(f"body of {fname} is not a single `return <call>`")
        c = body[0].value
        f = c.func
        if not ((isinstance(f, ast.Name) and (f.id in env or tr.module_name(f.id)))):
            raise Bad(f"{fname} calls something outside the subset: " + ast.unparse(f)[:80])
        callee = tr.toV(tr.ev(f, env))
        pos, kw = tr.call_args(c, env)
        self.out.append(f"/-- module-level `{fname}` of {rel}: the call it makes on the arguments it is unpickled with -/\n"
                        f"def {fname} (args : List (Val ρ)) : Option (Call ρ) :=\n  match args with\n"
                        f"  | {pat} => some ⟨{callee}, {pos}, {kw}⟩\n" + ("" if a.vararg and not pats else "  | _ => Option.none\n"))

    def fixed_timezone(self):
        """tz/__init__.py `fixed_timezone`: statement by statement over the module cache"""
        tree = ast.parse((REPO / "src/pendulum/tz/__init__.py").read_text())
        fn = next((n for n in tree.body if isinstance(n, ast.FunctionDef) and n.name == "fixed_timezone"), None)
        if fn is None:
            raise Bad("fixed_timezone not found in tz/__init__.py")
        caches = [n for n in tree.body if isinstance(n, (ast.Assign, ast.AnnAssign))
                  and ast.unparse(n.targets[0] if isinstance(n, ast.Assign) else n.target) == "_tz_cache"]
        if len(caches) != 1 or ast.unparse(caches[0].value) != "{}":
            raise Bad("_tz_cache is no longer a module-level empty dict")
        if [p.arg for p in fn.args.args] != ["offset"] or fn.args.defaults or fn.args.vararg or fn.args.kwarg or fn.decorator_list:
            raise Bad("signature of fixed_timezone")
        C = "_tz_cache"

        def key(x, env):
            if isinstance(x, ast.Name) and x.id == "offset":
                return "offset"
            if isinstance(x, ast.Constant) and isinstance(x.value, int) and not isinstance(x.value, bool):
                return f"({x.value} : Int)"
            raise Bad("cache key outside the subset: " + ast.unparse(x))

        def obj(x, env):
            if isinstance(x, ast.Name) and x.id in env:
                return env[x.id]
            if isinstance(x, ast.Call) and ast.unparse(x.func) == "FixedTimezone" and not x.keywords:
                return "(new_FixedTimezone [" + ", ".join(f"Val.int {key(a, env)}" for a in x.args) + "])"
            raise Bad("object expression outside the subset: " + ast.unparse(x)[:80])

        cnt = [0]

        def blk(stmts, env, cache):
            if not stmts:
                raise Bad("fixed_timezone falls off its end")
            s, rest = stmts[0], stmts[1:]
            if isinstance(s, ast.Return) and s.value is not None:
                v = s.value
                if isinstance(v, ast.Subscript) and ast.unparse(v.value) == C:
                    return f"match cacheGet {cache} {key(v.slice, env)} with\n    | some r => (some r, {cache})\n    | Option.none => (Option.none, {cache})"
                return f"(some {obj(v, env)}, {cache})"
            if isinstance(s, ast.If) and not s.orelse and isinstance(s.test, ast.Compare) and len(s.test.ops) == 1 \
                    and isinstance(s.test.ops[0], (ast.In, ast.NotIn)) and ast.unparse(s.test.comparators[0]) == C:
                c = f"(cacheGet {cache} {key(s.test.left, env)}).isSome"
                if isinstance(s.test.ops[0], ast.NotIn):
                    c = f"!{c}"
                return f"if {c} then\n    ({blk(list(s.body) + list(rest), env, cache)})\n  else\n    ({blk(list(rest), env, cache)})"
            if isinstance(s, ast.Assign) and len(s.targets) == 1:
                t = s.targets[0]
                cnt[0] += 1
                if isinstance(t, ast.Name):
                    ln = f"{ident(t.id)}_{cnt[0]}"
                    env2 = dict(env)
                    env2[t.id] = ln
                    return f"let {ln} : ρ := {obj(s.value, env)}\n  {blk(rest, env2, cache)}"
                if isinstance(t, ast.Subscript) and ast.unparse(t.value) == C:
                    ln = f"cache_{cnt[0]}"
                    return f"let {ln} : List (Int × ρ) := cacheSet {cache} {key(t.slice, env)} {obj(s.value, env)}\n  {blk(rest, env, ln)}"
            raise Bad("statement of fixed_timezone outside the subset: " + ast.unparse(s)[:100])

        body = blk(strip_doc(fn.body), {}, C)
        self.out.append("/-- tz/__init__.py `fixed_timezone(offset)`: (the object returned — none = KeyError —, `_tz_cache` afterwards);\n"
                        "    `new_FixedTimezone args` is the fresh object `FixedTimezone(*args)` -/\n"
                        "def fixed_timezone (new_FixedTimezone : List (Val ρ) → ρ) (_tz_cache : List (Int × ρ)) (offset : Int) : Option ρ × List (Int × ρ) :=\n"
                        f"  {body}\n")

    def pinned(self, cname, mname, lname):
        fn = self.w.methods(cname).get(mname)
        if fn is None:
            src = "<absent>"
        else:
            if isinstance(fn, ast.FunctionDef):
                import copy as _copy
                fn = _copy.deepcopy(fn)
                fn.body = strip_doc(fn.body) or [ast.Pass()]
                fn.returns = None
                for a in fn.args.args + fn.args.kwonlyargs:
                    a.annotation = None
            src = ast.unparse(ast.fix_missing_locations(fn))
        self.out.append(f"/-- `{cname}.{mname}`, verbatim (outside the translated subset) -/\ndef {lname} : String := {lean_str(src)}\n")


PINNED = [("FixedTimezone", "__init__", "FixedTimezone_init_source"), ("FixedTimezone", "__repr__", "FixedTimezone_repr_source"),
          ("Timezone", "__new__", "Timezone_new_source"), ("Timezone", "__repr__", "Timezone_repr_source")]


def generate(changed, fallbacks, _write):
    from tools.gen_lean import GEN
    head = ["/-! GENERATED by tools/gen_pickle.py from the state hooks (`_getstate`, `__reduce__`, `__reduce_ex__`, `__deepcopy__`,",
            "`__copy__`, `__getinitargs__`, rebuild helpers) of src/pendulum/{datetime,date,time,duration,interval}.py and",
            "tz/{timezone,__init__}.py — do not edit. -/",
            "set_option linter.unusedVariables false", "namespace Pendulum.Gen.Pickle", "", PRELUDE]

    def finish(body):
        _write(GEN / "Pickle.lean", "\n".join(head + body + ["end Pendulum.Gen.Pickle", ""]), changed)
        return 0

    try:
        w = World()
    except (Bad, OSError, SyntaxError) as e:
        fallbacks.append(f"Pickle: cannot read the sources: {e}")
        return finish([])
    g = Gen(w, fallbacks)

    def emit(label, thunk):
        n = len(g.out)
        try:
            thunk()
        except (Bad, StopIteration, KeyError, IndexError, AttributeError, ValueError, RecursionError) as e:
            del g.out[n:]
            fallbacks.append(f"Pickle: cannot translate {label}: {e}")
            g.out.append(f"-- UNTRANSLATABLE {label}: {str(e)[:300]}\n")

    for c in VALUE_CLASSES:
        g.out.append(f"/-! ### {c} ({FILES[c]}) -/\n")
        emit(f"the hook table of {c}", lambda c=c: g.hook_table(c))
        # every hook the class defines or inherits from a pendulum class; `copy.copy` is resolved before `__deepcopy__` is
        # translated (a `__deepcopy__` may be `copy.copy(self)`)
        def hooks(hs, c=c):
            for h in hs:
                try:
                    k = w.resolve(c, h)
                except Bad as e:
                    fallbacks.append(f"Pickle: {e}")
                    return
                if k is not None and k not in STD:
                    emit(f"{k}.{h} (on {c})", lambda c=c, k=k, h=h: g.need(c, k, h))
        hooks(["_getstate", "_get_state", "__getnewargs__", "__getinitargs__", "__reduce_ex__", "__reduce__"])
        emit(f"the pickle entry point of {c}", lambda c=c: g.entry_reduce(c))
        hooks(["__copy__"])
        emit(f"the copy.copy entry point of {c}", lambda c=c: g.entry_copy(c, "__copy__", "copy", "false"))
        hooks(["__deepcopy__"])
        emit(f"the copy.deepcopy entry point of {c}", lambda c=c: g.entry_copy(c, "__deepcopy__", "deepcopy", "true"))
    g.out.append("/-! ### module-level helpers -/\n")
    seen = set()
    while g.callables - seen:
        for rel, fname in sorted(g.callables - seen):
            seen.add((rel, fname))
            if fname in w.classes or fname in {c for c in FILES}:
                continue
            if fname not in w.funcs[rel]:
                g.out.append(f"-- `{fname}` (callable of a reduce value in {rel}) is not a function of that module\n")
                continue
            emit(f"the rebuild helper {fname} ({rel})", lambda rel=rel, fname=fname: g.helper(rel, fname))
    names = sorted(f for (_, f) in seen)
    arms = "".join(f"  if n = {lean_str(f)} then {f} args else\n" for (rel, f) in sorted(seen)
                   if any(ln.startswith(f"def {f} ") for blk in g.out for ln in blk.split("\n")))
    g.out.append("/-- the call a module-level callable makes on the arguments it is unpickled with (none: not a function of the\n"
                 "    translated modules) -/\n"
                 "def callHelper (n : String) (args : List (Val ρ)) : Option (Call ρ) :=\n" + arms + "  Option.none\n")
    g.out.append("/-- module-level names used as the callable of a reduce value -/\n"
                 "def helpers : List String := [" + ", ".join(lean_str(n) for n in names) + "]\n")
    emit("fixed_timezone (tz/__init__.py)", g.fixed_timezone)
    g.out.append("/-! ### recorded verbatim -/\n")
    for cname, mname, lname in PINNED:
        emit(f"{cname}.{mname} (verbatim)", lambda a=cname, b=mname, c=lname: g.pinned(a, b, c))
    return finish(g.out)


if __name__ == "__main__":
    import json
    import sys
    sys.path.insert(0, str(Path(__file__).resolve().parent.parent))
    from tools.gen_lean import _write
    ch, fb = [], []
    generate(ch, fb, _write)
    print(json.dumps(dict(changed=ch, fallbacks=fb), indent=1))
