#!/bin/sh
# usage: tools/integrate_diff.sh <tag>  — files that differ between an agent workspace and /verif
W=/var/tmp/w/$1/verif
cd "$W" || exit 1
find . -type f \( -name '*.lean' -o -name '*.py' -o -name '*.json' -o -name '*.md' -o -name '*.sh' -o -name '*.jsonl' -o -name '*.toml' \) \
  -not -path './.cache/*' -not -path './lean/.lake/*' -not -path './evidence/*' -not -path '*/__pycache__/*' -not -path './prototypes/*' -not -path './seeded/*' | sort | while read f; do
  if [ ! -f "/verif/$f" ]; then echo "NEW   $f"; elif ! cmp -s "$f" "/verif/$f"; then echo "DIFF  $f"; fi
done
