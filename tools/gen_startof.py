"""Translator: the unit-boundary methods of src/pendulum/datetime.py and src/pendulum/date.py
                ->  lean/Pendulum/Gen/StartOf.lean

Translated (each Python method becomes one Lean definition in `Pendulum.Gen.StartOf`):
  DateTime: `set` (specialised to `tz=None`), `_boundary`, `_start_of_<u>` / `_end_of_<u>` for second, minute, hour, day,
            week, month, year, decade, century, the dispatchers `start_of` / `end_of` (membership test in
            `_MODIFIERS_VALID_UNITS`, the ValueError, the `getattr(self, f"_start_of_{unit}")` method table);
  Date:     `replace`, `set`, `next`, `previous` (with their `while` loops), `_start_of_<u>` / `_end_of_<u>` for day,
            week, month, year, decade, century, `start_of` / `end_of`;
  property `days_in_month`.
A method's result is the *request* it hands to the constructor layer:
  DateTime -> `Call` = the arguments of `self.__class__.create(year, month, day, hour, minute, second, microsecond,
              tz=self.tz, fold=fold)` (that `tz` is the instance's own zone is checked structurally);
  Date     -> `DateRes.new y m d` = `self.__class__(y, m, d)`, or `DateRes.shift n` = the Date n days after the
              instance (`self` = shift 0, `self.add(days=k)`, `self.subtract(days=k)`).
Everything that is integer arithmetic / boolean logic / control flow is translated; what is *not* pendulum source
is a field of the parameter record `Inst` (see the generated header): the instance's own fields, `tz is not None`,
`tz.utcoffset(naive)`, the stdlib `weekday()` / `calendar.monthrange`, the calendar shift `date.add(days=n)`
(helpers.add_duration, property C03) and the module globals `pendulum._WEEK_STARTS_AT/_WEEK_ENDS_AT`.
A `while` loop becomes a structurally recursive definition over an explicit iteration bound `fuel`.

Subset: integer expressions (+ - *, unary -, `//` `%`, constants of constants.py, `WeekDay.<NAME>`), comparisons,
and/or/not, conditional expressions, `int(<bool>)`, tuples of integers with `*`-expansion, `x is None` on optional
parameters, `datetime.datetime(...)`, `.replace(fold=…)`, `tz.utcoffset(…)`, `self.date()`, `.add/.subtract(days=…)`,
calls of other translated methods; statements: assignment, `if`/`else` (merged when both arms only assign, duplicated
continuation otherwise), `raise E(...)`, `return`, `while`. Anything else is a fallback (prefix "StartOf:").
"""
from __future__ import annotations

import ast
import os
from pathlib import Path

REPO = Path(os.environ.get("VERIF_REPO", "/repo"))
UNITS_DT = ["second", "minute", "hour", "day", "week", "month", "year", "decade", "century"]
UNITS_DATE = ["day", "week", "month", "year", "decade", "century"]
FIELDS7 = ["year", "month", "day", "hour", "minute", "second", "microsecond"]


class Bad(Exception):
    pass


def L(v):
    return f"({v} : Int)"


# ----------------------------------------------------------------------------- symbolic values

class I:            # Int term
    def __init__(self, e):
        self.e = e


class Bv:           # Bool term; const = statically known truth value (for `x is None` on a known None)
    def __init__(self, e, const=None):
        self.e, self.const = e, const


class OI:           # Option Int term (an `int | None` parameter)
    def __init__(self, e):
        self.e = e


class TUP:          # tuple of Int terms
    def __init__(self, items):
        self.items = items


class NDT:          # a naive `datetime.datetime`: seven Int terms and a Bool fold
    def __init__(self, f, fold):
        self.f, self.fold = f, fold


class DSH:          # the calendar date `n` days after the instance's date (n an Int term)
    def __init__(self, n):
        self.n = n


class RES:          # a Lean term of a method's result type; raises = it is an `Except String ty`
    def __init__(self, e, ty, raises=False):
        self.e, self.ty, self.raises = e, ty, raises


class STRC:
    def __init__(self, s):
        self.s = s


class _Tok:
    def __init__(self, n):
        self.n = n


SELF, TZV, NONE = _Tok("self"), _Tok("self.tz"), _Tok("None")

LEAN_TY = {"I": "Int", "B": "Bool", "OI": "Option Int"}
RET_TY = {"Call": "Call", "DateRes": "DateRes", "Shift": "Int"}


class Sig:
    def __init__(self, lean, params, ret, raises, fuel):
        self.lean, self.params, self.ret, self.raises, self.fuel = lean, params, ret, raises, fuel


# ----------------------------------------------------------------------------- class context

class Cx:
    """one Python class (kind 'dt' = DateTime, 'date' = Date): its methods (own first, then inherited from Date)"""

    def __init__(self, kind, trees, consts, weekdays, out):
        self.kind, self.consts, self.weekdays, self.out = kind, consts, weekdays, out
        self.own, self.inh = {}, {}
        order = ["DateTime", "Date"] if kind == "dt" else ["Date"]
        for i, cname in enumerate(order):
            cls = trees[cname]
            for n in cls.body:
                if isinstance(n, ast.FunctionDef):
                    tgt = self.own if i == 0 else self.inh
                    if any(isinstance(d, ast.Attribute) and d.attr == "setter" for d in n.decorator_list):
                        continue
                    tgt.setdefault(n.name, n)
        self.cls = trees[order[0]]
        self.trees = trees
        self.sigs: dict = {}
        self.nloop = 0

    def method(self, name):
        return self.own.get(name) or self.inh.get(name)

    def is_prop(self, fn):
        return any(isinstance(d, ast.Name) and d.id == "property" for d in fn.decorator_list)

    def pre(self, name):
        return f"{self.kind}_{name.lstrip('_')}"

    def classvar(self, name):
        for c in ([self.cls] + ([self.trees["Date"]] if self.kind == "dt" else [])):
            for n in c.body:
                tgt = None
                if isinstance(n, ast.AnnAssign) and isinstance(n.target, ast.Name):
                    tgt, val = n.target.id, n.value
                elif isinstance(n, ast.Assign) and len(n.targets) == 1 and isinstance(n.targets[0], ast.Name):
                    tgt, val = n.targets[0].id, n.value
                if tgt == name:
                    return val
        return None


def body_of(fn):
    return [s for s in fn.body if not (isinstance(s, ast.Expr) and isinstance(s.value, ast.Constant))]


def ann_kind(a):
    if a is None:
        return None
    s = ast.unparse(a).replace(" ", "")
    if s in ("int", "WeekDay", "SupportsIndex"):
        return "I"
    if s in ("int|None", "WeekDay|None", "SupportsIndex|None"):
        return "OI"
    if s == "bool":
        return "B"
    if s == "str":
        return "S"
    return None


# ----------------------------------------------------------------------------- method translator

class M:
    def __init__(self, cx: Cx, fn, static=None):
        self.cx, self.fn, self.n = cx, fn, 0
        self.static = static or {}
        self.retkinds = set()
        self.raises = may_raise(cx, fn)
        self.fuel = needs_fuel(cx, fn)
        self.aux = []

    def fresh(self, base):
        self.n += 1
        return f"{base.strip('_')}_{self.n}"

    # ---- expressions
    def const_int(self, x, env):
        if isinstance(x, ast.Constant) and isinstance(x.value, int) and not isinstance(x.value, bool):
            return x.value
        if isinstance(x, ast.Name) and x.id not in env and isinstance(self.cx.consts.get(x.id), int) \
                and not isinstance(self.cx.consts.get(x.id), bool):
            return self.cx.consts[x.id]
        if isinstance(x, ast.Attribute) and isinstance(x.value, ast.Name) and x.value.id == "WeekDay" \
                and "WeekDay" not in env and x.attr in self.cx.weekdays:
            return self.cx.weekdays[x.attr]
        return None

    def i(self, x, env):
        v = self.ev(x, env)
        if isinstance(v, I):
            return v.e
        if isinstance(v, Bv):
            return f"(if {v.e} then (1 : Int) else 0)"
        raise Bad("integer expected: " + ast.unparse(x)[:100])

    def b(self, x, env):
        if isinstance(x, ast.Constant) and x.value in (0, 1) and not isinstance(x.value, bool):
            return Bv("true" if x.value else "false", const=bool(x.value))      # a literal 0/1 used as a flag
        v = self.ev(x, env)
        if isinstance(v, Bv):
            return v
        if isinstance(v, I):                    # truthiness of an integer
            return Bv(f"(decide ({v.e} ≠ 0))")
        raise Bad("condition expected: " + ast.unparse(x)[:100])

    def dsh_fields(self, n):
        return [f"(self.date_add_days {n}).1", f"(self.date_add_days {n}).2.1", f"(self.date_add_days {n}).2.2"]

    def as_dsh(self, v):
        if v is SELF and self.cx.kind == "date":
            return DSH(L(0))
        if isinstance(v, DSH):
            return v
        return None

    # scalar values that can be let-bound, merged over an `if`, or carried through a loop: (tag, Lean type, term)
    def kind_of(self, v):
        if isinstance(v, I):
            return ("I", "Int", v.e)
        if isinstance(v, Bv):
            return ("B", "Bool", v.e)
        d = self.as_dsh(v)
        if d is not None:
            return ("D", "Int", d.n)
        return None

    def make(self, tag, name):
        return {"I": I, "B": Bv, "D": DSH}[tag](name)

    BINDABLE = {"Shift": "D"}          # result types of translated methods that can be bound to a name -> tag
    CTX_DECL, CTX_ARGS = "(self : Inst)", "self"      # what an auxiliary loop definition closes over

    def ev(self, x, env):
        cx = self.cx
        cv = self.const_int(x, env)
        if cv is not None:
            return I(L(cv))
        if isinstance(x, ast.Constant):
            if x.value is None:
                return NONE
            if isinstance(x.value, bool):
                return Bv("true" if x.value else "false", const=x.value)
            if isinstance(x.value, str):
                return STRC(x.value)
        if isinstance(x, ast.Name):
            if x.id == "self":
                return SELF
            if x.id in env:
                return env[x.id]
            raise Bad("unknown name " + x.id)
        if isinstance(x, ast.Tuple):
            return TUP([self.i(e, env) for e in x.elts])
        if isinstance(x, ast.UnaryOp) and isinstance(x.op, ast.USub):
            return I(f"(-{self.i(x.operand, env)})")
        if isinstance(x, ast.UnaryOp) and isinstance(x.op, ast.Not):
            v = self.b(x.operand, env)
            return Bv(f"(!{v.e})", None if v.const is None else (not v.const))
        if isinstance(x, ast.BinOp):
            if type(x.op) in (ast.Add, ast.Sub, ast.Mult):
                o = {ast.Add: "+", ast.Sub: "-", ast.Mult: "*"}[type(x.op)]
                return I(f"({self.i(x.left, env)} {o} {self.i(x.right, env)})")
            if type(x.op) in (ast.FloorDiv, ast.Mod):
                rv = self.const_int(x.right, env)
                a, bb = self.i(x.left, env), self.i(x.right, env)
                if rv is not None and rv > 0:
                    return I(f"({a} {'/' if isinstance(x.op, ast.FloorDiv) else '%'} {bb})")
                return I(f"({'Int.fdiv' if isinstance(x.op, ast.FloorDiv) else 'Int.fmod'} {a} {bb})")
        if isinstance(x, ast.BoolOp):
            vs = [self.b(v, env) for v in x.values]
            op = " && " if isinstance(x.op, ast.And) else " || "
            return Bv("(" + op.join(v.e for v in vs) + ")")
        if isinstance(x, ast.Compare) and len(x.ops) == 1:
            return self.compare(x, env)
        if isinstance(x, ast.IfExp):
            c = self.b(x.test, env)
            if c.const is not None:
                return self.ev(x.body if c.const else x.orelse, env)
            a, bb = self.ev(x.body, env), self.ev(x.orelse, env)
            # `x if x is not None else d` on an optional parameter
            if isinstance(a, OI) and isinstance(bb, I) and ast.unparse(x.test) == f"{ast.unparse(x.body)} is not None":
                return I(f"(Option.getD {a.e} {bb.e})")
            if isinstance(a, TUP) and isinstance(bb, TUP) and len(a.items) == len(bb.items):
                return TUP([f"(if {c.e} then {p} else {q})" for p, q in zip(a.items, bb.items)])
            if isinstance(a, I) and isinstance(bb, I):
                return I(f"(if {c.e} then {a.e} else {bb.e})")
            if isinstance(a, Bv) and isinstance(bb, Bv):
                return Bv(f"(if {c.e} then {a.e} else {bb.e})")
            raise Bad("conditional expression outside the subset: " + ast.unparse(x)[:100])
        if isinstance(x, ast.Attribute):
            return self.attribute(x, env)
        if isinstance(x, ast.Call):
            return self.call(x, env)
        raise Bad("expression outside the subset: " + ast.unparse(x)[:120])

    def compare(self, x, env):
        op = x.ops[0]
        if isinstance(op, (ast.Is, ast.IsNot)):
            r = self.ev(x.comparators[0], env)
            if r is not NONE:
                raise Bad("`is` against something other than None")
            v = self.ev(x.left, env)
            neg = isinstance(op, ast.IsNot)
            if v is NONE:
                return Bv("false" if neg else "true", const=not neg)
            if isinstance(v, (I, Bv, DSH, TUP)) or v is SELF:
                return Bv("true" if neg else "false", const=neg)
            if isinstance(v, OI):
                return Bv(f"({v.e}).isSome" if neg else f"({v.e}).isNone")
            if v is TZV:
                return Bv("self.hasTz" if neg else "(!self.hasTz)")
            raise Bad("`is None` on an unsupported value")
        a, bb = self.ev(x.left, env), self.ev(x.comparators[0], env)
        o = {ast.Eq: "=", ast.NotEq: "≠", ast.Lt: "<", ast.LtE: "≤", ast.Gt: ">", ast.GtE: "≥"}.get(type(op))
        if o is None:
            raise Bad("comparison outside the subset: " + ast.unparse(x)[:100])
        if isinstance(a, I) and isinstance(bb, I):
            return Bv(f"(decide ({a.e} {o} {bb.e}))")
        if isinstance(a, Bv) and isinstance(bb, Bv) and o in ("=", "≠"):
            return Bv(f"({a.e} {'==' if o == '=' else '!='} {bb.e})")
        if isinstance(a, (I, Bv)) and isinstance(bb, (I, Bv)):
            return Bv(f"(decide ({self._asint(a)} {o} {self._asint(bb)}))")
        raise Bad("comparison of unsupported values: " + ast.unparse(x)[:100])

    @staticmethod
    def _asint(v):
        return v.e if isinstance(v, I) else f"(if {v.e} then (1 : Int) else 0)"

    def attribute(self, x, env):
        cx = self.cx
        src = ast.unparse(x)
        if src == "pendulum._WEEK_STARTS_AT":
            return I("self.week_starts_at")
        if src == "pendulum._WEEK_ENDS_AT":
            return I("self.week_ends_at")
        v = self.ev(x.value, env)
        a = x.attr
        if v is SELF:
            own = FIELDS7 if cx.kind == "dt" else FIELDS7[:3]
            if a in own:
                return I("self." + a)
            if a == "fold" and cx.kind == "dt":
                return Bv("self.fold")
            if a == "tz" and cx.kind == "dt":
                fn = cx.method("tz")
                if fn is None or ast.unparse(body_of(fn)[-1]) != "return self.timezone":
                    raise Bad("property tz is no longer `return self.timezone`")
                return TZV
            fn = cx.method(a)
            if fn is not None and cx.is_prop(fn):
                if a == "day_of_week":
                    if ast.unparse(body_of(fn)[-1]) != "return WeekDay(self.weekday())":
                        raise Bad("property day_of_week is no longer `WeekDay(self.weekday())`")
                    return I(f"(self.weekday_at {L(0)})")
                if a in PROPS and a in PROPS_DONE:
                    return I(f"({a} self)")
            raise Bad("unsupported attribute self." + a)
        d = self.as_dsh(v)
        if d is not None:
            if a in ("year", "month", "day"):
                return I(self.dsh_fields(d.n)[("year", "month", "day").index(a)])
            if a == "day_of_week":
                fn = cx.trees["Date"]
                return I(f"(self.weekday_at {d.n})")
        raise Bad("attribute outside the subset: " + src[:100])

    def args7(self, call, env, upto=7):
        out = []
        for a in call.args:
            if isinstance(a, ast.Starred):
                t = self.ev(a.value, env)
                if not isinstance(t, TUP):
                    raise Bad("`*` of something that is not a tuple of integers")
                out += t.items
            else:
                out.append(self.i(a, env))
        if len(out) > upto:
            raise Bad("too many positional arguments: " + ast.unparse(call)[:100])
        return out

    def call(self, x, env):
        cx = self.cx
        f = x.func
        fsrc = ast.unparse(f)
        kws = {k.arg: k.value for k in x.keywords}
        if None in kws:
            raise Bad("**kwargs")
        if fsrc == "cast" and len(x.args) == 2:
            return self.ev(x.args[1], env)
        if fsrc == "int" and len(x.args) == 1 and not kws:
            v = self.ev(x.args[0], env)
            if isinstance(v, (I, Bv)):
                return v                      # int() of an integer / of a bool used as a 0/1 flag
        if fsrc == "WeekDay" and len(x.args) == 1 and not kws:
            v = self.ev(x.args[0], env)
            if isinstance(v, I):
                return v
        if fsrc == "datetime.datetime" and cx.kind == "dt":
            if set(kws) - {"fold"}:
                raise Bad("datetime.datetime(...) with keywords")
            fs = self.args7(x, env)
            if len(fs) < 3:
                raise Bad("datetime.datetime(...) with fewer than 3 fields")
            fs += [L(0)] * (7 - len(fs))
            fold = self.b(kws["fold"], env).e if "fold" in kws else "false"
            return NDT(fs, fold)
        if fsrc == "self.__class__.create" and cx.kind == "dt":
            if set(kws) != {"tz", "fold"}:
                raise Bad("create(...) must be called with exactly tz= and fold=: " + ast.unparse(x)[:120])
            if self.ev(kws["tz"], env) is not TZV:
                raise Bad("create(...) is no longer called with the instance's own tz")
            fs = self.args7(x, env)
            if len(fs) != 7:
                raise Bad("create(...) is not given all seven fields")
            fold = self.ev(kws["fold"], env)
            if not isinstance(fold, Bv):
                raise Bad("create(... fold=) is not a 0/1 flag")
            return RES("(Call.mk " + " ".join(fs) + " " + fold.e + ")", "Call")
        if fsrc == "self.__class__" and cx.kind == "date" and not kws and len(x.args) == 3:
            fs = [self.i(a, env) for a in x.args]
            return RES("(DateRes.new " + " ".join(fs) + ")", "DateRes")
        if isinstance(f, ast.Attribute):
            recv = self.ev(f.value, env)
            name = f.attr
            if isinstance(recv, NDT) and name == "replace" and not x.args and set(kws) == {"fold"}:
                return NDT(recv.f, self.b(kws["fold"], env).e)
            if recv is TZV and name == "utcoffset" and len(x.args) == 1 and not kws:
                d = self.ev(x.args[0], env)
                if isinstance(d, NDT):
                    return I(f"(self.utcoffset {d.fold} " + " ".join(d.f) + ")")
            if recv is SELF and name == "date" and cx.kind == "dt" and not x.args and not kws:
                fn = cx.method("date")
                if fn is None or ast.unparse(body_of(fn)[-1]) != "return Date(self.year, self.month, self.day)":
                    raise Bad("DateTime.date() is no longer `Date(self.year, self.month, self.day)`")
                return DSH(L(0))
            d = self.as_dsh(recv)
            if d is not None and name in ("add", "subtract") and not x.args and set(kws) == {"days"}:
                self.check_date_add_subtract()
                k = self.i(kws["days"], env)
                return DSH(f"({d.n} {'+' if name == 'add' else '-'} {k})")
            if d is not None and name in ("start_of", "end_of") and len(x.args) == 1 and not kws and cx.kind == "date":
                u = self.ev(x.args[0], env)
                if isinstance(u, STRC):
                    valid = valid_units(cx)
                    tgt = cx.method(f"_{name}_{u.s}")
                    if u.s in valid and tgt is not None and ast.unparse(body_of(tgt)[-1]) == "return self" \
                            and len(body_of(tgt)) == 1:
                        return d               # `_start_of_day` / `_end_of_day` return the receiver
                raise Bad(f"{name}(...) on a computed date is only supported for a unit whose method is `return self`")
            if recv is SELF and name in cx.sigs:
                return self.call_method(name, x, env)
            if recv is SELF and cx.method(name) is not None:
                raise Bad(f"call of self.{name}(...), which is not translated")
        raise Bad("call outside the subset: " + ast.unparse(x)[:120])

    def check_date_add_subtract(self):
        d = self.cx.trees["Date"]
        sub = next((n for n in d.body if isinstance(n, ast.FunctionDef) and n.name == "subtract"), None)
        add = next((n for n in d.body if isinstance(n, ast.FunctionDef) and n.name == "add"), None)
        if sub is None or ast.unparse(body_of(sub)[-1]) != \
                "return self.add(years=-years, months=-months, weeks=-weeks, days=-days)":
            raise Bad("Date.subtract is no longer `self.add(years=-years, months=-months, weeks=-weeks, days=-days)`")
        want = ("dt = add_duration(date(self.year, self.month, self.day), years=years, months=months, weeks=weeks, "
                "days=days)\nreturn self.__class__(dt.year, dt.month, dt.day)")
        if add is None or "\n".join(ast.unparse(s) for s in body_of(add)) != want:
            raise Bad("Date.add is no longer add_duration(date(y, m, d), ...) re-wrapped in self.__class__")

    def call_method(self, name, x, env):
        sig = self.cx.sigs[name]
        kws = {k.arg: k.value for k in x.keywords}
        if len(x.args) > len(sig.params):
            raise Bad("too many arguments for " + name)
        given = {}
        for p, a in zip(sig.params, x.args):
            given[p[0]] = a
        for k, v in kws.items():
            if k in given or k not in [p[0] for p in sig.params]:
                raise Bad(f"unexpected argument {k} for {name}")
            given[k] = v
        terms = []
        for pname, kind, default in sig.params:
            if pname in given:
                v = self.ev(given[pname], env)
                if kind == "I" and isinstance(v, I):
                    terms.append(v.e)
                elif kind == "B" and isinstance(v, Bv):
                    terms.append(v.e)
                elif kind == "OI" and isinstance(v, I):
                    terms.append(f"(some {v.e})")
                elif kind == "OI" and isinstance(v, OI):
                    terms.append(v.e)
                elif kind == "OI" and v is NONE:
                    terms.append("none")
                else:
                    raise Bad(f"argument {pname} of {name} has an unsupported value")
            else:
                if default is None:
                    raise Bad(f"argument {pname} of {name} missing")
                terms.append(default)
        t = "(" + " ".join([sig.lean, "self"] + (["fuel"] if sig.fuel else []) + terms) + ")"
        return RES(t, sig.ret, sig.raises)

    # ---- statements
    def bind(self, name, v, env):
        """(let-prefix, env') for `name = v`"""
        env = dict(env)
        if isinstance(v, I) or isinstance(v, Bv):
            n = self.fresh(name)
            ty = "Int" if isinstance(v, I) else "Bool"
            env[name] = I(n) if isinstance(v, I) else Bv(n)
            return f"let {n} : {ty} := {v.e}; ", env
        if isinstance(v, TUP):
            pre, items = "", []
            for k, it in enumerate(v.items):
                n = self.fresh(f"{name}{k}")
                pre += f"let {n} : Int := {it}; "
                items.append(n)
            env[name] = TUP(items)
            return pre, env
        k = self.kind_of(v)
        if k is not None and v is not SELF:
            n = self.fresh(name)
            env[name] = self.make(k[0], n)
            return f"let {n} : {k[1]} := {k[2]}; ", env
        if isinstance(v, (NDT, OI, STRC)) or v in (SELF, TZV, NONE) or self.substitutable(v):
            env[name] = v
            return "", env
        raise Bad(f"assignment of an unsupported value to {name}")

    def substitutable(self, v):
        return False

    def target(self, s):
        if isinstance(s, ast.AnnAssign) and s.value is not None and isinstance(s.target, ast.Name):
            return s.target.id, s.value
        if isinstance(s, ast.Assign) and len(s.targets) == 1 and isinstance(s.targets[0], ast.Name):
            return s.targets[0].id, s.value
        return None, None

    def simple(self, stmts, env):
        """straight-line statements (assignments, nested assignment-only ifs) -> (let-prefix, env); None if not simple"""
        pre = ""
        for s in stmts:
            name, val = self.target(s)
            if name is not None:
                v = self.ev(val, env)
                if isinstance(v, RES):
                    return None
                p, env = self.bind(name, v, env)
                pre += p
                continue
            if isinstance(s, ast.If):
                c = self.b(s.test, env)
                if c.const is not None:
                    r = self.simple(s.body if c.const else s.orelse, env)
                    if r is None:
                        return None
                    pre += r[0]
                    env = r[1]
                    continue
                # `if x is None: x = d` on an optional parameter
                if (len(s.body) == 1 and not s.orelse and self.target(s.body[0])[0] is not None
                        and ast.unparse(s.test) == f"{self.target(s.body[0])[0]} is None"
                        and isinstance(env.get(self.target(s.body[0])[0]), OI)):
                    nm, val = self.target(s.body[0])
                    d = self.ev(val, env)
                    if not isinstance(d, I):
                        return None
                    p, env = self.bind(nm, I(f"(Option.getD {env[nm].e} {d.e})"), env)
                    pre += p
                    continue
                rt, re_ = self.simple(s.body, env) or (None, None), self.simple(s.orelse, env) or (None, None)
                if rt[0] is None or re_[0] is None:
                    return None
                (pt, et), (pe, ee) = rt, re_
                ws = [w for w in assigned(s.body) + assigned(s.orelse)]
                ws = list(dict.fromkeys(ws))
                live = []
                for w in ws:
                    if w in et and w in ee:
                        live.append(w)
                    # a name assigned in one arm only and unknown before is local to that arm
                if not live:
                    continue
                vals_t, vals_e, kinds, tys = [], [], [], []
                for w in live:
                    a, bb = et[w], ee[w]
                    ka, kb = self.kind_of(a), self.kind_of(bb)
                    if ka is not None and kb is not None and ka[0] == kb[0]:
                        kinds.append(ka[0]); tys.append(ka[1]); vals_t.append(ka[2]); vals_e.append(kb[2])
                    elif a is bb:
                        kinds.append(None); tys.append(None); vals_t.append(None); vals_e.append(None)
                    else:
                        return None
                idx = [k for k, kd in enumerate(kinds) if kd is not None]
                if not idx:
                    continue
                if len(idx) == 1:
                    k = idx[0]
                    n = self.fresh(live[k])
                    pre += (f"let {n} : {tys[k]} := if {c.e} then ({pt}{vals_t[k]}) else ({pe}{vals_e[k]}); ")
                    env = dict(env)
                    env[live[k]] = self.make(kinds[k], n)
                else:
                    r = self.fresh("r")
                    tt = "(" + ", ".join(vals_t[k] for k in idx) + ")"
                    te = "(" + ", ".join(vals_e[k] for k in idx) + ")"
                    ty = " × ".join(tys[k] for k in idx)
                    pre += f"let {r} : {ty} := if {c.e} then ({pt}{tt}) else ({pe}{te}); "
                    env = dict(env)
                    for j, k in enumerate(idx):
                        n = self.fresh(live[k])
                        proj = r + ".2" * j + (".1" if j < len(idx) - 1 else "")
                        pre += f"let {n} : {tys[k]} := {proj}; "
                        env[live[k]] = self.make(kinds[k], n)
                continue
            return None
        return pre, env

    def ret(self, v):
        if isinstance(v, RES):
            self.retkinds.add(v.ty)
            if v.raises:
                return f"\x00X|{v.ty}|{v.e}\x01"
            return f"\x00R|{v.ty}|{v.e}\x01"
        d = self.as_dsh(v)
        if d is not None:
            self.retkinds.add("Shift")
            return f"\x00R|Shift|{d.n}\x01"
        raise Bad("return of an unsupported value")

    def block(self, stmts, env):
        if not stmts:
            raise Bad("control falls off the end of " + self.fn.name)
        s, rest = stmts[0], stmts[1:]
        if isinstance(s, ast.Expr) and isinstance(s.value, ast.Constant):
            return self.block(rest, env)
        if isinstance(s, ast.Return):
            if s.value is None:
                raise Bad("bare return")
            return self.ret(self.ev(s.value, env))
        if isinstance(s, ast.Raise):
            exc = s.exc
            name = exc.func.id if isinstance(exc, ast.Call) and isinstance(exc.func, ast.Name) else None
            if name is None:
                raise Bad("raise of something that is not `Name(...)`")
            return f'\x00E|{name}\x01'
        r = self.simple([s], env)
        if r is not None:
            return r[0] + self.block(rest, r[1])
        name, val = self.target(s)
        if name is not None:
            v = self.ev(val, env)
            if isinstance(v, RES) and v.ty in self.BINDABLE:
                n = self.fresh(name)
                env2 = dict(env)
                env2[name] = self.make(self.BINDABLE[v.ty], n)
                if v.raises:
                    return (f"(match {v.e} with | .error err => \x00P|err\x01 | .ok {n} => ({self.block(rest, env2)}))")
                return f"let {n} : {RET_TY[v.ty]} := {v.e}; " + self.block(rest, env2)
            raise Bad(f"assignment of a {v.ty if isinstance(v, RES) else 'n unsupported'} value to {name}")
        if isinstance(s, ast.If):
            c = self.b(s.test, env)
            if c.const is not None:
                return self.block(list(s.body if c.const else s.orelse) + rest, env)
            th = self.block(list(s.body) + ([] if terminates(s.body) else rest), env)
            el = self.block(list(s.orelse) + ([] if terminates(s.orelse) else rest), env)
            return f"if {c.e} then ({th}) else ({el})"
        if isinstance(s, ast.While) and not s.orelse:
            return self.loop(s, rest, env)
        r = self.other_stmt(s, rest, env)
        if r is not None:
            return r
        raise Bad("statement outside the subset: " + ast.unparse(s)[:120])

    def other_stmt(self, s, rest, env):
        return None

    def loop(self, s, rest, env):
        """`while c: <assignments>` -> an auxiliary definition recursive over `fuel`"""
        ws = list(dict.fromkeys(assigned(s.body)))
        if not ws or any(w not in env for w in ws):
            raise Bad("while loop assigning a name unknown before the loop")
        kinds, tyl = [], []
        for w in ws:
            k = self.kind_of(env[w])
            if k is None:
                raise Bad("while loop over an unsupported value")
            kinds.append(k[0])
            tyl.append(k[1])
        # other scalar names visible in the loop become parameters of the auxiliary definition
        used = {n.id for n in ast.walk(s) if isinstance(n, ast.Name)}
        params = [(k, v) for k, v in env.items() if k in used and k not in ws and isinstance(v, (I, Bv))]
        lname = f"{self.cx.pre(self.fn.name)}_loop"
        if any(a[0] == lname for a in self.aux):
            lname += str(len(self.aux) + 1)
        tyname = dict(zip(kinds, tyl))
        inner = {k: (I(k) if isinstance(v, I) else Bv(k)) for k, v in params}
        for w, kd in zip(ws, kinds):
            inner[w] = self.make(kd, w)
        sub = type(self)(self.cx, self.fn)
        c = sub.b(s.test, inner)
        r = sub.simple(s.body, inner)
        if r is None:
            raise Bad("while body outside the subset (assignments only)")
        pre, env_after = r

        def val(v):
            return sub.kind_of(v)[2]
        nxt = " ".join(f"({pre}{val(env_after[w])})" for w in ws)
        pdecl = "".join(f" ({k} : {'Int' if isinstance(v, I) else 'Bool'})" for k, v in params)
        sty = " → ".join(tyname[k] for k in kinds)
        rty = " × ".join(tyname[k] for k in kinds)
        cur = ", ".join(ws)
        tup = ws[0] if len(ws) == 1 else "(" + ", ".join(ws) + ")"
        pargs = "".join(f" {k}" for k, _ in params)
        self.aux.append((lname,
                         f"/-- `{ast.unparse(s.test)[:80]}` loop of `{self.fn.name}`; `fuel` bounds the iterations -/\n"
                         f"def {lname} {self.CTX_DECL}{pdecl} : Nat → {sty} → {rty}\n"
                         f"  | 0, {cur} => {tup}\n"
                         f"  | fuel+1, {cur} => if {c.e} then {lname} {self.CTX_ARGS}{pargs} fuel {nxt} else {tup}\n"))
        call = f"({lname} {self.CTX_ARGS}" + "".join(f" {v.e}" for _, v in params) + " fuel " + \
            " ".join(self.kind_of(env[w])[2] for w in ws) + ")"
        env2 = dict(env)
        if len(ws) == 1:
            n = self.fresh(ws[0])
            env2[ws[0]] = self.make(kinds[0], n)
            return f"let {n} : {tyname[kinds[0]]} := {call}; " + self.block(rest, env2)
        r = self.fresh("r")
        out = f"let {r} : {rty} := {call}; "
        for j, (w, kd) in enumerate(zip(ws, kinds)):
            n = self.fresh(w)
            out += f"let {n} : {tyname[kd]} := {r + '.2' * j + ('.1' if j < len(ws) - 1 else '')}; "
            env2[w] = self.make(kd, n)
        return out + self.block(rest, env2)


def assigned(stmts):
    out = []
    for s in stmts:
        if isinstance(s, ast.Assign):
            out += [t.id for t in s.targets if isinstance(t, ast.Name)]
        elif isinstance(s, ast.AnnAssign) and isinstance(s.target, ast.Name):
            out.append(s.target.id)
        elif isinstance(s, ast.If):
            out += assigned(s.body) + assigned(s.orelse)
    return out


def terminates(stmts):
    if not stmts:
        return False
    s = stmts[-1]
    if isinstance(s, (ast.Return, ast.Raise)):
        return True
    if isinstance(s, ast.If):
        return terminates(s.body) and terminates(s.orelse)
    return False


def _self_calls(fn):
    """names of the methods a function calls (on any receiver; `x.first_of("month", …)` also counts as `_first_of_month`)"""
    for n in ast.walk(fn):
        if isinstance(n, ast.Call) and isinstance(n.func, ast.Attribute):
            yield n.func.attr
            if n.args and isinstance(n.args[0], ast.Constant) and isinstance(n.args[0].value, str):
                yield f"_{n.func.attr}_{n.args[0].value}"


def may_raise(cx, fn):
    if any(isinstance(n, ast.Raise) for n in ast.walk(fn)):
        return True
    return any(c in cx.sigs and cx.sigs[c].raises for c in _self_calls(fn))


def needs_fuel(cx, fn):
    if any(isinstance(n, ast.While) for n in ast.walk(fn)):
        return True
    return any(c in cx.sigs and cx.sigs[c].fuel for c in _self_calls(fn))


def valid_units(cx):
    v = cx.classvar("_MODIFIERS_VALID_UNITS")
    if not isinstance(v, ast.List) or not all(isinstance(e, ast.Constant) and isinstance(e.value, str) for e in v.elts):
        raise Bad("_MODIFIERS_VALID_UNITS is no longer a list of string literals")
    return [e.value for e in v.elts]


PROPS = ("days_in_month",)
PROPS_DONE: set = set()


def finish(term, ret, raises, coerce=None):
    """replace the return / raise markers once the result type of the method is known"""
    out, i = "", 0
    while True:
        j = term.find("\x00", i)
        if j < 0:
            return out + term[i:]
        k = term.index("\x01", j)
        out += term[i:j]
        parts = term[j + 1:k].split("|", 2)
        if parts[0] == "E":
            out += f'(.error "{parts[1]}")'
        elif parts[0] == "P":
            out += f"(.error {parts[1]})"
        else:
            tag, ty, e = parts
            if ty == "Shift" and ret == "DateRes":
                if tag == "X":
                    e = f"(match {e} with | .error err => .error err | .ok n => .ok (DateRes.shift n))"
                    out += e
                    i = k + 1
                    continue
                e = f"(DateRes.shift {e})"
            elif ty != ret:
                c = coerce(ty, ret, e) if coerce and tag == "R" else None
                if c is None:
                    raise Bad(f"a {ty} is returned where a {ret} is expected")
                e = c
            if tag == "X":
                out += e
            else:
                out += f"(.ok {e})" if raises else e
        i = k + 1


def layout(term):
    """one `let` per line at nesting depth 0"""
    out, depth, i = "", 0, 0
    while i < len(term):
        ch = term[i]
        if ch == "(":
            depth += 1
        elif ch == ")":
            depth -= 1
        if depth == 0 and term.startswith("; ", i):
            out += "\n  "
            i += 2
            continue
        out += ch
        i += 1
    return out


def translate_method(cx: Cx, name, static=None, doc=None):
    fn = cx.method(name)
    if fn is None:
        raise Bad("method not found")
    static = static or {}
    params, env = [], {}
    args = fn.args
    if args.vararg or args.kwarg or args.kwonlyargs or args.posonlyargs:
        raise Bad("unsupported parameter list")
    pos = args.args[1:]
    defaults = [None] * (len(pos) - len(args.defaults)) + list(args.defaults)
    for a, d in zip(pos, defaults):
        if a.arg in static:
            if static[a.arg] == "NONE":
                if not (isinstance(d, ast.Constant) and d.value is None):
                    raise Bad(f"parameter {a.arg} no longer defaults to None")
                env[a.arg] = NONE
                continue
        kind = ann_kind(a.annotation)
        if kind not in ("I", "OI", "B"):
            raise Bad(f"parameter {a.arg}: unsupported annotation {ast.unparse(a.annotation) if a.annotation else None}")
        dflt = None
        if d is not None:
            if isinstance(d, ast.Constant) and d.value is None and kind == "OI":
                dflt = "none"
            elif isinstance(d, ast.Constant) and isinstance(d.value, bool) and kind == "B":
                dflt = "true" if d.value else "false"
            elif isinstance(d, ast.Constant) and isinstance(d.value, int) and kind == "I":
                dflt = L(d.value)
            else:
                raise Bad(f"parameter {a.arg}: unsupported default")
        params.append((a.arg, kind, dflt))
        env[a.arg] = {"I": I, "OI": OI, "B": Bv}[kind](a.arg)
    m = M(cx, fn, static)
    term = m.block(body_of(fn), env)
    kinds = m.retkinds
    if kinds <= {"Call"} and kinds:
        ret = "Call"
    elif kinds == {"Shift"}:
        ret = "Shift"
    elif kinds and kinds <= {"Shift", "DateRes"}:
        ret = "DateRes"
    else:
        raise Bad(f"mixed result kinds {sorted(kinds)}")
    term = layout(finish(term, ret, m.raises))
    lean = cx.pre(name)
    pdecl = "".join(f" ({p} : {LEAN_TY[k]})" for p, k, _ in params)
    rty = RET_TY[ret]
    if m.raises:
        rty = f"Except String {rty}"
    text = "".join(a[1] + "\n" for a in m.aux)
    if doc:
        text += f"/-- {doc} -/\n"
    text += f"def {lean} (self : Inst){' (fuel : Nat)' if m.fuel else ''}{pdecl} : {rty} :=\n  {term}\n"
    cx.sigs[name] = Sig(lean, params, ret, m.raises, m.fuel)
    return text


def translate_dispatch(cx: Cx, name, prefix):
    """`start_of` / `end_of`: membership test, ValueError, method table"""
    fn = cx.method(name)
    if fn is None or [a.arg for a in fn.args.args] != ["self", "unit"]:
        raise Bad("unexpected signature")
    body = body_of(fn)
    ok = (len(body) == 2 and isinstance(body[0], ast.If) and not body[0].orelse and len(body[0].body) == 1
          and ast.unparse(body[0].test) == "unit not in self._MODIFIERS_VALID_UNITS"
          and isinstance(body[0].body[0], ast.Raise) and isinstance(body[0].body[0].exc, ast.Call)
          and isinstance(body[0].body[0].exc.func, ast.Name)
          and isinstance(body[1], ast.Return))
    if not ok:
        raise Bad("no longer `if unit not in self._MODIFIERS_VALID_UNITS: raise E(...)` + `return getattr(...)()`")
    exc = body[0].body[0].exc.func.id
    r = body[1].value
    if isinstance(r, ast.Call) and ast.unparse(r.func) == "cast" and len(r.args) == 2:
        r = r.args[1]
    want = f"getattr(self, f'{prefix}{{unit}}')()"
    if ast.unparse(r) != want:
        raise Bad(f"the dispatch is no longer `{want}`: {ast.unparse(r)[:80]}")
    units = valid_units(cx)
    ret = "Call" if cx.kind == "dt" else "DateRes"
    fuel = False
    arms = []
    names = sorted({n for n in list(cx.own) + list(cx.inh) if n.startswith(prefix)} |
                   {prefix + u for u in units}, key=lambda n: (units.index(n[len(prefix):]) if n[len(prefix):] in units else 99, n))
    for mname in names:
        u = mname[len(prefix):]
        if u not in units:
            continue                       # unreachable through the dispatcher
        if cx.method(mname) is None:
            arms.append((u, '.error "AttributeError"'))
            continue
        sig = cx.sigs.get(mname)
        if sig is None:
            raise Bad(f"{mname} is reachable but was not translated")
        fuel = fuel or sig.fuel
        call = f"{sig.lean} self" + (" fuel" if sig.fuel else "")
        if sig.ret == "Shift" and ret == "DateRes":
            if sig.raises:
                arms.append((u, f"(match {call} with | .error err => .error err | .ok n => .ok (DateRes.shift n))"))
            else:
                arms.append((u, f".ok (DateRes.shift ({call}))"))
            continue
        if sig.ret != ret:
            raise Bad(f"{mname} returns a {sig.ret}")
        arms.append((u, call if sig.raises else f".ok ({call})"))
    lean = cx.pre(name)
    chain = "".join(f'if unit = "{u}" then {t} else\n  ' for u, t in arms) + '.error "AttributeError"'
    text = (f"def {lean} (self : Inst){' (fuel : Nat)' if fuel else ''} (unit : String) : Except String {RET_TY[ret]} :=\n"
            f'  if !({cx.kind}_valid_units.contains unit) then .error "{exc}" else\n  {chain}\n')
    return text


HEADER = '''/-! GENERATED by tools/gen_startof.py from src/pendulum/datetime.py and src/pendulum/date.py — do not edit.

`Inst` is the instance a method runs on, together with everything the translated code reads that is not pendulum
source (each field is a parameter of the generated definitions):
  year … microsecond, fold   the instance's own fields (`self.year`, …; `fold` as a Bool)
  hasTz                      `self.tz is not None`
  utcoffset f y m d h mi s us  `self.tz.utcoffset(datetime.datetime(y, m, d, h, mi, s, us, fold=f))`
  weekday_at n               `weekday()` (Monday = 0) of the calendar date n days after the instance's date
                             (`self.day_of_week` = `weekday_at 0`)
  monthrange1 y m            `calendar.monthrange(y, m)[1]`
  date_add_days n            (year, month, day) of `self.date().add(days=n)` (helpers.add_duration, property C03)
  week_starts_at/ends_at     the module globals `pendulum._WEEK_STARTS_AT`, `pendulum._WEEK_ENDS_AT`
`Call y m d h mi s us fold` = `self.__class__.create(y, m, d, h, mi, s, us, tz=self.tz, fold=fold)`.
`DateRes.new y m d` = `self.__class__(y, m, d)`; `DateRes.shift n` = the Date n days after the instance.
`fuel` bounds the iterations of a `while` loop. -/
set_option linter.unusedVariables false
namespace Pendulum.Gen.StartOf

structure Inst where
  year : Int
  month : Int
  day : Int
  hour : Int
  minute : Int
  second : Int
  microsecond : Int
  fold : Bool
  hasTz : Bool
  utcoffset : Bool → Int → Int → Int → Int → Int → Int → Int → Int
  weekday_at : Int → Int
  monthrange1 : Int → Int → Int
  date_add_days : Int → Int × Int × Int
  week_starts_at : Int
  week_ends_at : Int

structure Call where
  year : Int
  month : Int
  day : Int
  hour : Int
  minute : Int
  second : Int
  microsecond : Int
  fold : Bool
deriving DecidableEq, Repr

inductive DateRes
  | new (year month day : Int)
  | shift (n : Int)
deriving DecidableEq, Repr
'''


def load_classes():
    dt_tree = ast.parse((REPO / "src/pendulum/datetime.py").read_text())
    d_tree = ast.parse((REPO / "src/pendulum/date.py").read_text())
    day_tree = ast.parse((REPO / "src/pendulum/day.py").read_text())
    trees = {}
    trees["DateTime"] = next(n for n in dt_tree.body if isinstance(n, ast.ClassDef) and n.name == "DateTime")
    trees["Date"] = next(n for n in d_tree.body if isinstance(n, ast.ClassDef) and n.name == "Date")
    wd = next(n for n in day_tree.body if isinstance(n, ast.ClassDef) and n.name == "WeekDay")
    weekdays = {}
    for n in wd.body:
        if isinstance(n, ast.Assign) and isinstance(n.targets[0], ast.Name) and isinstance(n.value, ast.Constant) \
                and isinstance(n.value.value, int):
            weekdays[n.targets[0].id] = n.value.value
    # names the translated code takes from constants.py must really be imported from there
    imported = {}
    for key, tree in (("DateTime", dt_tree), ("Date", d_tree)):
        s = set()
        for n in tree.body:
            if isinstance(n, ast.ImportFrom) and n.module == "pendulum.constants":
                s |= {a.asname or a.name for a in n.names if (a.asname or a.name) == a.name}
        imported[key] = s
    return trees, weekdays, imported


def translate_prop(cx, name):
    fn = cx.method(name)
    if fn is None or not cx.is_prop(fn):
        raise Bad("property not found")
    body = body_of(fn)
    if name == "days_in_month":
        if len(body) == 1 and ast.unparse(body[0]) == "return calendar.monthrange(self.year, self.month)[1]":
            PROPS_DONE.add(name)
            return ("/-- property `days_in_month` -/\n"
                    "def days_in_month (self : Inst) : Int :=\n  (self.monthrange1 self.year self.month)\n")
        raise Bad("days_in_month is no longer `calendar.monthrange(self.year, self.month)[1]`")
    raise Bad("unknown property")


def generate(changed, fallbacks, _write):
    from tools.gen_lean import GEN, py_constants
    PROPS_DONE.clear()
    out = [HEADER]

    def finish_file():
        out.append("end Pendulum.Gen.StartOf\n")
        _write(GEN / "StartOf.lean", "\n".join(out), changed)
        return 0

    try:
        trees, weekdays, imported = load_classes()
        allc = py_constants()
    except (OSError, SyntaxError, StopIteration) as e:
        fallbacks.append(f"StartOf: cannot read the sources: {e}")
        return finish_file()

    def emit(label, thunk):
        try:
            out.append(thunk())
            return True
        except (Bad, StopIteration, KeyError, IndexError, AttributeError, OSError, SyntaxError) as e:
            fallbacks.append(f"StartOf: cannot translate {label}: {e}")
            out.append(f"-- UNTRANSLATABLE {label}: {str(e)[:300]}\n")
            return False

    for kind, cname, units in (("dt", "DateTime", UNITS_DT), ("date", "Date", UNITS_DATE)):
        consts = {k: v for k, v in allc.items() if k in imported[cname]}
        cx = Cx(kind, trees, consts, weekdays, out)
        if kind == "dt":
            emit("property days_in_month", lambda: translate_prop(cx, "days_in_month"))
            emit("DateTime.set", lambda: translate_method(
                cx, "set", static={"tz": "NONE"}, doc="`DateTime.set` called without `tz` (every use below)"))
            emit("DateTime._boundary", lambda: translate_method(cx, "_boundary"))
        else:
            emit("Date.replace", lambda: translate_method(cx, "replace"))
            emit("Date.set", lambda: translate_method(cx, "set"))
            emit("Date.next", lambda: translate_method(cx, "next"))
            emit("Date.previous", lambda: translate_method(cx, "previous"))
        for pfx in ("_start_of_", "_end_of_"):
            names = [n for n in list(cx.own) if n.startswith(pfx)]
            for u in units:
                if pfx + u not in names:
                    names.append(pfx + u)
            for mname in names:
                emit(f"{cname}.{mname}", lambda mname=mname: translate_method(cx, mname))
        emit(f"{cname}._MODIFIERS_VALID_UNITS", lambda: (
            f"def {kind}_valid_units : List String :=\n  [" + ", ".join(f'"{u}"' for u in valid_units(cx)) + "]\n"))
        emit(f"{cname}.start_of", lambda: translate_dispatch(cx, "start_of", "_start_of_"))
        emit(f"{cname}.end_of", lambda: translate_dispatch(cx, "end_of", "_end_of_"))
    return finish_file()


if __name__ == "__main__":
    import json
    import sys
    sys.path.insert(0, str(Path(__file__).resolve().parent.parent))
    from tools.gen_lean import _write
    ch, fb = [], []
    generate(ch, fb, _write)
    print(json.dumps(dict(changed=ch, fallbacks=fb), indent=1))
