#!/bin/sh
# usage: tools/seed_run.sh <tag e.g. C04b> <property> <seed-name>   — confirm + check + record one seeded change
tag="$1"; pid="$2"; name="$3"
cd /verif || exit 2
tools/seed_test.sh "$name" "$pid" /tmp/mut/wt_$tag /tmp/mut/out_$tag 2>&1 | tail -n 3
python3 - "$tag" "$pid" "$name" <<'PY'
import json,sys
tag,pid,name=sys.argv[1:4]
m=json.load(open(f"/tmp/mut/out_{tag}/meta.json"))
res=open(f"/verif/seeded/{name}/result.txt").read().strip()
m["confirmed_by_integrator"]=res; m["detected"]=("check_exit=1" in res)
m["how_run"]=f"VERIF_REPO=<worktree with patch.diff applied> ./check {pid}"
json.dump(m,open(f"/verif/seeded/{name}/meta.json","w"),indent=1)
print("RECORDED", name, "detected=", m["detected"], "|", m.get("summary","")[:160])
PY
git -C /repo worktree remove --force /tmp/mut/wt_$tag 2>/dev/null
rm -rf /tmp/mut/out_$tag/cargo /tmp/mut/out_$tag/*.so /verif/evidence/replays
