"""regenerates lean/Pendulum.lean (library root) = every Props module that exists"""
import os, glob
root = os.path.join(os.path.dirname(os.path.dirname(os.path.abspath(__file__))), "lean")
mods = sorted(os.path.basename(f)[:-5] for f in glob.glob(os.path.join(root, "Pendulum", "Props", "C*.lean")))
open(os.path.join(root, "Pendulum.lean"), "w").write("".join(f"import Pendulum.Props.{m}\n" for m in mods))
print("root imports:", " ".join(mods))
