"""Translator: the compiled twin of `precise_diff` (rust/src/python/helpers.rs)  ->  lean/Pendulum/Gen/RsPreciseDiff.lean

A statement-level translator for the Rust subset the function uses. The body of a function is first cut into its
top-level statements (token level: `;` at depth 0, or the closing brace of an `if … else …` chain); a statement that is
translated is parsed by a small Pratt parser, the others (pyo3 calls on Python objects) are recorded verbatim as
String constants (token-joined, comments dropped).

Translated
  `let in_same_tz: bool = dtinfo1.tz == dtinfo2.tz && !dtinfo1.tz.is_empty();`  -> `in_same_tz (tz1 tz2 : Option Nat) : Bool`
        (a zone name is an `Option Nat`, the empty string is `none`)
  `let mut total_days = helpers::day_number(..) - helpers::day_number(..);`       -> `total_days`
  `if dtinfo<k>.is_datetime { …getters…; if <cond> { dtinfo<k>.shift_to_utc(); } … }`
        -> condition and position of the shift: `shift_taken_<k> (is_datetime in_same_tz : Bool) (offset total_days : Int) : Bool`;
           the other statements of the block verbatim in `endpointSource_<k>` (the shift's position marked `<<shift>>`)
  `DateTimeInfo::shift_to_utc`: `days`, `seconds`, `timestamp`                      -> `shift_timestamp`; rest verbatim (`shiftSource`)
  `let mut sign = 1;` and everything from `if dtinfo1 > dtinfo2 {` (sign, the exchange of the two structs,
  `total_days = -total_days`) through the `let mut …_diff`, the borrow cascade, the month borrow with
  `DAYS_PER_MONTHS[usize::from(leap)][month as usize]`, to `Ok(PreciseDiff { years: …, … })`
        -> ONE definition `core (dtinfo1_gt_dtinfo2 : Bool) (total_days : Int) (dtinfo1_year … dtinfo2_microsecond : Int) : List Int`
           (components in the order years, months, days, hours, minutes, seconds, microseconds, total_days)
  recorded verbatim: the statements before `in_same_tz` (`preludeSource`), `PartialOrd::partial_cmp` (`cmpSource`).

Subset: `let [mut] x[: T] = e;`, `x = e;`, `x op= e;` (+ - *), `s.f = e;`, `(a, b) = (b, a);` on struct variables,
`if c {…} [else if …] [else {…}]`, tail `Ok(PreciseDiff { f: e, … })`; expressions: integer literals, variables, `s.field`,
+ - * (Rust `/` `%` = `Int.tdiv`/`Int.tmod`), unary - and !, comparisons, && ||, `e as <int type>` (identity: fixed-width
integers are rendered as unbounded `Int`), `T::from(e)` (bool -> 0/1), `helpers::is_leap`, `helpers::day_number`,
constants and tables of constants.rs, `a.max(b)`, `a.min(b)`, `s.is_empty()`, struct comparison `a > b` (a Bool parameter).
Anything else is a fallback (prefix "RsPreciseDiff:").
"""
from __future__ import annotations

import os
import re
from pathlib import Path

REPO = Path(os.environ.get("VERIF_REPO", "/repo"))
FIELDS = ["year", "month", "day", "hour", "minute", "second", "microsecond"]
OUT_FIELDS = ["years", "months", "days", "hours", "minutes", "seconds", "microseconds", "total_days"]
INT_TYPES = {"i8", "i16", "i32", "i64", "i128", "isize", "u8", "u16", "u32", "u64", "u128", "usize"}
GHOST = "shift_taken"

TOK = re.compile(r"""\s*(?:
    (?P<num>\d[\d_]*(?:[iu](?:8|16|32|64|128|size))?)
  | (?P<life>'[A-Za-z_][A-Za-z0-9_]*(?!'))
  | (?P<id>[A-Za-z_][A-Za-z0-9_]*)
  | (?P<str>"(?:[^"\\]|\\.)*")
  | (?P<op>::|->|=>|==|!=|<=|>=|&&|\|\||\+=|-=|\*=|/=|%=|[-+*/%<>()\[\]{};:,.=!&|?#])
)""", re.X)


class Bad(Exception):
    pass


def L(v):
    return f"({v} : Int)"


def lean_str(s):
    return '"' + s.replace("\\", "\\\\").replace('"', '\\"').replace("\n", "\\n") + '"'


def tokenize(src):
    src = re.sub(r"//[^\n]*", "", src)
    pos, out = 0, []
    while pos < len(src):
        if src[pos:].strip() == "":
            break
        m = TOK.match(src, pos)
        if not m:
            raise Bad("cannot tokenize at: " + src[pos:pos + 30])
        pos = m.end()
        k = m.lastgroup
        v = m.group(k)
        if k == "num":
            v = re.sub(r"[iu](8|16|32|64|128|size)$", "", v).replace("_", "")
        out.append((k, v))
    return out


def untok(toks):
    """canonical text of a token list (one space between tokens)"""
    return " ".join(v for _, v in toks)


OPEN, CLOSE = {"(": ")", "[": "]", "{": "}"}, {")", "]", "}"}


def match_close(toks, i):
    """index of the bracket closing toks[i]"""
    depth = 0
    for j in range(i, len(toks)):
        if toks[j][0] == "op" and toks[j][1] in OPEN:
            depth += 1
        elif toks[j][0] == "op" and toks[j][1] in CLOSE:
            depth -= 1
            if depth == 0:
                return j
    raise Bad("unbalanced brackets")


def fn_body(toks, name, after=0):
    """tokens of the body of `fn <name>` (first occurrence at or after token index `after`)"""
    for i in range(after, len(toks) - 1):
        if toks[i] == ("id", "fn") and toks[i + 1] == ("id", name):
            j = i
            while toks[j] != ("op", "{"):
                if toks[j] == ("op", "("):
                    j = match_close(toks, j)
                j += 1
            k = match_close(toks, j)
            return toks[j + 1:k]
    raise Bad(f"fn {name} not found")


def split_stmts(toks):
    """top-level statements of a block body, as token lists (tail expression = last one without `;`)"""
    out, i, n = [], 0, len(toks)
    while i < n:
        start = i
        if toks[i] == ("id", "if"):
            while True:
                while toks[i] != ("op", "{"):
                    if toks[i][0] == "op" and toks[i][1] in ("(", "["):
                        i = match_close(toks, i)
                    i += 1
                i = match_close(toks, i) + 1
                if i < n and toks[i] == ("id", "else"):
                    i += 1
                    continue
                break
            out.append(toks[start:i])
            continue
        while i < n and toks[i] != ("op", ";"):
            if toks[i][0] == "op" and toks[i][1] in OPEN:
                i = match_close(toks, i)
            i += 1
        out.append(toks[start:min(i + 1, n)])
        i += 1
    return out


# ----------------------------------------------------------------------------- parser

class P:
    def __init__(self, toks):
        self.t, self.i = toks, 0

    def peek(self, k=0):
        return self.t[self.i + k] if self.i + k < len(self.t) else ("eof", "")

    def at(self, v):
        return self.peek() == ("op", v) or self.peek() == ("id", v)

    def eat(self, v=None, kind=None):
        tk = self.peek()
        if (v is not None and tk[1] != v) or (kind is not None and tk[0] != kind):
            raise Bad(f"expected {v or kind}, got {tk[1]!r}")
        self.i += 1
        return tk

    def skip_type(self):
        """a type after `:` or `as` inside a let: up to `=` at angle depth 0"""
        depth = 0
        while True:
            tk = self.peek()
            if tk[0] == "eof":
                raise Bad("unterminated type")
            if tk == ("op", "<"):
                depth += 1
            elif tk == ("op", ">"):
                depth -= 1
            elif tk == ("op", "=") and depth == 0:
                return
            self.i += 1

    # statements
    def block(self):
        self.eat("{")
        out = []
        while not self.at("}"):
            out.append(self.stmt())
        self.eat("}")
        return out

    def stmt(self):
        if self.at("let"):
            self.eat()
            mut = False
            if self.at("mut"):
                self.eat()
                mut = True
            name = self.eat(kind="id")[1]
            if self.at(":"):
                self.eat()
                self.skip_type()
            self.eat("=")
            e = self.expr()
            self.eat(";")
            return ("let", name, mut, e)
        if self.at("if"):
            return self.ifstmt()
        e = self.expr()
        tk = self.peek()
        if tk[0] == "op" and tk[1] in ("=", "+=", "-=", "*=", "/=", "%="):
            self.eat()
            r = self.expr()
            self.eat(";")
            return ("assign", e, tk[1], r)
        if self.at(";"):
            self.eat()
            return ("expr", e)
        if self.peek()[0] == "eof" or self.at("}"):
            return ("tail", e)
        raise Bad(f"statement form not supported near {self.peek()[1]!r}")

    def ifstmt(self):
        self.eat("if")
        c = self.expr(nostruct=True)
        th = self.block()
        el = []
        if self.at("else"):
            self.eat()
            el = [self.ifstmt()] if self.at("if") else self.block()
        return ("if", c, th, el)

    # expressions (Pratt)
    BIN = [("||",), ("&&",), ("==", "!=", "<", ">", "<=", ">="), ("+", "-"), ("*", "/", "%")]

    def expr(self, nostruct=False, lvl=0):
        if lvl == len(self.BIN):
            return self.unary(nostruct)
        l = self.expr(nostruct, lvl + 1)
        while self.peek()[0] == "op" and self.peek()[1] in self.BIN[lvl]:
            o = self.eat()[1]
            r = self.expr(nostruct, lvl + 1)
            l = ("bin", o, l, r)
            if lvl == 2:
                break                      # comparisons do not chain
        return l

    def unary(self, nostruct):
        if self.at("-") or self.at("!") or self.at("&"):
            o = self.eat()[1]
            e = self.unary(nostruct)
            return e if o == "&" else ("un", o, e)
        e = self.postfix(nostruct)
        while self.at("as"):
            self.eat()
            ty = self.eat(kind="id")[1]
            e = ("cast", e, ty)
        return e

    def args(self):
        self.eat("(")
        out = []
        while not self.at(")"):
            out.append(self.expr())
            if self.at(","):
                self.eat()
        self.eat(")")
        return out

    def postfix(self, nostruct):
        e = self.atom(nostruct)
        while True:
            if self.at("."):
                self.eat()
                name = self.eat()[1]
                if self.at("::"):          # turbofish
                    self.eat()
                    j = self.i
                    depth = 0
                    while True:
                        if self.t[j] == ("op", "<"):
                            depth += 1
                        elif self.t[j] == ("op", ">"):
                            depth -= 1
                            if depth == 0:
                                break
                        j += 1
                    self.i = j + 1
                if self.at("("):
                    e = ("mcall", e, name, self.args())
                else:
                    e = ("field", e, name)
            elif self.at("("):
                e = ("call", e, self.args())
            elif self.at("["):
                self.eat()
                ix = self.expr()
                self.eat("]")
                e = ("index", e, ix)
            elif self.at("?"):
                self.eat()
            else:
                return e

    def atom(self, nostruct):
        tk = self.peek()
        if tk[0] == "num":
            self.eat()
            return ("num", int(tk[1]))
        if tk == ("op", "("):
            self.eat()
            items = []
            tuple_ = False
            while not self.at(")"):
                items.append(self.expr())
                if self.at(","):
                    self.eat()
                    tuple_ = True
            self.eat(")")
            return ("tuple", items) if tuple_ or not items else items[0]
        if tk[0] == "id":
            self.eat()
            name = tk[1]
            while self.at("::") and self.peek(1)[0] == "id":
                self.eat()
                name += "::" + self.eat()[1]
            if self.at("{") and not nostruct and name[:1].isupper():
                self.eat()
                fs = []
                while not self.at("}"):
                    f = self.eat(kind="id")[1]
                    self.eat(":")
                    fs.append((f, self.expr()))
                    if self.at(","):
                        self.eat()
                self.eat("}")
                return ("struct", name, fs)
            return ("path", name)
        raise Bad(f"unexpected token {tk[1]!r}")


def parse_stmt(toks):
    p = P(toks)
    s = p.stmt()
    if p.peek()[0] != "eof":
        raise Bad("trailing tokens after statement: " + untok(toks[p.i:p.i + 6]))
    return s


def show(e):
    return str(e)[:140]


# ----------------------------------------------------------------------------- translation

class X:
    """env: key -> (type, lean term); types I (Int) B (Bool) O (Option Nat: a zone name) S (struct variable)"""

    def __init__(self, env, consts):
        self.env, self.consts = env, consts

    def key(self, e):
        if e[0] == "path" and "::" not in e[1]:
            return e[1]
        if e[0] == "field" and e[1][0] == "path":
            return f"{e[1][1]}.{e[2]}"
        return None

    def tr(self, e):
        k = e[0]
        if k == "num":
            return ("I", L(e[1]))
        ky = self.key(e)
        if ky is not None:
            if ky in self.env:
                return self.env[ky]
            if k == "path" and isinstance(self.consts.get(ky), int):
                return ("I", f"Gen.rs_{ky}")
            raise Bad("unknown name " + ky)
        if k == "un":
            t, v = self.tr(e[2])
            if e[1] == "-" and t == "I":
                return ("I", f"(-{v})")
            if e[1] == "!" and t == "B":
                return ("B", f"(!{v})")
        if k == "cast":
            t, v = self.tr(e[1])
            if t == "I" and e[2] in INT_TYPES:
                return ("I", v)
        if k == "bin":
            o = e[1]
            if o in ("<", ">", "<=", ">=") and e[2][0] == "path" and e[3][0] == "path" \
                    and self.env.get(e[2][1], ("", ""))[0] == "S" and self.env.get(e[3][1], ("", ""))[0] == "S":
                ck = f"{e[2][1]}{o}{e[3][1]}"
                if ck in self.env:
                    return self.env[ck]
                raise Bad("struct comparison not available here: " + ck)
            (ta, a), (tb, b) = self.tr(e[2]), self.tr(e[3])
            if ta == tb == "I":
                if o in ("+", "-", "*"):
                    return ("I", f"({a} {o} {b})")
                if o in ("/", "%"):
                    return ("I", f"(Int.{'tdiv' if o == '/' else 'tmod'} {a} {b})")
                lo = {"==": "=", "!=": "≠", "<": "<", "<=": "≤", ">": ">", ">=": "≥"}.get(o)
                if lo:
                    return ("B", f"(decide ({a} {lo} {b}))")
            if ta == tb == "B" and o in ("&&", "||"):
                return ("B", f"({a} {o} {b})")
            if ta == tb == "O" and o in ("==", "!="):
                return ("B", f"(decide ({a} {'=' if o == '==' else '≠'} {b}))")
        if k == "call" and e[1][0] == "path":
            f, args = e[1][1], e[2]
            if f.endswith("::from") and f.split("::")[0] in INT_TYPES and len(args) == 1:
                t, v = self.tr(args[0])
                return ("I", f"(if {v} then (1 : Int) else 0)") if t == "B" else ("I", v)
            if f in ("helpers::is_leap", "is_leap") and len(args) == 1:
                t, v = self.tr(args[0])
                if t == "I":
                    return ("B", f"(Rs.is_leap {v})")
            if f in ("helpers::day_number", "day_number") and len(args) == 3:
                vs = [self.tr(a) for a in args]
                if all(t == "I" for t, _ in vs):
                    return ("I", "(Rs.day_number " + " ".join(v for _, v in vs) + ")")
        if k == "mcall":
            t, v = self.tr(e[1])
            if e[2] in ("max", "min") and t == "I" and len(e[3]) == 1:
                tb, b = self.tr(e[3][0])
                if tb == "I":
                    return ("I", f"({e[2]} {v} {b})")
            if e[2] == "is_empty" and t == "O" and not e[3]:
                return ("B", f"({v}).isNone")
        if k == "index":
            inner = e[1]
            if inner[0] == "index" and inner[1][0] == "path" and isinstance(self.consts.get(inner[1][1]), (list, tuple)):
                name = inner[1][1]
                rows = self.consts[name]
                if rows and all(isinstance(r, (list, tuple)) for r in rows):
                    (ts, sel), (ti, ix) = self.tr(inner[2]), self.tr(e[2])
                    if ts == ti == "I":
                        out = "0"
                        for r in reversed(range(len(rows))):
                            out = f"if {sel} = {r} then Gen.rs_{name}_{r} {ix} else {out}"
                        return ("I", f"({out})")
            if inner[0] == "path" and isinstance(self.consts.get(inner[1]), (list, tuple)) \
                    and all(isinstance(r, int) for r in self.consts[inner[1]]):
                ti, ix = self.tr(e[2])
                if ti == "I":
                    return ("I", f"(Gen.rs_{inner[1]} {ix})")
        raise Bad("expression outside the subset: " + show(e))


def assigned(stmts, env):
    """env keys rebound by the statements (in first-assignment order)"""
    out = []

    def add(k):
        if k not in out:
            out.append(k)
    for s in stmts:
        if s[0] == "assign":
            lhs = s[1]
            if lhs[0] == "tuple":
                for it in lhs[1]:
                    if it[0] == "path" and env.get(it[1], ("", ""))[0] == "S":
                        for k in env:
                            if k.startswith(it[1] + "."):
                                add(k)
                    elif it[0] == "path":
                        add(it[1])
            else:
                k = X(env, {}).key(lhs)
                if k:
                    add(k)
        elif s[0] == "if":
            for k in assigned(s[2], env) + assigned(s[3], env):
                add(k)
    return out


def tup(xs):
    return xs[0] if len(xs) == 1 else "(" + ", ".join(xs) + ")"


def proj(r, k, n):
    if n == 1:
        return r
    return r + ".2" * k + (".1" if k < n - 1 else "")


TY = {"I": "Int", "B": "Bool", "O": "Option Nat"}


class Blk:
    def __init__(self, consts, ind="  "):
        self.consts, self.n, self.ind = consts, 0, ind

    def fresh(self, base):
        self.n += 1
        return f"{base.replace('.', '_')}_{self.n}"

    def bind(self, key, tv, env):
        n = self.fresh(key)
        env = dict(env)
        env[key] = (tv[0], n)
        return f"let {n} : {TY[tv[0]]} := {tv[1]}\n{self.ind}", env

    def run(self, stmts, env, done):
        if not stmts:
            return done(env)
        s, rest = stmts[0], stmts[1:]
        x = X(env, self.consts)
        if s[0] == "let":
            tv = x.tr(s[3])
            if tv[0] == "S":
                raise Bad("struct-valued let")
            l, env1 = self.bind(s[1], tv, env)
            # a `let` shadows struct comparisons etc. only by name; nothing else to do
            return l + self.run(rest, env1, done)
        if s[0] == "assign":
            lhs, op, rhs = s[1], s[2], s[3]
            if lhs[0] == "tuple":
                if op != "=" or rhs[0] != "tuple" or len(rhs[1]) != len(lhs[1]) \
                        or not all(i[0] == "path" and env.get(i[1], ("", ""))[0] == "S" for i in lhs[1] + rhs[1]):
                    raise Bad("tuple assignment other than an exchange of struct variables: " + show(s))
                env1 = dict(env)
                for dst, src in zip(lhs[1], rhs[1]):
                    for k in env:
                        if k.startswith(src[1] + "."):
                            env1[dst[1] + k[len(src[1]):]] = env[k]
                # struct comparisons refer to the old values
                for k in list(env1):
                    if any(o in k for o in "<>") and "." not in k:
                        del env1[k]
                return self.run(rest, env1, done)
            k = x.key(lhs)
            if k is None or k not in env:
                raise Bad("assignment target outside the subset: " + show(lhs))
            tv = x.tr(rhs)
            if op != "=":
                if op not in ("+=", "-=", "*=") or tv[0] != "I" or env[k][0] != "I":
                    raise Bad("compound assignment outside the subset: " + show(s))
                tv = ("I", f"({env[k][1]} {op[0]} {tv[1]})")
            if tv[0] != env[k][0]:
                raise Bad("assignment changes the type of " + k)
            l, env1 = self.bind(k, tv, env)
            return l + self.run(rest, env1, done)
        if s[0] == "if":
            tc, c = x.tr(s[1])
            if tc != "B":
                raise Bad("condition is not boolean: " + show(s[1]))
            ws = [w for w in assigned([s], env) if w in env]
            if not ws:
                raise Bad("if-statement without effect: " + show(s[1]))
            sub = Blk(self.consts, self.ind + "    ")
            sub.n = self.n

            def fin(e):
                return tup([e[w][1] for w in ws])
            th = sub.run(list(s[2]), env, fin)
            el = sub.run(list(s[3]), env, fin)
            self.n = sub.n
            r = self.fresh("r")
            out = f"let {r} := if {c} then\n{sub.ind}{th}\n{self.ind}  else\n{sub.ind}{el}\n{self.ind}"
            env2 = dict(env)
            for k, w in enumerate(ws):
                l, env2 = self.bind(w, (env[w][0], proj(r, k, len(ws))), env2)
                out += l
            for k in list(env2):                     # a struct comparison made before the `if` is stale afterwards
                if any(o in k for o in "<>") and "." not in k and any(w.split(".")[0] in k for w in ws):
                    del env2[k]
            return out + self.run(rest, env2, done)
        if s[0] == "tail":
            if rest or done is not TAIL:
                raise Bad("tail expression in an unexpected position")
            e = s[1]
            if e[0] == "call" and e[1] == ("path", "Ok") and len(e[2]) == 1:
                e = e[2][0]
            if e[0] != "struct" or e[1] != "PreciseDiff":
                raise Bad("the function does not end with Ok(PreciseDiff { … })")
            fs = dict(e[2])
            if sorted(fs) != sorted(OUT_FIELDS) or len(e[2]) != len(OUT_FIELDS):
                raise Bad("PreciseDiff { … } has unexpected fields: " + ", ".join(f for f, _ in e[2]))
            vals = []
            for f in OUT_FIELDS:
                t, v = x.tr(fs[f])
                if t != "I":
                    raise Bad("non-integer component " + f)
                vals.append(v)
            return "[" + ", ".join(vals) + "]"
        raise Bad("statement outside the subset: " + show(s))


def TAIL(env):
    raise Bad("control falls off the end of precise_diff")


def _params(names):
    return " ".join(f"({n} : Int)" for n in names)


def generate(changed, fallbacks, _write, rs_consts):
    from tools.gen_lean import GEN
    out = ["import Pendulum.Gen.RsHelpers",
           "/-! GENERATED by tools/gen_rust_pd.py from rust/src/python/helpers.rs (`precise_diff`, `DateTimeInfo`) — do not edit.",
           "Fixed-width integers are rendered as `Int`, `e as <int type>` as the identity; a zone name is an `Option Nat`",
           "(`none` = the empty string). -/",
           "set_option linter.unusedVariables false", "namespace Pendulum.Gen.RsPreciseDiff", "open Pendulum", ""]

    def emit(label, thunk):
        try:
            out.append(thunk())
        except (Bad, StopIteration, KeyError, IndexError, ValueError) as e:
            fallbacks.append(f"RsPreciseDiff: cannot translate {label}: {e}")
            out.append(f"-- UNTRANSLATABLE {label}: {str(e)[:300]}\n")

    def finish():
        out.extend(["end Pendulum.Gen.RsPreciseDiff", ""])
        _write(GEN / "RsPreciseDiff.lean", "\n".join(out), changed)
        return 0

    try:
        toks = tokenize((REPO / "rust/src/python/helpers.rs").read_text())
        body = split_stmts(fn_body(toks, "precise_diff"))
        shift_body = split_stmts(fn_body(toks, "shift_to_utc"))
        cmp_body = fn_body(toks, "partial_cmp")
    except (Bad, OSError) as e:
        fallbacks.append(f"RsPreciseDiff: cannot read precise_diff / shift_to_utc / partial_cmp of python/helpers.rs: {e}")
        return finish()

    def starts(st, *words):
        return [v for _, v in st[:len(words)]] == list(words)

    def find(pred, what):
        ks = [k for k, st in enumerate(body) if pred(st)]
        if len(ks) != 1:
            raise Bad(f"{what} found {len(ks)} times at the top level of precise_diff")
        return ks[0]

    sfields = {f"dtinfo{k}.{f}": ("I", f"dtinfo{k}_{f}") for k in (1, 2) for f in FIELDS}

    def t_same():
        k = find(lambda st: starts(st, "let", "in_same_tz"), "`let in_same_tz`")
        s = parse_stmt(body[k])
        env = {"dtinfo1.tz": ("O", "tz1"), "dtinfo2.tz": ("O", "tz2")}
        t, v = X(env, rs_consts).tr(s[3])
        if t != "B":
            raise Bad("in_same_tz is not boolean")
        return f"def in_same_tz (tz1 tz2 : Option Nat) : Bool :=\n  {v}\n"

    def t_total():
        k = find(lambda st: starts(st, "let", "mut", "total_days"), "`let mut total_days`")
        s = parse_stmt(body[k])
        env = {f"dtinfo{j}.{f}": ("I", f"dtinfo{j}_{f}") for j in (1, 2) for f in FIELDS[:3]}
        t, v = X(env, rs_consts).tr(s[3])
        ps = [f"dtinfo{j}_{f}" for j in (1, 2) for f in FIELDS[:3]]
        return f"def total_days {_params(ps)} : Int :=\n  {v}\n"

    def t_endpoint(j):
        def go():
            k = find(lambda st: starts(st, "if", f"dtinfo{j}", ".", "is_datetime", "{"), f"`if dtinfo{j}.is_datetime`")
            st = body[k]
            close = match_close(st, 4)
            if close != len(st) - 1:
                raise Bad(f"`if dtinfo{j}.is_datetime` has an else branch")
            inner = split_stmts(st[5:close])
            ks = [i for i, t in enumerate(inner) if any(v == "shift_to_utc" for _, v in t)]
            if len(ks) != 1 or not starts(inner[ks[0]], "if"):
                raise Bad(f"the shift of dtinfo{j} is no longer one `if … {{ dtinfo{j}.shift_to_utc(); }}`")
            sh = parse_stmt(inner[ks[0]])
            if sh[3] or len(sh[2]) != 1 or sh[2][0] != ("expr", ("mcall", ("path", f"dtinfo{j}"), "shift_to_utc", [])):
                raise Bad(f"the shift of dtinfo{j} has a new shape: " + untok(inner[ks[0]])[:200])
            ghost = ("if", ("path", "is_datetime"), [("if", sh[1], [("assign", ("path", GHOST), "=", ("path", "true"))], [])], [])
            env = {"is_datetime": ("B", "is_datetime"), "in_same_tz": ("B", "in_same_tz"), f"dtinfo{j}.offset": ("I", "offset"),
                   "total_days": ("I", "total_days"), GHOST: ("B", "false"), "true": ("B", "true")}
            term = Blk(rs_consts).run([ghost], env, lambda e: e[GHOST][1])
            rest = [untok(t) if i != ks[0] else "<<shift>>" for i, t in enumerate(inner)]
            return (f"/-- is `dtinfo{j}.shift_to_utc()` executed? -/\n"
                    f"def shift_taken_{j} (is_datetime in_same_tz : Bool) (offset total_days : Int) : Bool :=\n  {term}\n\n"
                    f"/-- the other statements of `if dtinfo{j}.is_datetime {{ … }}`, verbatim -/\n"
                    f"def endpointSource_{j} : String := {lean_str(chr(10).join(rest))}\n")
        return go

    def t_shift():
        lets = [parse_stmt(t) for t in shift_body if starts(t, "let") and not starts(t, "let", "(")]
        names = [s[1] for s in lets]
        if names != ["days", "seconds", "timestamp"]:
            raise Bad(f"shift_to_utc no longer computes days, seconds, timestamp: {names}")
        env = {f"self.{f}": ("I", f) for f in FIELDS[:6] + ["offset"]}
        term = Blk(rs_consts).run(lets, env, lambda e: e["timestamp"][1])
        rest = [untok(t) for t in shift_body if not (starts(t, "let") and not starts(t, "let", "("))]
        return ("/-- `DateTimeInfo::shift_to_utc`: the unix time handed to `helpers::local_time(timestamp as f64, 0, 0)` -/\n"
                f"def shift_timestamp {_params(FIELDS[:6] + ['offset'])} : Int :=\n  {term}\n\n"
                "/-- the rest of `shift_to_utc`, verbatim -/\n"
                f"def shiftSource : String := {lean_str(chr(10).join(rest))}\n")

    def t_core():
        ksign = find(lambda st: starts(st, "let", "mut", "sign"), "`let mut sign`")
        kswap = find(lambda st: starts(st, "if", "dtinfo1", ">", "dtinfo2", "{"), "`if dtinfo1 > dtinfo2`")
        stmts = [parse_stmt(body[ksign])] + [parse_stmt(t) for t in body[kswap:]]
        env = dict(sfields)
        env.update({"dtinfo1": ("S", ""), "dtinfo2": ("S", ""), "dtinfo1>dtinfo2": ("B", "dtinfo1_gt_dtinfo2"),
                    "total_days": ("I", "total_days")})
        term = Blk(rs_consts).run(stmts, env, TAIL)
        ps = [f"dtinfo{j}_{f}" for j in (1, 2) for f in FIELDS]
        return ("/-- from `if dtinfo1 > dtinfo2 {` to the end; `dtinfo<k>_<field>`: the fields after the UTC shift, before the exchange -/\n"
                f"def core (dtinfo1_gt_dtinfo2 : Bool) (total_days : Int) {_params(ps)} : List Int :=\n  {term}\n")

    def t_verbatim():
        kin = find(lambda st: starts(st, "let", "in_same_tz"), "`let in_same_tz`")
        pre = [untok(t) for t in body[:kin] if not starts(t, "let", "mut", "sign")]
        return ("/-- the statements of `precise_diff` before `in_same_tz` (field extraction through pyo3), verbatim -/\n"
                f"def preludeSource : String := {lean_str(chr(10).join(pre))}\n\n"
                "/-- `PartialOrd::partial_cmp` of `DateTimeInfo`, verbatim -/\n"
                f"def cmpSource : String := {lean_str(untok(cmp_body))}\n")

    emit("in_same_tz", t_same)
    emit("total_days", t_total)
    emit("the dtinfo1 block", t_endpoint(1))
    emit("the dtinfo2 block", t_endpoint(2))
    emit("shift_to_utc", t_shift)
    emit("the arithmetic core", t_core)
    emit("verbatim parts", t_verbatim)
    # every top-level statement must be accounted for
    known = 0
    for st in body:
        if (starts(st, "let", "mut", "sign") or starts(st, "let", "in_same_tz") or starts(st, "let", "mut", "total_days")
                or starts(st, "if", "dtinfo1", ".", "is_datetime") or starts(st, "if", "dtinfo2", ".", "is_datetime")):
            known += 1
    try:
        kin = find(lambda st: starts(st, "let", "in_same_tz"), "`let in_same_tz`")
        kswap = find(lambda st: starts(st, "if", "dtinfo1", ">", "dtinfo2", "{"), "`if dtinfo1 > dtinfo2`")
        between = [st for st in body[kin:kswap]]
        if len(between) != 4:
            fallbacks.append("RsPreciseDiff: unexpected statements between `let in_same_tz` and `if dtinfo1 > dtinfo2`: "
                             + " | ".join(untok(t)[:60] for t in between))
    except Bad as e:
        fallbacks.append(f"RsPreciseDiff: {e}")
    return finish()
