#!/bin/sh
# usage: tools/agent_ws.sh <tag>   — isolated workspace: copy of /verif + clone of /repo under /var/tmp/w/<tag>
set -e
tag="$1"; W=/var/tmp/w/$tag
rm -rf "$W"; mkdir -p "$W"
cp -a /verif "$W/verif"
rm -rf "$W/verif/.git" "$W/verif/evidence"
git clone -q /repo "$W/repo"
cp /repo/src/pendulum/_pendulum*.so "$W/repo/src/pendulum/" 2>/dev/null || true
echo "workspace: $W"
echo "export VERIF_REPO=$W/repo VERIF_NPROC=4"
