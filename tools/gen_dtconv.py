"""Translator: construction / conversion glue of pendulum  ->  lean/Pendulum/Gen/DTConv.lean

Sources (each function / method becomes one Lean definition in `Pendulum.Gen.DTConv`, following the source statement by
statement and branch by branch; its value is the *request* it hands on — which constructor / callee with which arguments):
  src/pendulum/__init__.py      timezone, _safe_timezone, datetime, local, naive, instance, from_timestamp
  src/pendulum/tz/__init__.py   fixed_timezone (with the `_tz_cache` lookup and store)
  src/pendulum/tz/timezone.py   Timezone.name/convert/datetime, FixedTimezone.__init__/name/offset/utcoffset/dst/tzname/
                                fromutc/convert/datetime
  src/pendulum/datetime.py      DateTime.create/instance/set/on/at/replace/naive/in_timezone/in_tz/astimezone/
                                int_timestamp/offset/get_offset/timezone/tz/timezone_name
`convert` exists in two specialisations: `_n` (the value handed in is a plain `datetime.datetime`: native `+`, native
`replace`, native `astimezone`) and `_p` (it is a pendulum `DateTime`: `DateTime.__add__`, the overridden `replace` /
`astimezone`).  Everything that is not pendulum source is a field of the parameter record `Env` (see PRELUDE).

Values: Int, Bool, Option Int/Bool, String, timedelta (Int, µs), exact rationals (numerator, denominator: `offset / 60`,
`obj * 60 * 60`, `td.total_seconds()`), `TzArg` (anything accepted where a timezone is expected, told apart by the
`isinstance` / `hasattr` / `is None` tests the source performs), `Tz` (a pendulum timezone object), `FixedObj` (the state of a
FixedTimezone), `DtVal` (a datetime value: seven fields, fold, tzinfo; whether it is native or pendulum is static),
f-strings (`List NamePart`).  Statements: assignment (names, tuples from `divmod`, `self._x = …` in `__init__`,
`_tz_cache[k] = v`), `if`/`elif`/`else` (arms that only assign are merged into a conditional `let`; otherwise the rest of
the body is continued in both arms), `return`, `raise Exc(..)`.  Tests narrow the static kind of a name along a path
(`x is None`, `x is True`, `isinstance`, truthiness).  A call that may raise is bound with `Except.bind`.
Anything else is reported as a fallback (prefix "DTConv:").
"""
from __future__ import annotations

import ast
import os
from pathlib import Path

REPO = Path(os.environ.get("VERIF_REPO", "/repo"))
F7 = ["year", "month", "day", "hour", "minute", "second", "microsecond"]

PRELUDE = r'''
/-- one piece of an f-string: literal text or `{s}` of a string; `{n:spec}` of an integer -/
inductive NamePart
  | str (s : String)
  | int (spec : String) (n : Int)
deriving DecidableEq, Repr

/-- the state `FixedTimezone.__init__` stores: `_name`, `_offset` (seconds), `_utcoffset` (a timedelta, in µs) -/
structure FixedObj where
  name : List NamePart
  offset : Int
  utcoffset : Int
deriving DecidableEq, Repr

/-- a pendulum timezone object: the module constant `UTC`, `Timezone(key)`, a `FixedTimezone` -/
inductive Tz
  | utc
  | named (key : String)
  | fixed (o : FixedObj)
deriving DecidableEq, Repr

/-- `self.key` of a `Timezone` -/
def Tz.key : Tz → String
  | .utc => "UTC" | .named k => k | .fixed _ => ""
def Tz.getFixed : Tz → FixedObj
  | .fixed o => o | _ => ⟨[], 0, 0⟩

/-- anything handed in where a timezone is expected (also the `tzinfo` slot of a datetime value), as far as the
    `isinstance` / `hasattr` / `is None` / `==` tests of the source can tell:
    a `Timezone`/`FixedTimezone`; `None`; a `str`; an `int`/`float` (the exact rational n/d, d > 0);
    another `datetime.tzinfo` (its `key` / `zone` attributes when it has them — `zone` stands for "has `localize`" —,
    and its answers `tzname(dt)`, `utcoffset(dt)` (µs) for the `dt` of the call) -/
inductive TzArg
  | tz (t : Tz)
  | none
  | str (s : String)
  | num (n d : Int)
  | tzinfo (key zone : Option String) (tzname : Option String) (utcoffset : Option Int)
deriving DecidableEq, Repr

def TzArg.isTz : TzArg → Bool | .tz _ => true | _ => false           -- isinstance(x, (Timezone, FixedTimezone))
def TzArg.getTz : TzArg → Tz | .tz t => t | _ => .utc
def TzArg.isNone : TzArg → Bool | .none => true | _ => false
def TzArg.eqStr : TzArg → String → Bool | .str s, t => s == t | _, _ => false
def TzArg.isNum : TzArg → Bool | .num _ _ => true | _ => false        -- isinstance(x, (int, float))
def TzArg.numer : TzArg → Int | .num n _ => n | _ => 0
def TzArg.denom : TzArg → Int | .num _ d => d | _ => 1
def TzArg.isTzinfo : TzArg → Bool | .tz _ => true | .tzinfo .. => true | _ => false   -- isinstance(x, datetime.tzinfo)
def TzArg.hasKey : TzArg → Bool                                       -- hasattr(x, "key")
  | .tz .utc => true | .tz (.named _) => true | .tzinfo (some _) _ _ _ => true | _ => false
def TzArg.hasLocalize : TzArg → Bool                                  -- hasattr(x, "localize")
  | .tzinfo _ (some _) _ _ => true | _ => false
def TzArg.key : TzArg → String
  | .tz t => t.key | .tzinfo (some k) _ _ _ => k | _ => ""
def TzArg.zone : TzArg → String
  | .tzinfo _ (some z) _ _ => z | _ => ""
def TzArg.tznameOf : TzArg → Option String | .tzinfo _ _ n _ => n | _ => Option.none
def TzArg.utcoffsetOf : TzArg → Option Int | .tzinfo _ _ _ o => o | _ => Option.none
def TzArg.ofOptTz : Option Tz → TzArg | some t => .tz t | Option.none => .none
def TzArg.isUTCObj : TzArg → Bool | .tz .utc => true | _ => false     -- `x is UTC`
def TzArg.orElse (a b : TzArg) : TzArg := if a.isNone then b else a   -- `a or b`

/-- `str | int` (the argument of `timezone()`) -/
inductive NameOrInt
  | int (n : Int)
  | str (s : String)
deriving DecidableEq, Repr
def NameOrInt.isInt : NameOrInt → Bool | .int _ => true | _ => false
def NameOrInt.getInt : NameOrInt → Int | .int n => n | _ => 0
def NameOrInt.getStr : NameOrInt → String | .str s => s | _ => ""
/-- what is left of a `TzArg` after the `isinstance` chain of `_safe_timezone`: a name -/
def TzArg.asNameOrInt : TzArg → NameOrInt | .str s => .str s | _ => .str ""

/-- the `tzinfo=` argument of `DateTime.replace`: the default `True` (keep the instance's) or a value -/
inductive ReplTz
  | keep
  | val (v : TzArg)
deriving DecidableEq, Repr
def ReplTz.isKeep : ReplTz → Bool | .keep => true | _ => false
def ReplTz.getVal : ReplTz → TzArg | .val v => v | .keep => .none

/-- a datetime value (native or pendulum — which of the two is static in the translation) -/
structure DtVal where
  year : Int
  month : Int
  day : Int
  hour : Int
  minute : Int
  second : Int
  microsecond : Int
  fold : Bool
  tzinfo : TzArg
deriving DecidableEq, Repr

/-- kinds of object handed to `pendulum.instance` -/
inductive ObjKind | pendulumDateTime | pendulumDate | pendulumTime | datetime | date | time
deriving DecidableEq, Repr
/-- `isinstance(obj, C)` for C one of "DateTime", "Date", "Time", "datetime", "date", "time" (the class hierarchy:
    DateTime < datetime < date, DateTime < Date < date, Time < time) -/
def ObjKind.isa (k : ObjKind) (c : String) : Bool :=
  match k with
  | .pendulumDateTime => c == "DateTime" || c == "Date" || c == "datetime" || c == "date"
  | .pendulumDate => c == "Date" || c == "date"
  | .pendulumTime => c == "Time" || c == "time"
  | .datetime => c == "datetime" || c == "date"
  | .date => c == "date"
  | .time => c == "time"
/-- what `pendulum.instance` returns: the object itself, `date(y, m, d)`, `Time.instance(obj, tz=tz)`, or the result of
    `DateTime.instance(obj, tz=tz)` -/
inductive InstRes
  | same
  | date (year month day : Int)
  | timeInstance (tz : TzArg)
  | dt (r : Except String DtVal)

/-- everything the translated code calls that is not pendulum source -/
structure Env where
  /-- `local_timezone()` -/
  local_timezone : Tz
  /-- the dict `_tz_cache` -/
  tz_cache : Int → Option Tz
  /-- `zoneinfo.ZoneInfo.utcoffset(x)` inherited by `Timezone` (µs) -/
  zone_utcoffset : Tz → DtVal → Int
  /-- `datetime.datetime.__add__(x, timedelta)` (timedelta in µs) -/
  native_add : DtVal → Int → Except String DtVal
  /-- `DateTime.__add__(x, timedelta)` (datetime.py, properties C03/C04) -/
  pdt_add : DtVal → Int → Except String DtVal
  /-- `datetime.datetime.astimezone(x, tz)` -/
  native_astimezone : DtVal → TzArg → Except String DtVal
  /-- `datetime.datetime.utcfromtimestamp(t)`; the timestamp is given in µs -/
  utcfromtimestamp : Int → DtVal
  /-- `x - DateTime._EPOCH` as a timedelta (µs) -/
  sub_epoch : DtVal → Int

/-- `int(n/d)` for d > 0: truncation toward zero (for a float the products/quotients are assumed exactly representable) -/
def ptrunc (n d : Int) : Int := if n < 0 then -((-n) / d) else n / d
def iabs (x : Int) : Int := if x < 0 then -x else x
/-- `round(n/d)` for d > 0: nearest integer, ties to even -/
def pround (n d : Int) : Int :=
  if 2 * (n % d) < d then n / d else if 2 * (n % d) > d then n / d + 1 else if (n / d) % 2 = 0 then n / d else n / d + 1
'''

# glue emitted between generated definitions: virtual dispatch on the class of a `Tz`, and stdlib behaviour that is
# defined in terms of generated definitions
GLUE_TZ = r'''
/-- `tz.name` for `tz : Timezone | FixedTimezone` (dispatch on the class) -/
def tz_name (env : Env) (tz : Tz) : List NamePart :=
  match tz with
  | .fixed o => fixed_name env o
  | t => [NamePart.str (zone_name env t)]

/-- `tz.utcoffset(x)` for `tz : Timezone | FixedTimezone` -/
def tz_utcoffset (env : Env) (tz : Tz) (x : DtVal) : Int :=
  match tz with
  | .fixed o => fixed_utcoffset env o
  | t => env.zone_utcoffset t x

/-- `x.utcoffset()` of a datetime value (stdlib: `None` when naive, else `x.tzinfo.utcoffset(x)`) -/
def dt_utcoffset (env : Env) (x : DtVal) : Option Int :=
  match x.tzinfo with
  | .tz t => some (tz_utcoffset env t x)
  | a => a.utcoffsetOf
'''


class Bad(Exception):
    pass


class NeedsExcept(Exception):
    pass


# ----------------------------------------------------------------------------- symbolic values

LEAN_TY = {"I": "Int", "B": "Bool", "OI": "Option Int", "OB": "Option Bool", "STR": "String", "OSTR": "Option String",
           "TD": "Int", "OTD": "Option Int", "ARG": "TzArg", "TZI": "ReplTz", "TZ": "Tz", "OTZ": "Option Tz",
           "FX": "FixedObj", "DT": "DtVal", "NAME": "List NamePart", "ONAME": "Option (List NamePart)", "TS": "Int",
           "OBJ": "ObjKind", "NI": "NameOrInt", "IR": "InstRes"}
OPT_OF = {"I": "OI", "B": "OB", "TD": "OTD", "TZ": "OTZ", "NAME": "ONAME", "STR": "OSTR"}
BASE_OF = {v: k for k, v in OPT_OF.items()}
DEFAULT = {"I": "0", "B": "false", "TD": "0", "TZ": "Tz.utc", "NAME": "[]", "STR": '""'}


class Val:
    """k = kind; e = Lean term; const = a statically known Python value (int literal, bool); cls = 'n'/'p' for DT (native /
    pendulum); fact = what an `isinstance` test established for an ARG ('num', 'tzinfo', 'tz'); d = denominator term (RAT) /
    value term (OBJ)"""
    def __init__(self, k, e=None, const=None, cls=None, fact=None, d=None):
        self.k, self.e, self.const, self.cls, self.fact, self.d = k, e, const, cls, fact, d

    def but(self, **kw):
        v = Val(self.k, self.e, self.const, self.cls, self.fact, self.d)
        for a, b in kw.items():
            setattr(v, a, b)
        return v


NONE = Val("NONE")


def L(v):
    return f"({v} : Int)"


def coerce(v: Val, k: str) -> str:
    s = v.k
    if s == k:
        return v.e
    if s == "NONE":
        if k in BASE_OF:
            return "none"
        if k == "ARG":
            return "TzArg.none"
        if k == "TZI":
            return "(ReplTz.val TzArg.none)"
    if s == "B" and v.const is True and k == "TZI":
        return "ReplTz.keep"
    if s == "I" and k == "B" and v.const in (0, 1):
        return "true" if v.const else "false"
    if s == "B" and k == "I":
        return f"(if {v.e} then (1 : Int) else 0)"
    if k in BASE_OF:
        if s in BASE_OF:
            raise Bad(f"cannot use a {s} where a {k} is expected")
        return f"(some {coerce(v, BASE_OF[k])})"
    if k == "TZ":
        if s == "FX":
            return f"(Tz.fixed {v.e})"
        if s == "ARG":
            return f"(TzArg.getTz {v.e})"
    if k == "ARG":
        if s == "TZ":
            return f"(TzArg.tz {v.e})"
        if s == "FX":
            return f"(TzArg.tz (Tz.fixed {v.e}))"
        if s == "OTZ":
            return f"(TzArg.ofOptTz {v.e})"
        if s == "STR":
            return f"(TzArg.str {v.e})"
        if s == "I":
            return f"(TzArg.num {v.e} 1)"
    if k == "TZI" and s in ("ARG", "TZ", "FX", "OTZ", "STR"):
        return f"(ReplTz.val {coerce(v, 'ARG')})"
    if k == "NAME" and s == "STR":
        return f"[NamePart.str {v.e}]"
    if k == "NI":
        if s == "I":
            return f"(NameOrInt.int {v.e})"
        if s == "STR":
            return f"(NameOrInt.str {v.e})"
        if s == "ARG":
            return f"(TzArg.asNameOrInt {v.e})"
    raise Bad(f"cannot use a {s} where a {k} is expected")


def join(a: str, b: str) -> str:
    if a == b:
        return a
    S = {a, b}
    if "NONE" in S:
        o = (S - {"NONE"}).pop()
        if o in OPT_OF:
            return OPT_OF[o]
        if o in BASE_OF or o in ("ARG", "TZI"):
            return o
    for base, opt in OPT_OF.items():
        if S == {base, opt}:
            return opt
    if "ARG" in S and S <= {"ARG", "TZ", "OTZ", "STR", "I", "FX"}:
        return "ARG"
    if S == {"NAME", "STR"}:
        return "NAME"
    if S == {"TZ", "FX"}:
        return "TZ"
    if S == {"OTZ", "FX"}:
        return "OTZ"
    raise Bad(f"the two arms of a conditional give a {a} and a {b}")


# ----------------------------------------------------------------------------- the functions to translate

class Fn:
    def __init__(self, key, lean, params, ret, selfk=None, dtcls=None, doc="", stores=False, init=False):
        self.key, self.lean, self.params, self.ret, self.selfk = key, lean, params, ret, selfk
        self.dtcls, self.doc, self.stores, self.init = dtcls, doc, stores, init
        self.exc = False
        self.node = None
        self.defaults = {}
        self.done = False
        self.ctx = None          # which file the function lives in: 'init', 'tzinit', 'tzmod', 'dtmod'

    @property
    def ret_kind(self):
        return self.ret.split(":")[0]

    @property
    def ret_cls(self):
        return self.ret.split(":")[1] if ":" in self.ret else None


P7 = [(f, "I") for f in F7]
O7 = [(f, "OI") for f in F7]


def fn_table():
    T = []
    a = T.append
    # tz/timezone.py
    a(Fn("FixedTimezone.__init__", "fixed_init", [("offset", "I"), ("name", "ONAME")], "FX", selfk="new", init=True,
         doc="`FixedTimezone(offset, name)`: the state `__init__` stores (the default name as f-string pieces)"))
    a(Fn("FixedTimezone.name", "fixed_name", [], "NAME", selfk="FX", doc="property `FixedTimezone.name`"))
    a(Fn("FixedTimezone.offset", "fixed_offset", [], "I", selfk="FX", doc="property `FixedTimezone.offset`"))
    a(Fn("FixedTimezone.utcoffset", "fixed_utcoffset", [("dt", "_")], "TD", selfk="FX", doc="`FixedTimezone.utcoffset(dt)` (µs)"))
    a(Fn("FixedTimezone.dst", "fixed_dst", [("dt", "_")], "TD", selfk="FX", doc="`FixedTimezone.dst(dt)` (µs)"))
    a(Fn("FixedTimezone.tzname", "fixed_tzname", [("dt", "_")], "NAME", selfk="FX", doc="`FixedTimezone.tzname(dt)`"))
    a(Fn("Timezone.name", "zone_name", [], "STR", selfk="TZ", doc="property `Timezone.name`"))
    # tz/__init__.py, __init__.py
    a(Fn("tzinit:fixed_timezone", "fixed_timezone", [("offset", "I")], "TZ", stores=True,
         doc="`fixed_timezone(offset)`: the timezone returned and the `_tz_cache[k] = v` stores performed"))
    a(Fn("init:timezone", "p_timezone", [("name", "NI")], "TZ", doc="`pendulum.timezone(name)`"))
    a(Fn("init:_safe_timezone", "safe_timezone", [("obj", "ARG"), ("dt", "_")], "TZ", doc="`pendulum._safe_timezone(obj, dt)`"))
    # (GLUE_TZ goes here)
    a(Fn("FixedTimezone.fromutc", "fixed_fromutc", [("dt", "DT:n")], "DT:n", selfk="FX", doc="`FixedTimezone.fromutc(dt)`"))
    a(Fn("Timezone.convert", "zone_convert_n", [("dt", "DT:n"), ("raise_on_unknown_times", "B")], "DT:n", selfk="TZ", dtcls="n",
         doc="`Timezone.convert(dt, raise_on_unknown_times)` for a plain `datetime.datetime`"))
    a(Fn("FixedTimezone.convert", "fixed_convert_n", [("dt", "DT:n"), ("raise_on_unknown_times", "B")], "DT:n", selfk="FX", dtcls="n",
         doc="`FixedTimezone.convert(dt, raise_on_unknown_times)` for a plain `datetime.datetime`"))
    a(Fn("Timezone.datetime", "zone_datetime", P7, "DT:n", selfk="TZ", doc="`Timezone.datetime(year, …)`"))
    a(Fn("FixedTimezone.datetime", "fixed_datetime", P7, "DT:n", selfk="FX", doc="`FixedTimezone.datetime(year, …)`"))
    # datetime.py
    a(Fn("DateTime.timezone", "dt_timezone", [], "OTZ", selfk="DT:p", doc="property `DateTime.timezone`"))
    a(Fn("DateTime.tz", "dt_tz", [], "OTZ", selfk="DT:p", doc="property `DateTime.tz`"))
    a(Fn("DateTime.timezone_name", "dt_timezone_name", [], "ONAME", selfk="DT:p", doc="property `DateTime.timezone_name`"))
    a(Fn("DateTime.get_offset", "dt_get_offset", [], "OI", selfk="DT:p", doc="`DateTime.get_offset()` (seconds)"))
    a(Fn("DateTime.offset", "dt_offset", [], "OI", selfk="DT:p", doc="property `DateTime.offset`"))
    a(Fn("DateTime.naive", "dt_naive", [], "DT:p", selfk="DT:p", doc="`DateTime.naive()`"))
    a(Fn("DateTime.int_timestamp", "dt_int_timestamp", [], "I", selfk="DT:p", doc="property `DateTime.int_timestamp`"))
    a(Fn("DateTime.create", "dt_create", P7 + [("tz", "ARG"), ("fold", "B"), ("raise_on_unknown_times", "B")], "DT:p", selfk="cls",
         doc="`DateTime.create(year, …, tz, fold, raise_on_unknown_times)`"))
    a(Fn("DateTime.replace", "dt_replace", O7 + [("tzinfo", "TZI"), ("fold", "OB")], "DT:p", selfk="DT:p", doc="`DateTime.replace(…)`"))
    a(Fn("DateTime.set", "dt_set", O7 + [("tz", "ARG")], "DT:p", selfk="DT:p", doc="`DateTime.set(…)`"))
    a(Fn("DateTime.on", "dt_on", P7[:3], "DT:p", selfk="DT:p", doc="`DateTime.on(year, month, day)`"))
    a(Fn("DateTime.at", "dt_at", P7[3:], "DT:p", selfk="DT:p", doc="`DateTime.at(hour, minute, second, microsecond)`"))
    a(Fn("DateTime.astimezone", "dt_astimezone", [("tz", "ARG")], "DT:p", selfk="DT:p", doc="`DateTime.astimezone(tz)`"))
    a(Fn("Timezone.convert", "zone_convert_p", [("dt", "DT:p"), ("raise_on_unknown_times", "B")], "DT:p", selfk="TZ", dtcls="p",
         doc="`Timezone.convert(dt, raise_on_unknown_times)` for a pendulum `DateTime`"))
    a(Fn("FixedTimezone.convert", "fixed_convert_p", [("dt", "DT:p"), ("raise_on_unknown_times", "B")], "DT:p", selfk="FX", dtcls="p",
         doc="`FixedTimezone.convert(dt, raise_on_unknown_times)` for a pendulum `DateTime`"))
    a(Fn("DateTime.in_timezone", "dt_in_timezone", [("tz", "ARG")], "DT:p", selfk="DT:p", doc="`DateTime.in_timezone(tz)`"))
    a(Fn("DateTime.in_tz", "dt_in_tz", [("tz", "ARG")], "DT:p", selfk="DT:p", doc="`DateTime.in_tz(tz)`"))
    a(Fn("DateTime.instance", "dt_instance", [("dt", "DT:n"), ("tz", "ARG")], "DT:p", selfk="cls", doc="`DateTime.instance(dt, tz)`"))
    # __init__.py
    a(Fn("init:datetime", "p_datetime", P7 + [("tz", "ARG"), ("fold", "B"), ("raise_on_unknown_times", "B")], "DT:p",
         doc="`pendulum.datetime(…)`"))
    a(Fn("init:local", "p_local", P7, "DT:p", doc="`pendulum.local(…)`"))
    a(Fn("init:naive", "p_naive", P7 + [("fold", "B")], "DT:p", doc="`pendulum.naive(…)`"))
    a(Fn("init:instance", "p_instance", [("obj", "OBJ"), ("tz", "ARG")], "IR", doc="`pendulum.instance(obj, tz)`"))
    a(Fn("init:from_timestamp", "p_from_timestamp", [("timestamp", "TS"), ("tz", "ARG")], "DT:p",
         doc="`pendulum.from_timestamp(timestamp, tz)` (timestamp in µs)"))
    return T


# ----------------------------------------------------------------------------- method translator

def q(s: str) -> str:
    return '"' + s.replace("\\", "\\\\").replace('"', '\\"') + '"'


def is_doc(s):
    return isinstance(s, ast.Expr) and isinstance(s.value, ast.Constant) and isinstance(s.value.value, str)


def assign_only(s) -> bool:
    if is_doc(s):
        return True
    if isinstance(s, ast.Assign):
        return len(s.targets) == 1
    if isinstance(s, ast.AnnAssign):
        return s.value is not None
    if isinstance(s, ast.If):
        return all(assign_only(t) for t in s.body) and all(assign_only(t) for t in s.orelse)
    return False


def assigned_names(stmts, acc=None):
    acc = [] if acc is None else acc
    for s in stmts:
        if isinstance(s, (ast.Assign, ast.AnnAssign)):
            t = s.targets[0] if isinstance(s, ast.Assign) else s.target
            for n in (t.elts if isinstance(t, ast.Tuple) else [t]):
                if isinstance(n, ast.Name) and n.id not in acc:
                    acc.append(n.id)
        elif isinstance(s, ast.If):
            assigned_names(s.body, acc)
            assigned_names(s.orelse, acc)
    return acc


def class_names(x):
    xs = x.elts if isinstance(x, ast.Tuple) else [x]
    return frozenset(ast.unparse(e).split(".")[-1] for e in xs)


US_PER_DAY = 86400 * 1000000
DT_PROPS = ("timezone", "tz", "timezone_name", "offset", "int_timestamp")
FX_ATTR = {"_name": ("NAME", "name"), "_offset": ("I", "offset"), "_utcoffset": ("TD", "utcoffset")}


class M:
    def __init__(self, fn: Fn, reg: dict, consts: dict, info: dict, exc: bool):
        self.fn, self.reg, self.consts, self.info, self.exc = fn, reg, consts, info, exc
        self.n = 0
        self.pend = []

    def fresh(self, base):
        self.n += 1
        return f"{base.strip('_') or 'v'}_{self.n}"

    def flush(self, mark=0):
        items = self.pend[mark:]
        del self.pend[mark:]
        return items

    def effect(self, term, kind, cls=None, base="r"):
        if not self.exc:
            raise NeedsExcept()
        n = self.fresh(base)
        self.pend.append(("bind", n, LEAN_TY[kind], term))
        return Val(kind, n, cls=cls)

    def get(self, key):
        fn = self.reg.get(key)
        if fn is None or not fn.done:
            raise Bad(f"it uses {key}, which could not be translated")
        return fn

    def call_fn(self, fn: Fn, args, recv=None, base="r"):
        term = "(" + " ".join([fn.lean, "env"] + ([recv] if recv is not None else []) + list(args)) + ")"
        if fn.stores:
            term = f"{term}.1"
        if fn.exc:
            return self.effect(term, fn.ret_kind, cls=fn.ret_cls, base=base)
        return Val(fn.ret_kind, term, cls=fn.ret_cls)

    def bind_args(self, fn: Fn, x: ast.Call, env):
        names = [p for p, _ in fn.params]
        given = {}
        if any(isinstance(a, ast.Starred) for a in x.args):
            raise Bad("`*args` in a call of " + fn.key)
        if len(x.args) > len(names):
            raise Bad("too many positional arguments for " + fn.key)
        for pn, a in zip(names, x.args):
            given[pn] = a
        for kw in x.keywords:
            if kw.arg is None or kw.arg not in names or kw.arg in given:
                raise Bad(f"unexpected keyword {kw.arg} in a call of {fn.key}")
            given[kw.arg] = kw.value
        out = []
        for pn, pk in fn.params:
            if pk == "_":
                continue
            k = pk.split(":")[0]
            if pn in given:
                v = self.ev(given[pn], env)
            elif pn in fn.defaults:
                v = self.ev(fn.defaults[pn], {})
            else:
                raise Bad(f"argument {pn} of {fn.key} is missing")
            if k == "DT":
                if v.k != "DT" or v.cls != pk.split(":")[1]:
                    raise Bad(f"argument {pn} of {fn.key}: a {v.k}:{v.cls} where {pk} is expected")
                out.append(v.e)
            elif k == "OBJ":
                if v.k != "OBJ":
                    raise Bad(f"argument {pn} of {fn.key} is not the object")
                out += [v.e, v.d]
            else:
                out.append(coerce(v, k))
        return out

    # ---- expressions
    def as_rat(self, v):
        if v.k == "RAT":
            return v
        if v.k == "I":
            return Val("RAT", v.e, d=L(1))
        if v.k == "ARG" and v.fact == "num":
            return Val("RAT", f"(TzArg.numer {v.e})", d=f"(TzArg.denom {v.e})")
        return None

    def ev(self, x, env) -> Val:
        if isinstance(x, ast.Constant):
            c = x.value
            if c is None:
                return NONE
            if isinstance(c, bool):
                return Val("B", "true" if c else "false", const=c)
            if isinstance(c, int):
                return Val("I", L(c), const=c)
            if isinstance(c, str):
                return Val("STR", q(c), const=c)
            raise Bad("constant outside the subset: " + repr(c))
        if isinstance(x, ast.Name):
            if x.id in env:
                return env[x.id]
            if x.id == "UTC" and self.info.get("utc_ok"):
                return Val("TZ", "Tz.utc")
            if x.id == "cls" and self.fn.selfk == "cls":
                return Val("CLS")
            if isinstance(self.consts.get(x.id), int) and not isinstance(self.consts.get(x.id), bool):
                return Val("I", L(self.consts[x.id]), const=self.consts[x.id])
            raise Bad("unknown name " + x.id)
        if isinstance(x, ast.JoinedStr):
            return self.fstring(x, env)
        if isinstance(x, ast.IfExp):
            return self.ifexp(x, env)
        if isinstance(x, ast.BoolOp):
            if isinstance(x.op, ast.Or) and len(x.values) == 2:
                mark = len(self.pend)
                a = self.ev(x.values[0], env)
                if a.k == "ARG":
                    b = self.ev(x.values[1], env)
                    return Val("ARG", f"(TzArg.orElse {a.e} {coerce(b, 'ARG')})")
                del self.pend[mark:]
            return self.b(x, env)
        if isinstance(x, ast.UnaryOp):
            if isinstance(x.op, ast.Not):
                return self.b(x, env)
            if isinstance(x.op, ast.USub):
                v = self.ev(x.operand, env)
                if v.k in ("I", "TD"):
                    return Val(v.k, f"(-{v.e})", const=(-v.const if v.const is not None else None))
            raise Bad("unary operator outside the subset: " + ast.unparse(x)[:80])
        if isinstance(x, ast.Compare):
            return self.b(x, env)
        if isinstance(x, ast.BinOp):
            return self.binop(x, env)
        if isinstance(x, ast.Attribute):
            return self.attribute(x, env)
        if isinstance(x, ast.Subscript):
            if ast.unparse(x.value) == "_tz_cache" and self.fn.stores:
                k = self.ev(x.slice, env)
                if k.k != "I":
                    raise Bad("_tz_cache is indexed by something that is not an int")
                return Val("TZ", f"(Option.getD (env.tz_cache {k.e}) Tz.utc)")
            raise Bad("subscript outside the subset: " + ast.unparse(x)[:80])
        if isinstance(x, ast.Call):
            return self.call(x, env)
        raise Bad("expression outside the subset: " + ast.unparse(x)[:120])

    def fstring(self, x, env):
        parts = []
        for p in x.values:
            if isinstance(p, ast.Constant) and isinstance(p.value, str):
                parts.append(f"NamePart.str {q(p.value)}")
            elif isinstance(p, ast.FormattedValue) and p.conversion == -1:
                spec = ""
                if p.format_spec is not None:
                    fs = p.format_spec
                    if not (isinstance(fs, ast.JoinedStr) and all(isinstance(c, ast.Constant) for c in fs.values)):
                        raise Bad("computed format spec")
                    spec = "".join(c.value for c in fs.values)
                v = self.ev(p.value, env)
                if v.k == "STR" and not spec:
                    parts.append(f"NamePart.str {v.e}")
                elif v.k == "I":
                    parts.append(f"NamePart.int {q(spec)} {v.e}")
                else:
                    raise Bad("f-string piece outside the subset: " + ast.unparse(p)[:80])
            else:
                raise Bad("f-string piece outside the subset")
        return Val("NAME", "[" + ", ".join(parts) + "]")

    def inline(self, items, body):
        for kind, n, ty, term in reversed(items):
            if kind == "let":
                body = f"(let {n} : {ty} := {term}; {body})"
            else:
                body = f"(Except.bind (({term}) : Except String {ty}) (fun ({n} : {ty}) => {body}))"
        return body

    def ifexp(self, x, env):
        c = self.b(x.test, env)
        if c.const is not None:
            return self.ev(x.body if c.const else x.orelse, self.narrow(x.test, env, c.const))
        mark = len(self.pend)
        a = self.ev(x.body, self.narrow(x.test, env, True))
        ia = self.flush(mark)
        b = self.ev(x.orelse, self.narrow(x.test, env, False))
        ib = self.flush(mark)
        k = join(a.k, b.k)
        if k in ("RAT", "TUP", "OBJ", "CLS", "EPOCH"):
            raise Bad("conditional expression over a " + k)
        cls = None
        if k == "DT":
            if a.cls != b.cls:
                raise Bad("conditional expression over a native and a pendulum value")
            cls = a.cls
        ta, tb = coerce(a, k), coerce(b, k)
        if ia or ib:
            term = f"(if {c.e} then {self.inline(ia, '(.ok ' + ta + ')')} else {self.inline(ib, '(.ok ' + tb + ')')})"
            return self.effect(term, k, cls=cls, base="c")
        return Val(k, f"(if {c.e} then {ta} else {tb})", cls=cls)

    def binop(self, x, env):
        a, b = self.ev(x.left, env), self.ev(x.right, env)
        op = type(x.op)
        if a.k == "I" and a.const == 1 and b.k == "B" and op is ast.Sub:
            return Val("B", f"(!{b.e})")                       # `1 - fold` of a 0/1 flag
        if a.k == "DT" and b.k == "TD" and op in (ast.Add, ast.Sub):
            td = b.e if op is ast.Add else f"(-{b.e})"
            callee = "env.native_add" if a.cls == "n" else "env.pdt_add"
            return self.effect(f"({callee} {a.e} {td})", "DT", cls=a.cls, base="sum")
        if a.k == "DT" and b.k == "EPOCH" and op is ast.Sub:
            return Val("TD", f"(env.sub_epoch {a.e})")
        if a.k == "TD" and b.k == "TD" and op in (ast.Add, ast.Sub):
            return Val("TD", f"({a.e} {'+' if op is ast.Add else '-'} {b.e})")
        if a.k == "I" and b.k == "I":
            if op in (ast.Add, ast.Sub, ast.Mult):
                o = {ast.Add: "+", ast.Sub: "-", ast.Mult: "*"}[op]
                return Val("I", f"({a.e} {o} {b.e})")
            if op in (ast.FloorDiv, ast.Mod) and b.const is not None and b.const > 0:
                return Val("I", f"({a.e} {'/' if op is ast.FloorDiv else '%'} {b.e})")
        ra, rb = self.as_rat(a), self.as_rat(b)
        if ra is not None and rb is not None and (a.k != "I" or b.k != "I" or op is ast.Div):
            if op is ast.Mult and b.k == "I":
                return Val("RAT", f"({ra.e} * {b.e})", d=ra.d)
            if op is ast.Mult and a.k == "I":
                return Val("RAT", f"({a.e} * {rb.e})", d=rb.d)
            if op is ast.Div and b.k == "I" and b.const is not None and b.const > 0:
                return Val("RAT", ra.e, d=f"({ra.d} * {b.e})" if ra.d != L(1) else b.e)
            if op in (ast.Add, ast.Sub) and b.k == "I":
                return Val("RAT", f"({ra.e} {'+' if op is ast.Add else '-'} ({b.e} * {ra.d}))", d=ra.d)
            if op in (ast.Add, ast.Sub) and a.k == "I":
                return Val("RAT", f"(({a.e} * {rb.d}) {'+' if op is ast.Add else '-'} {rb.e})", d=rb.d)
        raise Bad("arithmetic outside the subset: " + ast.unparse(x)[:100])

    # ---- conditions
    def neg(self, v):
        if v.const is not None:
            return Val("B", "false" if v.const else "true", const=not v.const)
        return Val("B", f"(!{v.e})")

    def truth(self, v):
        if v.k == "B":
            return v
        if v.k == "NONE":
            return Val("B", "false", const=False)
        if v.k == "I":
            if v.const is not None:
                return Val("B", "true" if v.const else "false", const=bool(v.const))
            return Val("B", f"(decide ({v.e} ≠ 0))")
        if v.k in BASE_OF:
            return Val("B", f"({v.e}).isSome")
        if v.k == "ARG":
            return Val("B", f"(!(TzArg.isNone {v.e}))")
        if v.k in ("TZ", "FX", "DT"):
            return Val("B", "true", const=True)
        raise Bad("truth value of a " + v.k)

    def b(self, x, env) -> Val:
        if isinstance(x, ast.UnaryOp) and isinstance(x.op, ast.Not):
            return self.neg(self.b(x.operand, env))
        if isinstance(x, ast.BoolOp):
            isand = isinstance(x.op, ast.And)
            vs = []
            cur = env
            for t in x.values:
                mark = len(self.pend)
                v = self.b(t, cur)
                if vs and len(self.pend) > mark:
                    raise Bad("a call that may raise inside and/or")
                cur = self.narrow(t, cur, isand)
                if v.const is not None:
                    if v.const == isand:
                        continue
                    return Val("B", "false" if isand else "true", const=not isand)
                vs.append(v)
            if not vs:
                return Val("B", "true" if isand else "false", const=isand)
            if len(vs) == 1:
                return vs[0]
            return Val("B", "(" + (" && " if isand else " || ").join(w.e for w in vs) + ")")
        if isinstance(x, ast.Compare):
            return self.compare(x, env)
        if isinstance(x, ast.Call) and isinstance(x.func, ast.Name) and x.func.id in ("isinstance", "hasattr") and len(x.args) == 2:
            v = self.ev(x.args[0], env)
            if x.func.id == "hasattr":
                a = x.args[1]
                if v.k == "ARG" and isinstance(a, ast.Constant) and a.value in ("key", "localize"):
                    return Val("B", f"(TzArg.{'hasKey' if a.value == 'key' else 'hasLocalize'} {v.e})")
                raise Bad("hasattr outside the subset: " + ast.unparse(x)[:80])
            cn = class_names(x.args[1])
            if v.k == "ARG":
                if cn == {"Timezone", "FixedTimezone"}:
                    return Val("B", f"(TzArg.isTz {v.e})")
                if cn == {"int", "float"}:
                    return Val("B", f"(TzArg.isNum {v.e})")
                if cn == {"tzinfo"}:
                    return Val("B", f"(TzArg.isTzinfo {v.e})")
            if v.k == "NI" and cn == {"int"}:
                return Val("B", f"(NameOrInt.isInt {v.e})")
            if v.k == "OBJ" and cn <= {"DateTime", "Date", "Time", "datetime", "date", "time"}:
                ts = [f"(ObjKind.isa {v.e} {q(c)})" for c in [ast.unparse(e).split(".")[-1] for e in
                      (x.args[1].elts if isinstance(x.args[1], ast.Tuple) else [x.args[1]])]]
                return Val("B", ts[0] if len(ts) == 1 else "(" + " || ".join(ts) + ")")
            raise Bad("isinstance outside the subset: " + ast.unparse(x)[:80])
        return self.truth(self.ev(x, env))

    def compare(self, x, env):
        if len(x.ops) != 1:
            raise Bad("chained comparison: " + ast.unparse(x)[:80])
        op = x.ops[0]
        lv = self.ev(x.left, env)
        if isinstance(op, ast.In) and ast.unparse(x.comparators[0]) == "_tz_cache" and lv.k == "I":
            return Val("B", f"(env.tz_cache {lv.e}).isSome")
        rv = self.ev(x.comparators[0], env)
        if isinstance(op, (ast.Is, ast.IsNot)):
            if rv.k == "NONE":
                if lv.k == "NONE":
                    t = Val("B", "true", const=True)
                elif lv.k in BASE_OF:
                    t = Val("B", f"({lv.e}).isNone")
                elif lv.k == "ARG":
                    t = Val("B", f"(TzArg.isNone {lv.e})")
                elif lv.k in ("TZI",):
                    raise Bad("`is None` on the tzinfo argument before `is True` was tested")
                else:
                    t = Val("B", "false", const=False)
            elif rv.k == "B" and rv.const is True:
                if lv.k == "TZI":
                    t = Val("B", f"(ReplTz.isKeep {lv.e})")
                elif lv.k == "B" and lv.const is True:
                    t = Val("B", "true", const=True)
                else:
                    t = Val("B", "false", const=False)
            elif rv.k == "TZ" and rv.e == "Tz.utc" and lv.k == "ARG":
                t = Val("B", f"(TzArg.isUTCObj {lv.e})")
            elif rv.k == "TZ" and rv.e == "Tz.utc" and lv.k == "TZ":
                t = Val("B", f"(decide ({lv.e} = Tz.utc))")
            else:
                raise Bad("identity test outside the subset: " + ast.unparse(x)[:80])
            return self.neg(t) if isinstance(op, ast.IsNot) else t
        o = {ast.Eq: "=", ast.NotEq: "≠", ast.Lt: "<", ast.LtE: "≤", ast.Gt: ">", ast.GtE: "≥"}.get(type(op))
        if o is None:
            raise Bad("comparison outside the subset: " + ast.unparse(x)[:80])
        if o in ("=", "≠"):
            t = None
            if lv.k == "ARG" and rv.k == "STR":
                t = Val("B", f"(TzArg.eqStr {lv.e} {rv.e})")
            elif lv.k == "STR" and rv.k == "STR":
                t = Val("B", f"({lv.e} == {rv.e})")
            elif lv.k == "OSTR" and rv.k == "STR":
                t = Val("B", f"({lv.e} == some {rv.e})")
            elif lv.k == "B" and rv.k == "B":
                t = Val("B", f"({lv.e} == {rv.e})")
            if t is not None:
                return t if o == "=" else self.neg(t)
        if lv.k in ("I", "TD") and rv.k == lv.k:
            return Val("B", f"(decide ({lv.e} {o} {rv.e}))")
        raise Bad("comparison outside the subset: " + ast.unparse(x)[:80])

    def narrow(self, t, env, pol):
        env = dict(env)
        if isinstance(t, ast.UnaryOp) and isinstance(t.op, ast.Not):
            return self.narrow(t.operand, env, not pol)
        if isinstance(t, ast.BoolOp):
            if isinstance(t.op, ast.And) == pol:
                for v in t.values:
                    env = self.narrow(v, env, pol)
            return env
        if isinstance(t, ast.Compare) and len(t.ops) == 1 and isinstance(t.ops[0], (ast.Is, ast.IsNot)) \
                and isinstance(t.left, ast.Name) and t.left.id in env and isinstance(t.comparators[0], ast.Constant):
            v, c = env[t.left.id], t.comparators[0].value
            holds = isinstance(t.ops[0], ast.Is) == pol
            if c is None:
                if holds and (v.k in BASE_OF or v.k == "ARG"):
                    env[t.left.id] = NONE
                elif not holds and v.k in BASE_OF:
                    env[t.left.id] = Val(BASE_OF[v.k], f"(Option.getD {v.e} {DEFAULT[BASE_OF[v.k]]})")
            elif c is True and v.k == "TZI":
                env[t.left.id] = Val("B", "true", const=True) if holds else Val("ARG", f"(ReplTz.getVal {v.e})")
            return env
        if isinstance(t, ast.Call) and isinstance(t.func, ast.Name) and t.func.id == "isinstance" and len(t.args) == 2 \
                and isinstance(t.args[0], ast.Name) and t.args[0].id in env:
            v, cn = env[t.args[0].id], class_names(t.args[1])
            if v.k == "ARG" and pol:
                fact = {frozenset({"int", "float"}): "num", frozenset({"tzinfo"}): "tzinfo",
                        frozenset({"Timezone", "FixedTimezone"}): "tz"}.get(cn)
                if fact:
                    env[t.args[0].id] = v.but(fact=fact)
            if v.k == "NI" and cn == {"int"}:
                env[t.args[0].id] = Val("I", f"(NameOrInt.getInt {v.e})") if pol else Val("STR", f"(NameOrInt.getStr {v.e})")
            return env
        if isinstance(t, ast.Name) and t.id in env and env[t.id].k in BASE_OF:
            v = env[t.id]
            env[t.id] = Val(BASE_OF[v.k], f"(Option.getD {v.e} {DEFAULT[BASE_OF[v.k]]})") if pol else NONE
        return env

    # ---- attributes and calls
    def paren(self, e):
        return e if e.replace("_", "a").isalnum() else f"({e})"

    def attribute(self, x, env):
        a = x.attr
        if a == "_EPOCH" and isinstance(x.value, ast.Name) and x.value.id == "self" and self.fn.selfk == "DT:p":
            if not self.info.get("epoch_ok"):
                raise Bad("DateTime._EPOCH is no longer datetime.datetime(1970, 1, 1, tzinfo=UTC)")
            return Val("EPOCH")
        v = self.ev(x.value, env)
        if v.k == "DT":
            if a in F7:
                return Val("I", f"{self.paren(v.e)}.{a}")
            if a == "fold":
                return Val("B", f"{self.paren(v.e)}.fold")
            if a == "tzinfo":
                return Val("ARG", f"{self.paren(v.e)}.tzinfo")
            if v.cls == "p" and a in DT_PROPS:
                return self.call_fn(self.get("DateTime." + a), [], recv=v.e, base=a)
            raise Bad(f"attribute {a} of a datetime value")
        if v.k == "FX":
            if a in FX_ATTR:
                return Val(FX_ATTR[a][0], f"{self.paren(v.e)}.{FX_ATTR[a][1]}")
            if a in ("name", "offset"):
                return self.call_fn(self.get("FixedTimezone." + a), [], recv=v.e)
            raise Bad(f"attribute {a} of a FixedTimezone")
        if v.k == "TZ":
            if a == "key" and v.fact == "zone":
                return Val("STR", f"(Tz.key {v.e})")
            if a == "name":
                if v.fact == "zone":
                    return self.call_fn(self.get("Timezone.name"), [], recv=v.e)
                return Val("NAME", f"(tz_name env {v.e})") if self.info.get("glue_tz") else self._bad("tz.name before the dispatch glue")
            raise Bad(f"attribute {a} of a timezone")
        if v.k == "ARG" and a in ("key", "zone"):
            return Val("STR", f"(TzArg.{a} {v.e})")
        if v.k == "TD" and a in ("days", "seconds", "microseconds"):
            e = {"days": f"({v.e} / {L(US_PER_DAY)})", "seconds": f"(({v.e} % {L(US_PER_DAY)}) / {L(1000000)})",
                 "microseconds": f"({v.e} % {L(1000000)})"}[a]
            return Val("I", e)
        if v.k == "OBJ" and a in F7[:3]:
            return Val("I", f"{self.paren(v.d)}.{a}")
        raise Bad("attribute outside the subset: " + ast.unparse(x)[:100])

    def _bad(self, msg):
        raise Bad(msg)

    def mk_dt(self, x, env, cls):
        kws = {k.arg: k.value for k in x.keywords}
        if None in kws or set(kws) - {"tzinfo", "fold"} or any(isinstance(a, ast.Starred) for a in x.args):
            raise Bad("datetime constructor call outside the subset: " + ast.unparse(x)[:100])
        if not 3 <= len(x.args) <= 7:
            raise Bad("datetime constructor needs 3 to 7 positional fields")
        fs = []
        for a in x.args:
            v = self.ev(a, env)
            if v.k != "I":
                raise Bad("a datetime field that is not an int: " + ast.unparse(a)[:60])
            fs.append(v.e)
        fs += [L(0)] * (7 - len(fs))
        fold = coerce(self.ev(kws["fold"], env), "B") if "fold" in kws else "false"
        tzi = coerce(self.ev(kws["tzinfo"], env), "ARG") if "tzinfo" in kws else "TzArg.none"
        return Val("DT", "(DtVal.mk " + " ".join(fs) + f" {fold} {tzi})", cls=cls)

    def native_replace(self, v, x, env):
        if x.args or any(k.arg is None or k.arg not in F7 + ["fold", "tzinfo"] for k in x.keywords):
            raise Bad("replace(...) outside the subset: " + ast.unparse(x)[:100])
        ups = []
        for k in x.keywords:
            w = self.ev(k.value, env)
            ups.append(f"{k.arg} := " + coerce(w, "B" if k.arg == "fold" else "ARG" if k.arg == "tzinfo" else "I"))
        return Val("DT", "{ " + v.e + " with " + ", ".join(ups) + " }", cls="n")

    def call(self, x, env):
        f = x.func
        fsrc = ast.unparse(f)
        ctx = self.fn.ctx
        kws = {k.arg: k.value for k in x.keywords}
        nargs = len(x.args)
        if fsrc == "cast" and nargs == 2 and not kws:
            return self.ev(x.args[1], env)
        if fsrc in ("isinstance", "hasattr"):
            return self.b(x, env)
        if fsrc == "int" and nargs == 1 and not kws:
            v = self.ev(x.args[0], env)
            if v.k in ("I", "B"):
                return v
            r = self.as_rat(v)
            if r is not None:
                return Val("I", f"(ptrunc {r.e} {r.d})")
            raise Bad("int() of a " + v.k)
        if fsrc == "abs" and nargs == 1 and not kws:
            v = self.ev(x.args[0], env)
            if v.k == "I":
                return Val("I", f"(iabs {v.e})")
            r = self.as_rat(v)
            if r is not None:
                return Val("RAT", f"(iabs {r.e})", d=r.d)
            raise Bad("abs() of a " + v.k)
        if fsrc == "round" and nargs == 1 and not kws:
            v = self.ev(x.args[0], env)
            if v.k == "I":
                return v
            r = self.as_rat(v)
            if r is not None:
                return Val("I", f"(pround {r.e} {r.d})")
            raise Bad("round() of a " + v.k)
        if fsrc == "divmod" and nargs == 2 and not kws:
            a, b = self.ev(x.args[0], env), self.ev(x.args[1], env)
            if a.k == "I" and b.k == "I" and b.const is not None and b.const > 0:
                return Val("TUP", [Val("I", f"({a.e} / {b.e})"), Val("I", f"({a.e} % {b.e})")])
            raise Bad("divmod outside the subset")
        if fsrc in ("datetime.datetime", "_datetime.datetime") and not (ctx == "init" and fsrc == "datetime.datetime"):
            return self.mk_dt(x, env, "n")
        if fsrc in ("cls", "self.__class__") and self.fn.selfk in ("cls", "DT:p"):
            return self.mk_dt(x, env, "p")
        if fsrc == "DateTime" and ctx == "init":
            return self.mk_dt(x, env, "p")
        if isinstance(f, ast.Attribute) and f.attr == "__class__" and isinstance(f.value, ast.Name) and f.value.id in env \
                and env[f.value.id].k == "DT":
            return self.mk_dt(x, env, env[f.value.id].cls)
        if fsrc in ("datetime.timedelta", "_datetime.timedelta", "timedelta"):
            if not x.args and not kws:
                return Val("TD", L(0))
            if nargs == 1 and not kws:
                v = self.ev(x.args[0], env)
                if v.k == "I":
                    return Val("TD", L(0) if v.const == 0 else f"({v.e} * {L(US_PER_DAY)})")
            if not x.args and set(kws) == {"seconds"}:
                v = self.ev(kws["seconds"], env)
                if v.k == "I":
                    return Val("TD", f"({v.e} * {L(1000000)})")
            if not x.args and set(kws) == {"microseconds"}:
                v = self.ev(kws["microseconds"], env)
                if v.k == "I":
                    return Val("TD", v.e)
            raise Bad("timedelta(...) outside the subset: " + ast.unparse(x)[:80])
        if fsrc == "FixedTimezone" and ctx in ("tzinit", "init"):
            fn = self.get("FixedTimezone.__init__")
            return self.call_fn(fn, self.bind_args(fn, x, env))
        if fsrc == "Timezone" and ctx == "init" and nargs == 1 and not kws:
            v = self.ev(x.args[0], env)
            if v.k == "STR":
                return Val("TZ", f"(Tz.named {v.e})")
            raise Bad("Timezone(...) of a " + v.k)
        if fsrc in ("datetime.datetime.utcfromtimestamp", "_datetime.datetime.utcfromtimestamp") and nargs == 1 and not kws:
            v = self.ev(x.args[0], env)
            if v.k == "TS":
                return Val("DT", f"(env.utcfromtimestamp {v.e})", cls="n")
            raise Bad("utcfromtimestamp of a " + v.k)
        if fsrc in ("datetime.datetime.__add__", "_datetime.datetime.__add__") and nargs == 2 and not kws:
            a, b = self.ev(x.args[0], env), self.ev(x.args[1], env)
            if a.k == "DT" and b.k == "TD":
                return self.effect(f"(env.native_add {a.e} {b.e})", "DT", cls="n", base="sum")
            raise Bad("datetime.__add__ outside the subset")
        if fsrc == "super().astimezone" and self.fn.selfk == "DT:p" and nargs == 1 and not kws:
            v = self.ev(x.args[0], env)
            return self.effect(f"(env.native_astimezone self {coerce(v, 'ARG')})", "DT", cls="n", base="dt")
        if fsrc in ("local_timezone", "pendulum.local_timezone") and not x.args and not kws:
            return Val("TZ", "env.local_timezone")
        named = {"init": {"timezone": "init:timezone", "_safe_timezone": "init:_safe_timezone", "datetime": "init:datetime",
                          "fixed_timezone": "tzinit:fixed_timezone"},
                 "dtmod": {"pendulum._safe_timezone": "init:_safe_timezone"}, "tzinit": {}, "tzmod": {}}[ctx]
        if fsrc in named:
            fn = self.get(named[fsrc])
            return self.call_fn(fn, self.bind_args(fn, x, env), base=fsrc.split(".")[-1].strip("_"))
        if ctx == "init" and self.fn.ret_kind == "IR":
            if fsrc == "date" and nargs == 3 and not kws:
                ts = [self.ev(a, env) for a in x.args]
                if all(t.k == "I" for t in ts):
                    return Val("IR", "(InstRes.date " + " ".join(t.e for t in ts) + ")")
            if fsrc == "Time.instance" and nargs == 1 and set(kws) == {"tz"} and self.ev(x.args[0], env).k == "OBJ":
                return Val("IR", f"(InstRes.timeInstance {coerce(self.ev(kws['tz'], env), 'ARG')})")
            if fsrc == "DateTime.instance":
                fn = self.get("DateTime.instance")
                o = self.ev(x.args[0], env) if x.args else None
                if o is None or o.k != "OBJ" or nargs != 1 or set(kws) != {"tz"}:
                    raise Bad("DateTime.instance(...) outside the subset")
                term = f"({fn.lean} env {o.d} {coerce(self.ev(kws['tz'], env), 'ARG')})"
                return Val("IR", f"(InstRes.dt {term if fn.exc else '(.ok ' + term + ')'})")
        if isinstance(f, ast.Attribute):
            return self.method(x, f, env)
        raise Bad("call outside the subset: " + ast.unparse(x)[:100])

    def method(self, x, f, env):
        name = f.attr
        nargs = len(x.args)
        kws = {k.arg: k.value for k in x.keywords}
        rsrc = ast.unparse(f.value)
        if ((rsrc in ("cls", "self.__class__") and self.fn.selfk in ("cls", "DT:p")) or (rsrc == "DateTime" and self.fn.ctx == "init")) \
                and name in ("create", "instance") and self.fn.ret_kind != "IR":
            fn = self.get("DateTime." + name)
            return self.call_fn(fn, self.bind_args(fn, x, env), base="dt")
        recv = self.ev(f.value, env)
        if recv.k == "DT":
            if name == "replace":
                if recv.cls == "n":
                    return self.native_replace(recv, x, env)
                fn = self.get("DateTime.replace")
                return self.call_fn(fn, self.bind_args(fn, x, env), recv=recv.e, base="dt")
            if name == "utcoffset" and not x.args and not kws:
                if not self.info.get("glue_tz"):
                    raise Bad("utcoffset() before the dispatch glue")
                return Val("OTD", f"(dt_utcoffset env {recv.e})")
            if name == "astimezone" and nargs == 1 and not kws:
                a = self.ev(x.args[0], env)
                if recv.cls == "n":
                    return self.effect(f"(env.native_astimezone {recv.e} {coerce(a, 'ARG')})", "DT", cls="n", base="dt")
                fn = self.get("DateTime.astimezone")
                return self.call_fn(fn, [coerce(a, "ARG")], recv=recv.e, base="dt")
            if recv.cls == "p" and ("DateTime." + name) in self.reg:
                fn = self.get("DateTime." + name)
                if fn.selfk != "DT:p":
                    raise Bad(f"{name} is not an instance method")
                return self.call_fn(fn, self.bind_args(fn, x, env), recv=recv.e, base="dt")
            raise Bad(f"method {name} of a datetime value")
        if recv.k in ("TZ", "FX") and name == "convert":
            args = [a for a in x.args]
            if not args and "dt" not in kws:
                raise Bad("convert() without a value")
            d = self.ev(args[0] if args else kws["dt"], env)
            if d.k != "DT":
                raise Bad("convert() of a " + d.k)
            key = ("FixedTimezone.convert" if recv.k == "FX" else "Timezone.convert" if recv.fact == "zone" else "glue:convert") + ":" + d.cls
            fn = self.get(key)
            return self.call_fn(fn, self.bind_args(fn, x, env), recv=recv.e, base="dt")
        if recv.k == "TZ" and name == "utcoffset" and nargs == 1 and not kws:
            d = self.ev(x.args[0], env)
            if d.k != "DT":
                raise Bad("utcoffset() of a " + d.k)
            if recv.fact == "zone":
                if not self.info.get("zone_utcoffset_inherited"):
                    raise Bad("Timezone defines its own utcoffset")
                return Val("TD", f"(env.zone_utcoffset {recv.e} {d.e})")
            if not self.info.get("glue_tz"):
                raise Bad("tz.utcoffset before the dispatch glue")
            return Val("TD", f"(tz_utcoffset env {recv.e} {d.e})")
        if recv.k == "FX" and ("FixedTimezone." + name) in self.reg:
            fn = self.get("FixedTimezone." + name)
            return self.call_fn(fn, self.bind_args(fn, x, env), recv=recv.e)
        if recv.k == "ARG" and recv.fact == "tzinfo" and nargs == 1 and not kws:
            if name == "tzname":
                return Val("OSTR", f"(TzArg.tznameOf {recv.e})")
            if name == "utcoffset":
                return Val("OTD", f"(TzArg.utcoffsetOf {recv.e})")
        if recv.k == "STR" and name == "lower" and not x.args and not kws:
            return Val("STR", f"(String.toLower {recv.e})")
        if recv.k == "TD" and name == "total_seconds" and not x.args and not kws:
            return Val("RAT", recv.e, d=L(1000000))
        raise Bad("method call outside the subset: " + ast.unparse(x)[:100])

    # ---- statements
    def wrap(self, items, body):
        for kind, n, ty, term in reversed(items):
            if kind == "let":
                body = f"let {n} : {ty} := {term}\n  {body}"
            else:
                body = f"Except.bind (({term}) : Except String {ty}) (fun ({n} : {ty}) =>\n  {body})"
        return body

    def bind_name(self, name, v, env):
        if v.k in ("NONE", "EPOCH", "CLS", "OBJ") or (v.k == "B" and v.const is not None and v.e in ("true", "false")):
            env[name] = v
            return []
        if v.k == "RAT":
            n, d = self.fresh(name + "_num"), self.fresh(name + "_den")
            env[name] = Val("RAT", n, d=d)
            return [("let", n, "Int", v.e), ("let", d, "Int", v.d)]
        if v.k == "TUP" or v.k not in LEAN_TY:
            raise Bad(f"cannot bind a {v.k} to {name}")
        n = self.fresh(name)
        env[name] = v.but(e=n)
        return [("let", n, LEAN_TY[v.k], v.e)]

    def assign(self, s, env):
        """translate one assignment; mutates env; returns let/bind items"""
        tgt = s.targets[0] if isinstance(s, ast.Assign) else s.target
        if isinstance(s, ast.Assign) and len(s.targets) != 1:
            raise Bad("multiple assignment targets")
        v = self.ev(s.value, env)
        items = self.flush()
        if isinstance(tgt, ast.Name):
            return items + self.bind_name(tgt.id, v, env)
        if isinstance(tgt, ast.Tuple) and v.k == "TUP" and len(tgt.elts) == len(v.e) and all(isinstance(e, ast.Name) for e in tgt.elts):
            for e, w in zip(tgt.elts, v.e):
                items += self.bind_name(e.id, w, env)
            return items
        if isinstance(tgt, ast.Attribute) and isinstance(tgt.value, ast.Name) and tgt.value.id == "self" and self.fn.init:
            if tgt.attr not in FX_ATTR:
                raise Bad(f"__init__ stores an unknown attribute {tgt.attr}")
            fields = dict(env.get("$fields", {}))
            fields[tgt.attr] = coerce(v, FX_ATTR[tgt.attr][0])
            env["$fields"] = fields
            return items
        if isinstance(tgt, ast.Subscript) and ast.unparse(tgt.value) == "_tz_cache" and self.fn.stores:
            k = self.ev(tgt.slice, env)
            if k.k != "I":
                raise Bad("_tz_cache key is not an int")
            env["$stores"] = tuple(env.get("$stores", ())) + ((k.e, coerce(v, "TZ")),)
            return items
        raise Bad("assignment outside the subset: " + ast.unparse(s)[:100])

    def linear(self, stmts, env):
        items, env = [], dict(env)
        for s in stmts:
            if is_doc(s):
                continue
            if isinstance(s, (ast.Assign, ast.AnnAssign)):
                items += self.assign(s, env)
            elif isinstance(s, ast.If):
                items += self.merge_if(s, env)
            else:
                raise Bad("statement outside the subset: " + ast.unparse(s)[:100])
        return items, env

    def merge_if(self, s, env):
        """an `if` whose arms only assign: one conditional `let` per assigned name that is live afterwards; mutates env"""
        c = self.b(s.test, env)
        items = self.flush()
        if c.const is not None:
            its, env2 = self.linear(s.body if c.const else s.orelse, self.narrow(s.test, env, c.const))
            for n in assigned_names(s.body if c.const else s.orelse):
                if n in env2:
                    env[n] = env2[n]
            for sp in ("$fields", "$stores"):
                if sp in env2:
                    env[sp] = env2[sp]
            return items + its
        it_t, e_t = self.linear(s.body, self.narrow(s.test, env, True))
        it_f, e_f = self.linear(s.orelse, self.narrow(s.test, env, False))
        for sp in ("$fields", "$stores"):
            if e_t.get(sp) != e_f.get(sp):
                raise Bad("an attribute / cache store inside a conditional")
        targets = [n for n in assigned_names(s.body + s.orelse) if n in e_t and n in e_f]
        if not targets:
            if any(i[0] == "bind" for i in it_t + it_f):
                raise Bad("a conditional call whose result is not used")
            return items
        for n in targets:                     # a literal 0/1 next to a flag is a flag (`fold = 1`)
            for ea, eb in ((e_t, e_f), (e_f, e_t)):
                if ea[n].k == "I" and ea[n].const in (0, 1) and eb[n].k in ("B", "OB"):
                    ea[n] = Val("B", "true" if ea[n].const else "false")
        ks = [join(e_t[n].k, e_f[n].k) for n in targets]
        clss = []
        for n, k in zip(targets, ks):
            if k not in LEAN_TY:
                raise Bad(f"conditional assignment of a {k} to {n}")
            if k == "DT" and e_t[n].cls != e_f[n].cls:
                raise Bad(f"{n} is a native value in one arm and a pendulum value in the other")
            clss.append(e_t[n].cls if k == "DT" else None)
        tys = [LEAN_TY[k] for k in ks]

        def tup(e):
            ts = [coerce(e[n], k) for n, k in zip(targets, ks)]
            return ts[0] if len(ts) == 1 else "(" + ", ".join(ts) + ")"
        eff = any(i[0] == "bind" for i in it_t + it_f)
        name = self.fresh(targets[0] if len(targets) == 1 else "p")
        T = " × ".join(tys)
        # `if x is None: x = e` / `if not x: x = e` on an optional: `Option.getD x e`
        t = s.test
        n0 = targets[0]
        probe = t.left if (isinstance(t, ast.Compare) and len(t.ops) == 1 and isinstance(t.ops[0], ast.Is)
                           and isinstance(t.comparators[0], ast.Constant) and t.comparators[0].value is None) else \
            t.operand if (isinstance(t, ast.UnaryOp) and isinstance(t.op, ast.Not)) else None
        if (len(targets) == 1 and not eff and not s.orelse and isinstance(probe, ast.Name) and probe.id == n0 and n0 in env
                and env[n0].k in BASE_OF and ks[0] == BASE_OF[env[n0].k] and len(it_t) == 1 and it_t[0][0] == "let"
                and e_t[n0].e == it_t[0][1]):
            items.append(("let", name, T, f"(Option.getD {env[n0].e} {it_t[0][3]})"))
        elif eff:
            if not self.exc:
                raise NeedsExcept()
            term = f"(if {c.e} then {self.inline(it_t, '(.ok ' + tup(e_t) + ')')} else {self.inline(it_f, '(.ok ' + tup(e_f) + ')')})"
            items.append(("bind", name, T, term))
        else:
            items.append(("let", name, T, f"(if {c.e} then {self.inline(it_t, tup(e_t))} else {self.inline(it_f, tup(e_f))})"))
        for i, (n, k, cl) in enumerate(zip(targets, ks, clss)):
            if len(targets) == 1:
                env[n] = Val(k, name, cls=cl)
            else:
                proj = name + "".join(".2" for _ in range(i)) + (".1" if i < len(targets) - 1 else "")
                nn = self.fresh(n)
                items.append(("let", nn, LEAN_TY[k], proj))
                env[n] = Val(k, nn, cls=cl)
        return items

    def ret(self, v, env):
        k = self.fn.ret_kind
        if k == "DT":
            if v.k != "DT" or v.cls != self.fn.ret_cls:
                raise Bad(f"returns a {v.k}:{v.cls} where a {self.fn.ret} is expected")
            t = v.e
        elif k == "IR" and v.k == "OBJ":
            t = "InstRes.same"
        else:
            t = coerce(v, k)
        if self.fn.stores:
            t = f"({t}, [" + ", ".join(f"({a}, {b})" for a, b in env.get("$stores", ())) + "])"
        return f"(.ok {t})" if self.exc else t

    def block(self, stmts, env):
        stmts = [s for s in stmts if not is_doc(s)]
        if not stmts:
            if self.fn.init:
                f = env.get("$fields", {})
                if set(f) != set(FX_ATTR):
                    raise Bad("__init__ does not store exactly _name, _offset, _utcoffset")
                t = f"(FixedObj.mk {f['_name']} {f['_offset']} {f['_utcoffset']})"
                return f"(.ok {t})" if self.exc else t
            raise Bad("control falls off the end")
        s, rest = stmts[0], stmts[1:]
        if isinstance(s, (ast.Assign, ast.AnnAssign)) or (isinstance(s, ast.If) and assign_only(s)):
            env2 = dict(env)
            items = self.assign(s, env2) if not isinstance(s, ast.If) else self.merge_if(s, env2)
            return self.wrap(items, self.block(rest, env2))
        if isinstance(s, ast.If):
            c = self.b(s.test, env)
            items = self.flush()
            if c.const is not None:
                return self.wrap(items, self.block((s.body if c.const else s.orelse) + rest, self.narrow(s.test, env, c.const)))
            t = self.block(s.body + rest, self.narrow(s.test, env, True))
            f = self.block(s.orelse + rest, self.narrow(s.test, env, False))
            return self.wrap(items, f"if {c.e} then\n  ({t})\n  else\n  ({f})")
        if isinstance(s, ast.Return):
            v = self.ev(s.value, env) if s.value is not None else NONE
            items = self.flush()
            return self.wrap(items, self.ret(v, env))
        if isinstance(s, ast.Raise) and isinstance(s.exc, ast.Call) and isinstance(s.exc.func, ast.Name):
            if not self.exc:
                raise NeedsExcept()
            return f"(.error {q(s.exc.func.id)})"
        raise Bad("statement outside the subset: " + ast.unparse(s)[:100])


# ----------------------------------------------------------------------------- driver

HEADER = """/-! GENERATED by tools/gen_dtconv.py from src/pendulum/__init__.py, tz/__init__.py, tz/timezone.py, datetime.py — do not edit.

Each definition is one Python function / method, statement by statement; its value is the request it hands on.
`env : Env` carries what is not pendulum source (stdlib datetime arithmetic, zoneinfo, the local timezone, the cache dict).
`_n` / `_p`: the value handed to `convert` is a plain `datetime.datetime` / a pendulum `DateTime`.
timedeltas are integers (µs); `ptrunc n d` is `int(n/d)`; an f-string is the list of its pieces. -/
set_option linter.unusedVariables false
namespace Pendulum.Gen.DTConv
"""

FILES = {"init": "src/pendulum/__init__.py", "tzinit": "src/pendulum/tz/__init__.py",
         "tzmod": "src/pendulum/tz/timezone.py", "dtmod": "src/pendulum/datetime.py"}


def _functions(body):
    out = {}
    for n in body:
        if isinstance(n, ast.FunctionDef):
            decs = [ast.unparse(d) for d in n.decorator_list]
            if "overload" in decs or any(d.endswith(".setter") for d in decs):
                continue
            out[n.name] = n
    return out


def _ty(base, exc):
    if exc:
        return "Except String " + (f"({base})" if " " in base else base)
    return base


def translate(fn: Fn, reg, consts, info):
    node = fn.node
    a = node.args
    if a.vararg or a.kwarg or a.kwonlyargs or a.posonlyargs:
        raise Bad("signature with *args/**kwargs/keyword-only parameters")
    names = [x.arg for x in a.args]
    lead = {"new": ["self"], "FX": ["self"], "TZ": ["self"], "DT:p": ["self"], "cls": ["cls"], None: []}[fn.selfk]
    want = lead + [p for p, _ in fn.params]
    if names != want:
        raise Bad(f"signature is {names}, expected {want}")
    decs = [ast.unparse(d) for d in node.decorator_list]
    if (fn.selfk == "cls") != ("classmethod" in decs):
        raise Bad("classmethod decorator changed")
    fn.defaults = {}
    for arg, d in zip(a.args[len(a.args) - len(a.defaults):], a.defaults):
        fn.defaults[arg.arg] = d
    env = {}
    lparams = []
    if fn.selfk == "FX":
        env["self"] = Val("FX", "self")
        lparams.append("(self : FixedObj)")
    elif fn.selfk == "TZ":
        env["self"] = Val("TZ", "self", fact="zone")
        lparams.append("(self : Tz)")
    elif fn.selfk == "DT:p":
        env["self"] = Val("DT", "self", cls="p")
        lparams.append("(self : DtVal)")
    for pn, pk in fn.params:
        if pk == "_":
            continue
        k = pk.split(":")[0]
        if k == "DT":
            env[pn] = Val("DT", pn, cls=pk.split(":")[1])
        elif k == "OBJ":
            env[pn] = Val("OBJ", pn, d=pn + "_v")
            lparams.append(f"({pn} : ObjKind) ({pn}_v : DtVal)")
            continue
        else:
            env[pn] = Val(k, pn)
        lparams.append(f"({pn} : {LEAN_TY[k]})")
    body = None
    for exc in (False, True):
        try:
            m = M(fn, reg, consts, info, exc)
            body = m.block(list(node.body), env)
            fn.exc = exc
            break
        except NeedsExcept:
            continue
    base = LEAN_TY[fn.ret_kind]
    if fn.stores:
        base = "Tz × List (Int × Tz)"
    doc = f"/-- {fn.doc} -/\n" if fn.doc else ""
    return f"{doc}def {fn.lean} (env : Env) {' '.join(lparams)} : {_ty(base, fn.exc)} :=\n  {body}\n"


def glue_convert(reg, cls):
    z, f = reg.get("Timezone.convert:" + cls), reg.get("FixedTimezone.convert:" + cls)
    if not (z and z.done and f and f.done):
        raise Bad("one of the two convert methods could not be translated")
    dz, df = z.defaults.get("raise_on_unknown_times"), f.defaults.get("raise_on_unknown_times")
    if dz is None or df is None or ast.unparse(dz) != ast.unparse(df):
        raise Bad("the two convert methods have different defaults")

    def lift(fn, t):
        return t if fn.exc else f"(.ok {t})"
    g = Fn("glue:convert", "tz_convert_" + cls, [("dt", "DT:" + cls), ("raise_on_unknown_times", "B")], "DT:" + cls, selfk="TZ", dtcls=cls)
    g.exc, g.done, g.defaults = True, True, {"raise_on_unknown_times": dz}
    reg["glue:convert:" + cls] = g
    what = "a plain `datetime.datetime`" if cls == "n" else "a pendulum `DateTime`"
    return (f"/-- `tz.convert(dt, raise_on_unknown_times)` for `tz : Timezone | FixedTimezone` (dispatch on the class), `dt` {what} -/\n"
            f"def tz_convert_{cls} (env : Env) (tz : Tz) (dt : DtVal) (raise_on_unknown_times : Bool) : Except String DtVal :=\n"
            f"  match tz with\n"
            f"  | .fixed o => {lift(f, f'({f.lean} env o dt raise_on_unknown_times)')}\n"
            f"  | t => {lift(z, f'({z.lean} env t dt raise_on_unknown_times)')}\n")


def generate(changed, fallbacks, _write):
    from tools.gen_lean import GEN, py_constants
    out = [HEADER, PRELUDE]

    def finish():
        out.extend(["end Pendulum.Gen.DTConv", ""])
        _write(GEN / "DTConv.lean", "\n".join(out), changed)
        return 0

    try:
        consts = py_constants()
        trees = {k: ast.parse((REPO / p).read_text()) for k, p in FILES.items()}
    except (OSError, SyntaxError) as e:
        fallbacks.append(f"DTConv: cannot read the sources: {e}")
        return finish()

    def cls_of(tree, name):
        return next((n for n in tree.body if isinstance(n, ast.ClassDef) and n.name == name), None)
    C = {"Timezone": cls_of(trees["tzmod"], "Timezone"), "FixedTimezone": cls_of(trees["tzmod"], "FixedTimezone"),
         "DateTime": cls_of(trees["dtmod"], "DateTime")}
    for k, v in C.items():
        if v is None:
            fallbacks.append(f"DTConv: class {k} not found")
            return finish()
    meths = {k: _functions(v.body) for k, v in C.items()}
    mods = {k: _functions(t.body) for k, t in trees.items()}

    # structural facts the translation relies on
    info = {}

    def pin(ok, msg):
        if not ok:
            fallbacks.append("DTConv: " + msg)
        return ok
    bases = {k: [ast.unparse(b) for b in v.bases] for k, v in C.items()}
    pin(bases["Timezone"] == ["zoneinfo.ZoneInfo", "PendulumTimezone"], f"bases of Timezone changed: {bases['Timezone']}")
    pin(bases["FixedTimezone"] == ["_datetime.tzinfo", "PendulumTimezone"], f"bases of FixedTimezone changed: {bases['FixedTimezone']}")
    pin(bases["DateTime"] == ["datetime.datetime", "Date"], f"bases of DateTime changed: {bases['DateTime']}")
    info["zone_utcoffset_inherited"] = pin(not ({"utcoffset", "fromutc", "dst", "tzname", "__init__"} & set(meths["Timezone"])),
                                           "Timezone now overrides a zoneinfo method")
    pin(not ({"__new__", "__init__", "utcoffset", "__class__"} & set(meths["DateTime"])), "DateTime now defines a constructor / utcoffset")
    tz_assigns = {ast.unparse(n.targets[0]): ast.unparse(n.value) for n in trees["tzmod"].body
                  if isinstance(n, ast.Assign) and len(n.targets) == 1}
    imports = {k: {(a.asname or a.name): f"{n.module}.{a.name}" for n in t.body if isinstance(n, ast.ImportFrom) for a in n.names}
               for k, t in trees.items()}
    info["utc_ok"] = pin(tz_assigns.get("UTC") in ('Timezone("UTC")', "Timezone('UTC')")
                         and imports["init"].get("UTC") == "pendulum.tz.UTC" and imports["dtmod"].get("UTC") == "pendulum.tz.UTC"
                         and imports["tzinit"].get("UTC") == "pendulum.tz.timezone.UTC", "the constant UTC is no longer Timezone('UTC')")
    epoch = next((ast.unparse(n.value) for n in C["DateTime"].body if isinstance(n, ast.AnnAssign) and ast.unparse(n.target) == "_EPOCH"
                  and n.value is not None), None)
    info["epoch_ok"] = pin(epoch == "datetime.datetime(1970, 1, 1, tzinfo=UTC)", f"DateTime._EPOCH changed: {epoch}")
    cache = next((n for n in trees["tzinit"].body if isinstance(n, ast.AnnAssign) and ast.unparse(n.target) == "_tz_cache"), None)
    pin(cache is not None and cache.value is not None and ast.unparse(cache.value) == "{}", "_tz_cache is no longer an empty dict at import")
    for nm, src in (("fixed_timezone", "pendulum.tz.fixed_timezone"), ("local_timezone", "pendulum.tz.local_timezone"),
                    ("Timezone", "pendulum.tz.timezone.Timezone"), ("FixedTimezone", "pendulum.tz.timezone.FixedTimezone"),
                    ("DateTime", "pendulum.datetime.DateTime")):
        pin(imports["init"].get(nm) == src, f"the name {nm} in __init__.py is no longer {src}")
    lt = mods["tzinit"].get("local_timezone")
    pin(lt is not None and ast.unparse(lt.body[-1]) == "return get_local_timezone()", "tz.local_timezone changed")

    reg: dict = {}
    for fn in fn_table():
        rk = fn.key + (":" + fn.dtcls if fn.dtcls else "")
        reg[rk] = fn
        if ":" in fn.key:
            ctx, name = fn.key.split(":")
            fn.ctx, fn.node = ctx, mods[ctx].get(name)
        else:
            cname, name = fn.key.split(".")
            fn.ctx, fn.node = ("dtmod" if cname == "DateTime" else "tzmod"), meths[cname].get(name)
        label = fn.key.split(":")[-1] + (f" [{fn.dtcls}]" if fn.dtcls else "")
        try:
            if fn.node is None:
                raise Bad("not found in the source")
            out.append(translate(fn, reg, consts, info))
            fn.done = True
        except (Bad, KeyError, IndexError, AttributeError, TypeError) as e:
            fallbacks.append(f"DTConv: cannot translate {label}: {e}")
            out.append(f"-- UNTRANSLATABLE {label}: {str(e)[:300]}\n")
        try:
            if fn.lean == "safe_timezone":
                for need in ("FixedTimezone.name", "Timezone.name", "FixedTimezone.utcoffset"):
                    if not reg[need].done:
                        raise Bad(f"{need} could not be translated")
                out.append(GLUE_TZ)
                info["glue_tz"] = True
            if fn.lean in ("fixed_convert_n", "fixed_convert_p"):
                out.append(glue_convert(reg, fn.dtcls))
        except Bad as e:
            fallbacks.append(f"DTConv: cannot emit the dispatch glue after {label}: {e}")
    return finish()
