"""Translator for the formatter: /repo/src/pendulum/formatting/formatter.py, datetime.py, locales/*  ->
  lean/Pendulum/Gen/Format.lean         token alternation of `_TOKENS` (expanded in backtracking priority order),
                                        key sets of _TOKENS_RULES/_LOCALIZABLE_TOKENS/_PARSE_TOKENS/_REGEX_TOKENS (with
                                        regex sources), the _TOKENS_RULES lambdas (f-strings over integer fields)
                                        translated to Lean, _PARSE_TOKENS lambdas as (kind, mul, add), date-format
                                        tables, DateTime._FORMATS and the to_*_string helper bodies
  lean/Pendulum/Gen/FormatLocales.lean  per locale: month/day name tables, AM/PM, first_day, custom ordinal suffixes,
                                        CLDR ordinal lambda (translated), custom date formats
  lean/Pendulum/Gen/FormatZones.lean    pendulum.timezones() (names accepted by the `z` token)
Source values are read in a *subprocess* (pendulum must never be imported in the harness' main process);
lambdas are translated from the AST of the source files.  Called by tools/gen_lean.regenerate().
"""
from __future__ import annotations

import ast
import json
import os
import subprocess
import sys
from pathlib import Path

ROOT = Path(__file__).resolve().parent.parent
REPO = Path(os.environ.get("VERIF_REPO", "/repo"))
GEN = ROOT / "lean" / "Pendulum" / "Gen"
PY = "/venv/bin/python"

DUMP = r'''
import json, sys, re, pathlib
import re._parser as sp
import pendulum
from pendulum.formatting.formatter import Formatter
from pendulum.locales.locale import Locale
F = Formatter

def expand_seq(items):
    out = [""]
    for op, av in items:
        alts = expand(op, av)
        out = [a + b for a in out for b in alts]
    return out

def expand(op, av):
    name = str(op)
    if name == "LITERAL":
        return [chr(av)]
    if name == "IN":
        r = []
        for o, a in av:
            if str(o) != "LITERAL":
                raise ValueError("set item " + str(o))
            r.append(chr(a))
        return r
    if name == "MAX_REPEAT":
        lo, hi, sub = av
        if hi > 16:
            raise ValueError("unbounded repeat")
        one = expand_seq(list(sub))
        res = []
        for k in range(hi, lo - 1, -1):
            cur = [""]
            for _ in range(k):
                cur = [a + b for a in cur for b in one]
            res += cur
        return res
    if name == "SUBPATTERN":
        return expand_seq(list(av[3]))
    if name == "BRANCH":
        r = []
        for alt in av[1]:
            r += expand_seq(list(alt))
        return r
    raise ValueError("regex node " + name)

def token_alts():
    tree = sp.parse(F._TOKENS)
    items = list(tree)
    # top level: BRANCH( [ '\[' group1 '\]' ], [ '\\' group2 ], [ group3 ] )
    assert len(items) == 1 and str(items[0][0]) == "BRANCH", "top level is not a single alternation"
    alts = items[0][1][1]
    assert len(alts) == 3, "expected 3 top-level alternatives"
    a1 = [(str(o), a if not isinstance(a, tuple) else None) for o, a in alts[0]]
    a2 = [(str(o), a if not isinstance(a, tuple) else None) for o, a in alts[1]]
    shape1 = [x[0] for x in a1] == ["LITERAL", "SUBPATTERN", "LITERAL"] and a1[0][1] == 91 and a1[2][1] == 93
    g1 = alts[0][1][1]
    inner1 = list(g1[3])
    shape1 = shape1 and len(inner1) == 1 and str(inner1[0][0]) == "MAX_REPEAT" and inner1[0][1][0] == 0 \
        and str(inner1[0][1][2][0][0]) == "NOT_LITERAL" and inner1[0][1][2][0][1] == 91
    shape2 = [x[0] for x in a2] == ["LITERAL", "SUBPATTERN"] and a2[0][1] == 92 \
        and [str(o) for o, _ in alts[1][1][1][3]] == ["ANY"]
    g3 = list(alts[2])
    assert len(g3) == 1 and str(g3[0][0]) == "SUBPATTERN"
    seen, alts = set(), []
    for a in expand_seq(g3):
        if a not in seen:
            seen.add(a)
            alts.append(a)
    return dict(bracket_shape=bool(shape1), backslash_shape=bool(shape2), alts=alts)

def locales():
    base = pathlib.Path(pendulum.__file__).parent / "locales"
    out = {}
    for p in sorted(base.glob("*/locale.py")):
        n = p.parent.name
        L = Locale.load(n)
        def tbl(k, keys):
            d = L.translation(k)
            if d is None or list(d.keys()) != keys:
                return None
            return [d[i] for i in keys]
        out[n] = dict(
            months_wide=tbl("months.wide", list(range(1, 13))),
            months_abbreviated=tbl("months.abbreviated", list(range(1, 13))),
            days_wide=tbl("days.wide", list(range(7))),
            days_abbreviated=tbl("days.abbreviated", list(range(7))),
            days_short=tbl("days.short", list(range(7))),
            am=L.translation("day_periods.am"), pm=L.translation("day_periods.pm"),
            first_day=L.get("translations.week_data.first_day"),
            ordinal=L.get("custom.ordinal"),
            date_formats=L.get("custom.date_formats"),
            ordinal_sample=[L.ordinal(i) for i in range(0, 400)],
        )
    return out

def regex_tokens():
    r = []
    for k, v in F._REGEX_TOKENS.items():
        if v is None:
            r.append([k, []])
        elif isinstance(v, str):
            r.append([k, [v]])
        else:
            r.append([k, list(v)])
    return r

def localizable():
    r = []
    for k, v in F._LOCALIZABLE_TOKENS.items():
        r.append([k, "none" if v is None else ("path:" + v if isinstance(v, str) else "lambda")])
    return r

from pendulum.datetime import DateTime
fm = {}
for k, v in DateTime._FORMATS.items():
    fm[k] = v if isinstance(v, str) else "<callable>"
json.dump(dict(
    tokens_source=F._TOKENS, tokens=token_alts(),
    rules_keys=list(F._TOKENS_RULES), localizable=localizable(), parse_keys=list(F._PARSE_TOKENS),
    regex_tokens=regex_tokens(), date_formats=list(F._DATE_FORMATS.items()),
    default_date_formats=list(F._DEFAULT_DATE_FORMATS.items()),
    formats=fm, locales=locales(), timezones=sorted(pendulum.timezones()),
), sys.stdout)
'''


def dump():
    env = dict(os.environ, PYTHONPATH=str(REPO / "src"), PENDULUM_EXTENSIONS="0")
    p = subprocess.run([PY, "-c", DUMP], env=env, capture_output=True, text=True, timeout=120)
    if p.returncode != 0:
        raise RuntimeError("formatter dump failed: " + p.stderr[-1500:])
    return json.loads(p.stdout)


def dump_cached():
    """the dump, for the harness (locale tables for the reference formatter); refreshed by generate()"""
    f = ROOT / ".cache" / "format_dump.json"
    if not f.exists():
        d = dump()
        f.parent.mkdir(exist_ok=True)
        f.write_text(json.dumps(d))
    return json.loads(f.read_text())


# ----------------------------------------------------------------------------- lean rendering

def lstr(s: str, ascii_only: bool = False) -> str:
    out = []
    for c in s:
        o = ord(c)
        if c == "\\":
            out.append("\\\\")
        elif c == '"':
            out.append('\\"')
        elif c == "\n":
            out.append("\\n")
        elif o < 32 or o == 127 or 0x80 <= o < 0xA0 or o in (0x200c, 0x200d, 0x200e, 0x200f, 0xa0, 0x202f) \
                or (ascii_only and 127 < o <= 0xFFFF):
            out.append("\\u%04x" % o)
        else:
            out.append(c)
    return '"' + "".join(out) + '"'


def llist(xs) -> str:
    return "[" + ", ".join(xs) + "]"


def lident(s: str) -> str:
    return "".join(c if c.isalnum() else "_" for c in s)


class Untranslatable(Exception):
    pass


INT_FIELDS = {"year", "month", "day", "hour", "minute", "second", "microsecond", "quarter", "day_of_year",
              "day_of_week", "int_timestamp", "week_of_year"}
INT_CALLS = {"isoweekday"}
STR_FIELDS = {"timezone_name"}
STR_CALLS = {"tzname"}


def tr_int(x, var):
    """integer expression over the fields of the lambda argument"""
    if isinstance(x, ast.Attribute) and isinstance(x.value, ast.Name) and x.value.id == var and x.attr in INT_FIELDS:
        return f"dt.{x.attr}"
    if isinstance(x, ast.Call) and isinstance(x.func, ast.Attribute) and isinstance(x.func.value, ast.Name) \
            and x.func.value.id == var and x.func.attr in INT_CALLS and not x.args:
        return f"dt.{x.func.attr}"
    if isinstance(x, ast.Constant) and isinstance(x.value, int) and not isinstance(x.value, bool):
        return f"({x.value} : Int)"
    if isinstance(x, ast.BinOp):
        ops = {ast.Add: "+", ast.Sub: "-", ast.Mult: "*", ast.FloorDiv: "/", ast.Mod: "%"}
        if type(x.op) not in ops:
            raise Untranslatable(ast.dump(x))
        if isinstance(x.op, (ast.FloorDiv, ast.Mod)):
            if not (isinstance(x.right, ast.Constant) and isinstance(x.right.value, int) and x.right.value > 0):
                raise Untranslatable("// or % by a non-literal: " + ast.dump(x))
        return f"({tr_int(x.left, var)} {ops[type(x.op)]} {tr_int(x.right, var)})"
    if isinstance(x, ast.BoolOp) and isinstance(x.op, ast.Or) and len(x.values) == 2:
        a, b = tr_int(x.values[0], var), tr_int(x.values[1], var)
        return f"(if {a} != 0 then {a} else {b})"
    raise Untranslatable(ast.dump(x)[:200])


def tr_str(x, var):
    if isinstance(x, ast.Constant) and isinstance(x.value, str):
        return f"{lstr(x.value)}.toList"
    if isinstance(x, ast.Attribute) and isinstance(x.value, ast.Name) and x.value.id == var and x.attr in STR_FIELDS:
        return f"dt.{x.attr}"
    if isinstance(x, ast.Call) and isinstance(x.func, ast.Attribute) and isinstance(x.func.value, ast.Name) \
            and x.func.value.id == var and x.func.attr in STR_CALLS and not x.args:
        return f"dt.{x.func.attr}"
    if isinstance(x, ast.BoolOp) and isinstance(x.op, ast.Or) and len(x.values) == 2 \
            and isinstance(x.values[1], ast.Constant) and x.values[1].value == "":
        return tr_str(x.values[0], var)          # `s or ""` : None and "" are both modelled as the empty string
    if isinstance(x, ast.IfExp) and isinstance(x.test, ast.Compare) and len(x.test.ops) == 1 \
            and isinstance(x.test.ops[0], ast.IsNot) and isinstance(x.test.left, ast.Attribute) \
            and x.test.left.attr == "tzinfo" and isinstance(x.test.comparators[0], ast.Constant) \
            and x.test.comparators[0].value is None:
        return f"(if dt.aware then {tr_str(x.body, var)} else {tr_str(x.orelse, var)})"
    raise Untranslatable(ast.dump(x)[:200])


def tr_fstring(x, var):
    """f-string -> Lean `List Char` expression"""
    if isinstance(x, ast.Subscript) and isinstance(x.slice, ast.Slice) and x.slice.upper is None and x.slice.step is None \
            and isinstance(x.slice.lower, ast.Constant) and isinstance(x.slice.lower.value, int) and x.slice.lower.value >= 0:
        return f"(({tr_fstring(x.value, var)}).drop {x.slice.lower.value})"
    if not isinstance(x, ast.JoinedStr):
        raise Untranslatable("not an f-string: " + ast.dump(x)[:120])
    parts = []
    for v in x.values:
        if isinstance(v, ast.Constant):
            parts.append(f"{lstr(v.value)}.toList")
            continue
        if not isinstance(v, ast.FormattedValue) or v.conversion != -1:
            raise Untranslatable(ast.dump(v)[:120])
        if v.format_spec is None:
            parts.append(tr_str(v.value, var))
            continue
        spec = v.format_spec
        if not (isinstance(spec, ast.JoinedStr) and len(spec.values) == 1 and isinstance(spec.values[0], ast.Constant)):
            raise Untranslatable("dynamic format spec")
        s = spec.values[0].value
        import re
        m = re.fullmatch(r"(0?)(\d*)d", s)
        if not m or (m.group(2) and not m.group(1)):
            raise Untranslatable("format spec " + s)
        width = int(m.group(2)) if m.group(2) else 0
        parts.append(f"pyFmtD {width} {tr_int(v.value, var)}")
    if not parts:
        return "[]"
    return "(" + " ++ ".join(parts) + ")"


def tr_parse_lambda(v):
    """_PARSE_TOKENS entry -> PKind"""
    if isinstance(v, ast.Name) and v.id == "str":
        return "PKind.str"
    if not isinstance(v, ast.Lambda) or len(v.args.args) != 1:
        raise Untranslatable(ast.dump(v)[:120])
    a = v.args.args[0].arg
    b = v.body

    def is_call(x, fn):
        return isinstance(x, ast.Call) and isinstance(x.func, ast.Name) and x.func.id == fn and len(x.args) == 1 \
            and isinstance(x.args[0], ast.Name) and x.args[0].id == a
    if isinstance(b, ast.Name) and b.id == a:
        return "PKind.str"
    if is_call(b, "int"):
        return "PKind.int 1 0"
    if is_call(b, "float"):
        return "PKind.float"
    if isinstance(b, ast.BinOp) and is_call(b.left, "int") and isinstance(b.right, ast.Constant) and isinstance(b.right.value, int):
        k = b.right.value
        if isinstance(b.op, ast.Mult):
            return f"PKind.int {k} 0"
        if isinstance(b.op, ast.Sub):
            return f"PKind.int 1 ({-k})"
        if isinstance(b.op, ast.Add):
            return f"PKind.int 1 {k}"
    if isinstance(b, ast.BinOp) and is_call(b.left, "float") and isinstance(b.op, ast.Div) and isinstance(b.right, ast.Constant) \
            and b.right.value == 1e3:
        return "PKind.floatMs"
    raise Untranslatable(ast.dump(b)[:160])


def tr_ordinal(e):
    """CLDR ordinal lambda body (nested conditional expressions over n % k comparisons) -> Lean String expr"""
    def ti(x):
        if isinstance(x, ast.Name):
            return x.id
        if isinstance(x, ast.Constant) and isinstance(x.value, int) and not isinstance(x.value, bool):
            return f"({x.value} : Int)"
        if isinstance(x, ast.BinOp) and isinstance(x.op, ast.Mod) and isinstance(x.right, ast.Constant) and x.right.value > 0:
            return f"({ti(x.left)} % {ti(x.right)})"
        raise Untranslatable(ast.dump(x)[:120])

    def tb(x):
        if isinstance(x, ast.BoolOp):
            op = " && " if isinstance(x.op, ast.And) else " || "
            return "(" + op.join(tb(v) for v in x.values) + ")"
        if isinstance(x, ast.UnaryOp) and isinstance(x.op, ast.Not):
            return f"(!{tb(x.operand)})"
        if isinstance(x, ast.Compare) and len(x.ops) == 1:
            o = {ast.Eq: "==", ast.NotEq: "!=", ast.Lt: "<", ast.LtE: "≤", ast.Gt: ">", ast.GtE: "≥"}.get(type(x.ops[0]))
            if o is None:
                raise Untranslatable(ast.dump(x)[:120])
            l, r = ti(x.left), ti(x.comparators[0])
            return f"({l} {o} {r})" if o in ("==", "!=") else f"(decide ({l} {o} {r}))"
        if isinstance(x, ast.Compare) and len(x.ops) == 2 and all(isinstance(o, ast.LtE) for o in x.ops):
            a, b, c = ti(x.left), ti(x.comparators[0]), ti(x.comparators[1])
            return f"(decide ({a} ≤ {b}) && decide ({b} ≤ {c}))"
        raise Untranslatable(ast.dump(x)[:120])

    def te(x):
        if isinstance(x, ast.IfExp):
            return f"(if {tb(x.test)} then {te(x.body)} else {te(x.orelse)})"
        if isinstance(x, ast.Constant) and isinstance(x.value, str):
            return lstr(x.value)
        raise Untranslatable(ast.dump(x)[:120])
    return te(e)


def class_dict(tree, cls, name):
    c = next(n for n in tree.body if isinstance(n, ast.ClassDef) and n.name == cls)
    for n in c.body:
        tgt = None
        if isinstance(n, ast.AnnAssign) and isinstance(n.target, ast.Name):
            tgt, val = n.target.id, n.value
        elif isinstance(n, ast.Assign) and isinstance(n.targets[0], ast.Name):
            tgt, val = n.targets[0].id, n.value
        if tgt == name and isinstance(val, ast.Dict):
            return [(k.value, v) for k, v in zip(val.keys, val.values)]
    raise KeyError(name)


def generate(changed, fallbacks, _write):
    try:
        d = dump()
    except Exception as e:  # noqa: BLE001
        fallbacks.append(f"Format: cannot read the formatter tables: {e!r}"[:600])
        return 0
    (ROOT / ".cache").mkdir(exist_ok=True)
    (ROOT / ".cache" / "format_dump.json").write_text(json.dumps(d))
    selftest = 0
    ftree = ast.parse((REPO / "src/pendulum/formatting/formatter.py").read_text())
    o = ["import Pendulum.Model.FmtBase",
         "/-! GENERATED by tools/gen_format.py from src/pendulum/formatting/formatter.py, datetime.py — do not edit -/",
         "namespace Pendulum.Gen.Format", "open Pendulum.Fmt", ""]
    o.append(f"def tokensSource : String := {lstr(d['tokens_source'])}")
    t = d["tokens"]
    if not t["bracket_shape"]:
        fallbacks.append("Format: first alternative of _TOKENS is no longer \\[([^\\[]*)\\]")
    if not t["backslash_shape"]:
        fallbacks.append("Format: second alternative of _TOKENS is no longer \\\\(.)")
    o.append("/-- every string the token group of `_TOKENS` can match, in the regex engine's backtracking priority order -/")
    o.append(f"def tokenAlts : List String := {llist(lstr(a) for a in t['alts'])}")
    o.append(f"def tokensRulesKeys : List String := {llist(lstr(a) for a in d['rules_keys'])}")
    o.append("def localizableKeys : List (String × String) := "
             + llist(f"({lstr(k)}, {lstr(v)})" for k, v in d["localizable"]))
    o.append(f"def parseTokensKeys : List String := {llist(lstr(a) for a in d['parse_keys'])}")
    o.append("def regexTokens : List (String × List String) := "
             + llist(f"({lstr(k)}, {llist(lstr(x, True) for x in v)})" for k, v in d["regex_tokens"]))
    o.append("def dateFormats : List (String × String) := " + llist(f"({lstr(k)}, {lstr(v)})" for k, v in d["date_formats"]))
    o.append("def defaultDateFormats : List (String × String) := "
             + llist(f"({lstr(k)}, {lstr(v)})" for k, v in d["default_date_formats"]))
    o.append("/-- DateTime._FORMATS: name → format string (`<callable>` = `dt.isoformat(\"T\")`) -/")
    o.append("def namedFormats : List (String × String) := " + llist(f"({lstr(k)}, {lstr(v)})" for k, v in d["formats"].items()))
    # to_*_string helpers
    try:
        dtree = ast.parse((REPO / "src/pendulum/datetime.py").read_text())
        cls = next(n for n in dtree.body if isinstance(n, ast.ClassDef) and n.name == "DateTime")
        helpers = []
        for f in cls.body:
            if isinstance(f, ast.FunctionDef) and f.name.startswith("to_") and f.name.endswith("_string"):
                body = [s for s in f.body if not (isinstance(s, ast.Expr) and isinstance(s.value, ast.Constant))]
                kind, arg, loc = "hand", "", ""
                if len(body) == 1 and isinstance(body[0], ast.Return) and isinstance(body[0].value, ast.Call):
                    c = body[0].value
                    if isinstance(c.func, ast.Attribute) and isinstance(c.func.value, ast.Name) and c.func.value.id == "self" \
                            and c.func.attr in ("format", "_to_string") and len(c.args) == 1 and isinstance(c.args[0], ast.Constant):
                        kind = "format" if c.func.attr == "format" else "named"
                        arg = c.args[0].value
                        for kw in c.keywords:
                            if kw.arg == "locale" and isinstance(kw.value, ast.Constant):
                                loc = kw.value.value
                helpers.append((f.name, kind, arg, loc))
        o.append("/-- DateTime.to_*_string helpers: (method, `format`|`named`|`hand`, argument, locale) -/")
        o.append("def toStringHelpers : List (String × String × String × String) := "
                 + llist(f"({lstr(a)}, {lstr(b)}, {lstr(c)}, {lstr(e)})" for a, b, c, e in helpers))
    except Exception as e:  # noqa: BLE001
        fallbacks.append(f"Format: cannot read DateTime.to_*_string helpers: {e!r}")
    # _TOKENS_RULES lambdas
    o.append("")
    o.append("/-- `_TOKENS_RULES[tok](dt)`; `none` when the token has no rule -/")
    arms = []
    try:
        for k, v in class_dict(ftree, "Formatter", "_TOKENS_RULES"):
            try:
                if not isinstance(v, ast.Lambda) or len(v.args.args) != 1:
                    raise Untranslatable("not a one-argument lambda")
                arms.append(f"  | {lstr(k)} => some {tr_fstring(v.body, v.args.args[0].arg)}")
                selftest += 1
            except Untranslatable as e:
                fallbacks.append(f"Format: cannot translate _TOKENS_RULES[{k!r}]: {e}")
    except KeyError:
        fallbacks.append("Format: _TOKENS_RULES not found")
    o.append("def rule (tok : String) (dt : DTF) : Option Str :=\n  match tok with\n" + "\n".join(arms) + "\n  | _ => none")
    o.append("")
    o.append("/-- `_PARSE_TOKENS[tok]` as a conversion kind -/")
    arms = []
    try:
        for k, v in class_dict(ftree, "Formatter", "_PARSE_TOKENS"):
            try:
                arms.append(f"  | {lstr(k)} => some ({tr_parse_lambda(v)})")
                selftest += 1
            except Untranslatable as e:
                fallbacks.append(f"Format: cannot translate _PARSE_TOKENS[{k!r}]: {e}")
    except KeyError:
        fallbacks.append("Format: _PARSE_TOKENS not found")
    o.append("def parseKind (tok : String) : Option PKind :=\n  match tok with\n" + "\n".join(arms) + "\n  | _ => none")
    o += ["", "end Pendulum.Gen.Format", ""]
    _write(GEN / "Format.lean", "\n".join(o), changed)

    # ---------------------------------------------------------------- locales
    L = ["import Pendulum.Model.FmtBase",
         "/-! GENERATED by tools/gen_format.py from src/pendulum/locales/*/locale.py, custom.py — do not edit -/",
         "namespace Pendulum.Gen.FormatLocales", "open Pendulum.Fmt", ""]
    names = sorted(d["locales"])
    special = set("()[]{}?*+|^$\\")
    for n in names:
        x = d["locales"][n]
        ident = lident(n)
        for k in ("months_wide", "months_abbreviated", "days_wide", "days_abbreviated", "days_short"):
            if x[k] is None:
                fallbacks.append(f"FormatLocales: {n}.{k} is missing or has unexpected keys")
                x[k] = []
            for s in x[k]:
                if set(s) & special:
                    fallbacks.append(f"FormatLocales: {n}.{k} entry {s!r} contains a regex metacharacter other than '.'")
        for k in ("am", "pm"):
            if not isinstance(x[k], str):
                fallbacks.append(f"FormatLocales: {n}.{k} missing")
                x[k] = ""
            elif set(x[k]) & special:
                fallbacks.append(f"FormatLocales: {n}.{k} contains a regex metacharacter other than '.'")
        # ordinal lambda
        try:
            ltree = ast.parse((REPO / "src/pendulum/locales" / n / "locale.py").read_text())
            lam = None
            for node in ast.walk(ltree):
                if isinstance(node, ast.Dict):
                    for k, v in zip(node.keys, node.values):
                        if isinstance(k, ast.Constant) and k.value == "ordinal" and isinstance(v, ast.Lambda):
                            lam = v
            if lam is None:
                raise Untranslatable("no ordinal lambda")
            body = tr_ordinal(lam.body)
            L.append("set_option linter.unusedVariables false in")
            L.append(f"def ordinal_{ident} ({lam.args.args[0].arg} : Int) : String := {body}")
            selftest += 1
        except (Untranslatable, OSError, SyntaxError) as e:
            fallbacks.append(f"FormatLocales: cannot translate the ordinal lambda of {n}: {e}")
            L.append(f"def ordinal_{ident} (_n : Int) : String := \"other\"")
        suf = x["ordinal"]
        if suf is None:
            suf_l = "none"
        else:
            for s in suf.values():
                if set(s) & special:
                    fallbacks.append(f"FormatLocales: {n} ordinal suffix {s!r} contains a regex metacharacter other than '.'")
            suf_l = "some " + llist(f"({lstr(k)}, {lstr(v)})" for k, v in suf.items())
        df = x["date_formats"]
        df_l = llist(f"({lstr(k)}, {lstr(v)})" for k, v in (df or {}).items())
        fd = "none" if x["first_day"] is None else f"some {int(x['first_day'])}"
        L.append(f"def loc_{ident} : Loc := {{\n  name := {lstr(n)},\n"
                 f"  monthsWide := {llist(lstr(s) for s in x['months_wide'])},\n"
                 f"  monthsAbbr := {llist(lstr(s) for s in x['months_abbreviated'])},\n"
                 f"  daysWide := {llist(lstr(s) for s in x['days_wide'])},\n"
                 f"  daysAbbr := {llist(lstr(s) for s in x['days_abbreviated'])},\n"
                 f"  daysShort := {llist(lstr(s) for s in x['days_short'])},\n"
                 f"  am := {lstr(x['am'])}, pm := {lstr(x['pm'])}, amLower := {lstr(x['am'].lower())}, pmLower := {lstr(x['pm'].lower())}, firstDay := {fd},\n"
                 f"  ordinalCat := ordinal_{ident}, ordinalSuffix := {suf_l},\n"
                 f"  dateFormats := {df_l} }}")
        L.append("")
    L.append("def all : List Loc := " + llist(f"loc_{lident(n)}" for n in names))
    L.append("def find (name : String) : Option Loc := all.find? (fun l => l.name == name)")
    L += ["", "end Pendulum.Gen.FormatLocales", ""]
    _write(GEN / "FormatLocales.lean", "\n".join(L), changed)

    Z = ["/-! GENERATED by tools/gen_format.py from pendulum.timezones() — do not edit -/",
         "namespace Pendulum.Gen.FormatZones", "",
         "def tzNames : List String := " + llist(lstr(z) for z in d["timezones"]),
         "", "end Pendulum.Gen.FormatZones", ""]
    _write(GEN / "FormatZones.lean", "\n".join(Z), changed)
    return selftest


if __name__ == "__main__":
    sys.path.insert(0, str(ROOT))
    from tools import gen_lean
    ch, fb = [], []
    n = generate(ch, fb, gen_lean._write)
    print(json.dumps(dict(changed=ch, fallbacks=fb, selftest=n), indent=1))
