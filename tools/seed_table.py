#!/usr/bin/env python3
"""print the DESIGN §12 table rows for one round of seeded changes: tools/seed_table.py r11"""
import glob, json, os, re, sys
rnd = sys.argv[1]
for d in sorted(glob.glob(os.path.join(os.path.dirname(__file__), "..", "seeded", f"C??-{rnd}-*"))):
    m = json.load(open(os.path.join(d, "meta.json")))
    out = open(os.path.join(d, "check_output.txt")).read()
    t = re.findall(r"theorems=(\d+) discharged=(\d+).*?diffs=(\d+) known=(\d+) new=(\d+)", out)
    th, dis, diffs, known, new = map(int, t[-1]) if t else (0, 0, 0, 0, 0)
    how = []
    if th == 0 or dis < th:
        how.append("tie theorem / regeneration breaks")
    if diffs:
        how.append(f"correspondence ({diffs} diffs)")
    if new:
        how.append(f"oracle ({new} failing inputs)")
    res = "VIOLATION with replay" if new else ("VIOLATION no-failing-input-found" if "VIOLATION" in out else "MISSED")
    print(f"| `{os.path.basename(d)}`: {m['summary'][:230]} | {m['property']} | {m['needs'][:230]} | {' + '.join(how)} | {res} |")
