"""Translator: the pure-Python ISO 8601 parser  ->  lean/Pendulum/Gen/IsoPy.lean

Source: src/pendulum/parsing/iso8601.py — `parse_iso8601` (everything after the `ISO8601_DT.match`), `_get_iso_8601_week`,
`_parse_iso8601_duration` (everything after the `ISO8601_DURATION.match`), `_fraction_to_microseconds`, and the two regular
expressions (verbatim, pinned).

Regex *matching* is not translated: a match object is a parameter — a record with one field `Option Text` per named group
(`DtGroups`, `DurGroups`; for durations also `<name>_start : Int` = `m.start(name)`). All code that consumes the groups is
translated statement by statement, in source order, into the exception monad `Except String` (the string is the exception
class): `bindE` = "evaluate, propagate what it raises", `tryExcept body [(classes, handler), …]` = `try/except`.
  * an `if` whose branches both fall through becomes a join: `bindE (if c then <body; yield outs> else <orelse; yield outs>) fun
    outs => <rest>`, where `outs` = the variables assigned in a branch that are read afterwards; an `if` with a branch that
    always raises/returns needs no join; two branches of plain assignments become `let x := if c then a else b`;
  * the top-level `if`s on the groups listed in SECTIONS become definitions of their own (`py_iso_date_part`, `py_iso_offset`,
    `py_iso_duration_weeks/_ymd/_hms`) taking the variables they read as parameters, and are called from the main definition;
  * `for i in range(a, b): if c: …; break` becomes `py_first_in_range a b (fun i => c)` + the body at that `i`;
  * `int(s)`, `len(s)`, `s[a:b]`, `s + t`, f-strings (`{n:04d}`, `{s:0<6}`, `{s}…`), `.replace`, `.split` + tuple unpacking,
    `.startswith`, `c in s`, `m.group(..) or 0`, chained comparisons, `**`, `//`, conditional expressions, dictionaries with
    constant keys, `MONTHS_OFFSETS[leap][i]`, the `pendulum.helpers` functions (= `Gen.is_leap` … of Gen/Helpers.lean), the
    `pendulum.constants` integers (= `Gen.py_*`).
What is a parameter (record `Ext`): `digit` (the decimal value of a character, what `int()` accepts), `date_add_days`
(`datetime.date(y, m, d) + datetime.timedelta(days=n)`), `Duration(**kw)`. The standard-library constructors in `return`
position and `UTC` / `FixedTimezone(offset)` are returned as the request (`Parsed`, `TzInfo`).
Pinned verbatim: the two pattern strings with their flags, the statements of both functions up to the match test.
Anything outside this subset is reported as a fallback: prefix "IsoPy:datetime" / "IsoPy:duration".
"""
from __future__ import annotations

import ast
import os
import re
from pathlib import Path

REPO = Path(os.environ.get("VERIF_REPO", "/repo"))
SRC = "src/pendulum/parsing/iso8601.py"

# (function, group tested by a top-level `if`) -> name of the definition the `if` is lifted into
SECTIONS = {
    ("parse_iso8601", "date"): "py_iso_date_part",
    ("parse_iso8601", "tz"): "py_iso_offset",
    ("_parse_iso8601_duration", "w"): "py_iso_duration_weeks",
    ("_parse_iso8601_duration", "ymd"): "py_iso_duration_ymd",
    ("_parse_iso8601_duration", "hms"): "py_iso_duration_hms",
}
EXC = {"ParserError", "ValueError", "OverflowError", "TypeError"}
KW8 = ("years", "months", "weeks", "days", "hours", "minutes", "seconds", "microseconds")
HELPERS = {"pendulum.helpers.is_leap": ("is_leap", 1, "B"), "pendulum.helpers.is_long_year": ("is_long_year", 1, "B"),
           "pendulum.helpers.week_day": ("week_day", 3, "I"), "pendulum.helpers.days_in_year": ("days_in_year", 1, "I")}


class Bad(Exception):
    pass


# ----------------------------------------------------------------------------- symbolic values

class Val:
    t = "?"

    def __init__(self, e):
        self.e = e


class I(Val):
    t = "Int"


class B(Val):
    t = "Bool"


class T(Val):
    t = "Text"


class OT(Val):                  # str | None (a regex group), or `group or 0`
    t = "Option Text"

    def __init__(self, e, origin=None):
        self.e, self.origin = e, origin


class TZ(Val):
    t = "TzInfo"


class PV(Val):                  # a standard-library date / time / datetime about to be returned
    t = "Parsed"


class DV(Val):                  # a Duration object
    t = "V"


class NoneV(Val):
    t = "Unit"

    def __init__(self):
        self.e = "()"


class M(Val):                   # a match object of the regex `which` ("dt" | "dur")
    def __init__(self, e, which):
        self.e, self.which = e, which


class Tbl(Val):                 # MONTHS_OFFSETS[<bool>]
    pass


class DictV(Val):               # a dictionary with constant keys
    def __init__(self, items):
        self.items = items
        self.e = "<dict>"


class DateV(Val):               # a datetime.date as (year, month, day)
    pass


class SplitV(Val):              # s.split(c)
    pass


class Marker(Val):
    pass


def L(v):
    return f"({v} : Int)"


def chars(s):
    out = []
    for c in s:
        if c == "'":
            out.append("'\\''")
        elif c == "\\":
            out.append("'\\\\'")
        elif c == "\n":
            out.append("'\\n'")
        elif c.isprintable() and ord(c) < 128:
            out.append(f"'{c}'")
        else:
            raise Bad(f"string literal with the character {c!r}")
    return "[" + ", ".join(out) + "]"


def lean_str(s):
    return '"' + s.replace("\\", "\\\\").replace('"', '\\"').replace("\n", "\\n") + '"'


def wrap(binds, body):
    for v, t in reversed(binds):
        body = f"bindE {t} fun {v} =>\n  ({body})"
    return body


def loads(stmts):
    out = set()
    for s in stmts:
        for n in ast.walk(s):
            if isinstance(n, ast.Name) and isinstance(n.ctx, ast.Load):
                out.add(n.id)
            elif isinstance(n, ast.AugAssign) and isinstance(n.target, ast.Name):
                out.add(n.target.id)
    return out


def _targets(t):
    if isinstance(t, ast.Name):
        return {t.id}
    if isinstance(t, (ast.Tuple, ast.List)):
        return set().union(*[_targets(e) for e in t.elts]) if t.elts else set()
    return set()


def live_in(stmts, out):
    """names that may be read before they are assigned when `stmts` run and `out` is read afterwards"""
    live = set(out)
    for s in reversed(stmts):
        if isinstance(s, ast.Assign):
            tg = set().union(*[_targets(t) for t in s.targets])
            live = (live - tg) | loads([s.value]) | loads([t for t in s.targets if not isinstance(t, (ast.Name, ast.Tuple, ast.List))])
        elif isinstance(s, ast.AnnAssign):
            if s.value is not None:
                live = (live - _targets(s.target)) | loads([s.value])
        elif isinstance(s, ast.AugAssign):
            live = live | _targets(s.target) | loads([s.value])
        elif isinstance(s, ast.If):
            live = loads([s.test]) | live_in(s.body, live) | live_in(s.orelse, live)
        elif isinstance(s, ast.For):
            live = loads([s.iter]) | live | (live_in(s.body, live) - _targets(s.target))
        elif isinstance(s, (ast.Return, ast.Raise)):
            live = loads([s])
        elif isinstance(s, ast.Try):
            h = set()
            for hd in s.handlers:
                h |= live_in(hd.body, live)
            live = live_in(s.body, live) | h | live
        else:
            live = live | loads([s])
    return live


def stores(stmts):
    """names assigned, in source order"""
    out = []

    class Vis(ast.NodeVisitor):
        def visit_Name(self, n):
            if isinstance(n.ctx, ast.Store) and n.id not in out:
                out.append(n.id)

        def visit_AnnAssign(self, n):
            if n.value is not None:
                self.generic_visit(n)
    for s in stmts:
        Vis().visit(s)
    return out


def occurs(stmts):
    """names loaded or stored, in source order"""
    out = []
    for s in stmts:
        for n in ast.walk(s):
            if isinstance(n, ast.Name) and n.id not in out:
                out.append((n.lineno, n.col_offset, n.id))
    seen, res = set(), []
    for _, _, n in sorted(out):
        if n not in seen:
            seen.add(n)
            res.append(n)
    return res


def terminal(stmts):
    if not stmts:
        return False
    s = stmts[-1]
    if isinstance(s, (ast.Raise, ast.Return)):
        return True
    if isinstance(s, ast.If):
        return terminal(s.body) and terminal(s.orelse)
    if isinstance(s, ast.Try):
        return terminal(s.body) and all(terminal(h.body) for h in s.handlers) and not s.orelse and not s.finalbody
    return False


def definitely(stmts, n):
    for s in stmts:
        if isinstance(s, (ast.Assign, ast.AugAssign, ast.AnnAssign)) and n in stores([s]):
            return True
        if isinstance(s, ast.If):
            b = definitely(s.body, n) or terminal(s.body)
            o = definitely(s.orelse, n) or terminal(s.orelse)
            if b and o and (definitely(s.body, n) or definitely(s.orelse, n)):
                return True
    return False


# ----------------------------------------------------------------------------- translator

class Tr:
    def __init__(self, imports, consts, groups, funcs):
        self.imports, self.consts, self.groups, self.funcs = imports, consts, groups, funcs
        self.n = 0
        self.fn = None            # python name of the function being translated
        self.ret = None           # "Int" | "YMD" | "Parsed" | "V"
        self.mtype = None         # "DtGroups" | "DurGroups" | None
        self.lifted = []          # definitions produced for SECTIONS
        self.depth = 0

    def fresh(self, base):
        self.n += 1
        return f"{base}_{self.n}"

    def resolve(self, x):
        parts = []
        while isinstance(x, ast.Attribute):
            parts.append(x.attr)
            x = x.value
        if not isinstance(x, ast.Name):
            return None
        base = self.imports.get(x.id)
        if base is None:
            return None
        return ".".join([base] + parts[::-1])

    # --- narrowing by truth value
    def facts(self, test, env):
        """(keys known to be true strings when the test holds, … when it does not)"""
        if isinstance(test, ast.UnaryOp) and isinstance(test.op, ast.Not):
            a, b = self.facts(test.operand, env)
            return b, a
        if isinstance(test, ast.BoolOp):
            parts = [self.facts(v, env) for v in test.values]
            if isinstance(test.op, ast.And):
                return frozenset().union(*[p[0] for p in parts]), frozenset()
            return frozenset(), frozenset().union(*[p[1] for p in parts])
        if isinstance(test, ast.Name) and isinstance(env.get(test.id), OT):
            return frozenset((test.id,)), frozenset()
        if self.group_call(test, env) is not None:
            return frozenset((ast.unparse(test),)), frozenset()
        return frozenset(), frozenset()

    @staticmethod
    def add_facts(env, fs):
        if not fs:
            return env
        env = dict(env)
        env["#truthy"] = env.get("#truthy", frozenset()) | fs
        return env

    def group_call(self, x, env):
        """`m.group("name")` -> (M value, name)"""
        if isinstance(x, ast.Call) and isinstance(x.func, ast.Attribute) and x.func.attr == "group" and len(x.args) == 1 \
                and not x.keywords and isinstance(x.args[0], ast.Constant) and isinstance(x.args[0].value, str) \
                and isinstance(x.func.value, ast.Name) and isinstance(env.get(x.func.value.id), M):
            return env[x.func.value.id], x.args[0].value
        return None

    # --- coercions
    def truthy(self, v, what):
        if isinstance(v, B):
            return v.e
        if isinstance(v, OT):
            return f"(truthy {v.e})"
        if isinstance(v, T):
            return f"(!(List.isEmpty {v.e}))"
        if isinstance(v, I):
            return f"({v.e} != 0)"
        raise Bad(f"{what}: truth value of a {type(v).__name__}")

    def text(self, x, env, binds, what):
        """Lean term of type Text for the Python expression x (a str, or a group known to have matched)"""
        while isinstance(x, ast.Call) and self.resolve(x.func) == "typing.cast" and len(x.args) == 2 and not x.keywords:
            x = x.args[1]
        v = self.expr(x, env, binds)
        if isinstance(v, T):
            return v.e
        if isinstance(v, OT):
            if ast.unparse(x) in env.get("#truthy", ()):
                return f"(Option.getD {v.e} [])"
            t = self.fresh("s")
            binds.append((t, f"(py_text {v.e})"))
            return t
        raise Bad(f"{what}: not a string ({type(v).__name__})")

    def as_int(self, v, what):
        if isinstance(v, I):
            return v.e
        raise Bad(f"{what}: not an integer ({type(v).__name__})")

    # --- expressions
    def expr(self, x, env, binds):
        if isinstance(x, ast.Constant):
            if x.value is None:
                return NoneV()
            if isinstance(x.value, bool):
                return B("true" if x.value else "false")
            if isinstance(x.value, int):
                return I(L(x.value))
            if isinstance(x.value, str):
                return T(chars(x.value))
            raise Bad("constant " + repr(x.value))
        if isinstance(x, ast.Name):
            if x.id in env:
                return env[x.id]
            q = self.resolve(x)
            if q == "pendulum.tz.timezone.UTC":
                return TZ("TzInfo.utc")
            if q and q.startswith("pendulum.constants."):
                c = q.split(".")[-1]
                if c == "MONTHS_OFFSETS":
                    return Marker("MONTHS_OFFSETS")
                if isinstance(self.consts.get(c), int) and not isinstance(self.consts.get(c), bool):
                    return I(f"Gen.py_{c}")
                raise Bad(f"constant {c} is not an integer of constants.py")
            raise Bad("unknown name " + x.id)
        if isinstance(x, ast.UnaryOp):
            if isinstance(x.op, ast.Not):
                return B(f"(!{self.truthy(self.expr(x.operand, env, binds), 'not')})")
            if isinstance(x.op, ast.USub):
                return I(f"(-{self.as_int(self.expr(x.operand, env, binds), 'unary minus')})")
        if isinstance(x, ast.BoolOp):
            return self.boolop(x, env, binds)
        if isinstance(x, ast.Compare):
            return self.compare(x, env, binds)
        if isinstance(x, ast.IfExp):
            return self.ifexp(x, env, binds)
        if isinstance(x, ast.BinOp):
            return self.binop(x, env, binds)
        if isinstance(x, ast.Subscript):
            return self.subscript(x, env, binds)
        if isinstance(x, ast.JoinedStr):
            return self.fstring(x, env, binds)
        if isinstance(x, ast.Attribute):
            v = self.expr(x.value, env, binds)
            if isinstance(v, DateV) and x.attr in ("year", "month", "day"):
                return I(v.e + "." + {"year": "1", "month": "2.1", "day": "2.2"}[x.attr])
            raise Bad("attribute outside the subset: " + ast.unparse(x))
        if isinstance(x, ast.Dict):
            items = {}
            for k, v in zip(x.keys, x.values):
                if not (isinstance(k, ast.Constant) and isinstance(k.value, str)) or k.value in items:
                    raise Bad("dictionary key outside the subset: " + ast.unparse(x))
                items[k.value] = self.expr(v, env, binds)
            return DictV(items)
        if isinstance(x, ast.Call):
            return self.call(x, env, binds)
        raise Bad("expression outside the subset: " + ast.unparse(x)[:120])

    def boolop(self, x, env, binds):
        if isinstance(x.op, ast.Or) and len(x.values) == 2 and isinstance(x.values[1], ast.Constant) \
                and x.values[1].value == 0 and not isinstance(x.values[1].value, bool):
            a = self.expr(x.values[0], env, binds)
            if isinstance(a, OT):
                return OT(f"(py_or0 {a.e})", a.origin)
        parts = []
        cur = env
        for v in x.values:
            b2: list = []
            parts.append(self.truthy(self.expr(v, cur, b2), "and/or"))
            if b2:
                raise Bad("an operation that may raise inside `and` / `or`: " + ast.unparse(v))
            if isinstance(x.op, ast.And):
                cur = self.add_facts(cur, self.facts(v, cur)[0])
            else:
                cur = self.add_facts(cur, self.facts(v, cur)[1])
        return B("(" + (" && " if isinstance(x.op, ast.And) else " || ").join(parts) + ")")

    def compare(self, x, env, binds):
        if len(x.ops) == 1 and isinstance(x.ops[0], (ast.In, ast.NotIn)):
            l, r = x.left, x.comparators[0]
            if isinstance(l, ast.Constant) and isinstance(l.value, str) and len(l.value) == 1:
                s = self.text(r, env, binds, "`in`")
                c = f"(List.contains {s} {chars(l.value)[1:-1]})"
                return B(c if isinstance(x.ops[0], ast.In) else f"(!{c})")
            raise Bad("`in` outside the subset: " + ast.unparse(x))
        vals = [self.expr(v, env, binds) for v in [x.left] + list(x.comparators)]
        parts = []
        for a, o, b in zip(vals, x.ops, vals[1:]):
            if isinstance(o, (ast.Eq, ast.NotEq)):
                if (isinstance(a, I) and isinstance(b, I)) or (isinstance(a, T) and isinstance(b, T)) \
                        or (isinstance(a, B) and isinstance(b, B)):
                    parts.append(f"({a.e} {'==' if isinstance(o, ast.Eq) else '!='} {b.e})")
                    continue
                if isinstance(a, OT) and isinstance(b, T):        # `None == "…"` is False
                    parts.append(f"({a.e} {'==' if isinstance(o, ast.Eq) else '!='} some {b.e})")
                    continue
                raise Bad("comparison outside the subset: " + ast.unparse(x))
            sym = {ast.Lt: "<", ast.LtE: "≤", ast.Gt: ">", ast.GtE: "≥"}.get(type(o))
            if sym is None or not (isinstance(a, I) and isinstance(b, I)):
                raise Bad("comparison outside the subset: " + ast.unparse(x))
            parts.append(f"(decide ({a.e} {sym} {b.e}))")
        return B(parts[0] if len(parts) == 1 else "(" + " && ".join(parts) + ")")

    def ifexp(self, x, env, binds):
        b0: list = []
        c = self.truthy(self.expr(x.test, env, b0), "conditional expression")
        if b0:
            raise Bad("an operation that may raise in the test of a conditional expression")
        tf, ff = self.facts(x.test, env)
        ba, bb = [], []
        a = self.expr(x.body, self.add_facts(env, tf), ba)
        b = self.expr(x.orelse, self.add_facts(env, ff), bb)
        if isinstance(a, I) and isinstance(b, I):
            if ba or bb:
                v = self.fresh("t")
                binds.append((v, f"(if {c} then ({wrap(ba, f'.ok {a.e}')}) else ({wrap(bb, f'.ok {b.e}')}))"))
                return I(v)
            return I(f"(if {c} then {a.e} else {b.e})")
        raise Bad("conditional expression over values outside the subset: " + ast.unparse(x)[:120])

    def binop(self, x, env, binds):
        # datetime.date(y, m, d) + datetime.timedelta(days=n)
        if isinstance(x.op, ast.Add) and isinstance(x.left, ast.Call) and isinstance(x.right, ast.Call) \
                and self.resolve(x.left.func) == "datetime.date" and self.resolve(x.right.func) == "datetime.timedelta":
            if len(x.left.args) == 3 and not x.left.keywords and not x.right.args and [k.arg for k in x.right.keywords] == ["days"]:
                vs = [self.as_int(self.expr(a, env, binds), "date()") for a in x.left.args]
                n = self.as_int(self.expr(x.right.keywords[0].value, env, binds), "timedelta(days=)")
                t = self.fresh("dt")
                binds.append((t, "(ext.date_add_days " + " ".join(vs) + f" {n})"))
                return DateV(t)
            raise Bad("date arithmetic outside the subset: " + ast.unparse(x))
        probe: list = []
        a = self.expr(x.left, env, probe)
        if isinstance(a, (T, OT)) and isinstance(x.op, ast.Add):
            l = self.text(x.left, env, binds, "+")
            r = self.text(x.right, env, binds, "+")
            return T(f"({l} ++ {r})")
        binds.extend(probe)
        b = self.expr(x.right, env, binds)
        if isinstance(a, I) and isinstance(b, I):
            if isinstance(x.op, (ast.Add, ast.Sub, ast.Mult)):
                sym = {ast.Add: "+", ast.Sub: "-", ast.Mult: "*"}[type(x.op)]
                return I(f"({a.e} {sym} {b.e})")
            if isinstance(x.op, ast.Pow):
                return I(f"(py_pow {a.e} {b.e})")
            if isinstance(x.op, ast.FloorDiv):
                t = self.fresh("q")
                binds.append((t, f"(py_floordiv {a.e} {b.e})"))
                return I(t)
        raise Bad("arithmetic outside the subset: " + ast.unparse(x)[:120])

    def subscript(self, x, env, binds):
        s = x.slice
        if isinstance(s, ast.Slice):
            if s.step is not None:
                raise Bad("slice with a step: " + ast.unparse(x))
            bounds = []
            for b in (s.lower, s.upper):
                if b is None:
                    bounds.append(None)
                elif isinstance(b, ast.Constant) and isinstance(b.value, int) and not isinstance(b.value, bool) and b.value >= 0:
                    bounds.append(b.value)
                else:
                    raise Bad("slice bound outside the subset: " + ast.unparse(x))
            t = self.text(x.value, env, binds, "slice")
            hi = "none" if bounds[1] is None else f"(some {bounds[1]})"
            return T(f"(py_slice {t} {bounds[0] or 0} {hi})")
        v = self.expr(x.value, env, binds)
        if isinstance(v, Marker) and v.e == "MONTHS_OFFSETS":
            i = self.expr(s, env, binds)
            if isinstance(i, B):
                return Tbl(i.e)
            raise Bad("MONTHS_OFFSETS[…] by something that is not a bool: " + ast.unparse(x))
        if isinstance(v, Tbl):
            i = self.as_int(self.expr(s, env, binds), "table index")
            return I(f"(if {v.e} then Gen.py_MONTHS_OFFSETS_1 {i} else Gen.py_MONTHS_OFFSETS_0 {i})")
        if isinstance(v, DictV) and isinstance(s, ast.Constant) and s.value in v.items:
            return v.items[s.value]
        raise Bad("subscript outside the subset: " + ast.unparse(x))

    def fstring(self, x, env, binds):
        parts = []
        for p in x.values:
            if isinstance(p, ast.Constant) and isinstance(p.value, str):
                parts.append(chars(p.value))
                continue
            if not isinstance(p, ast.FormattedValue) or p.conversion != -1:
                raise Bad("f-string outside the subset: " + ast.unparse(x))
            spec = None
            if p.format_spec is not None:
                fs = p.format_spec
                if not (isinstance(fs, ast.JoinedStr) and len(fs.values) == 1 and isinstance(fs.values[0], ast.Constant)):
                    raise Bad("f-string format outside the subset: " + ast.unparse(x))
                spec = str(fs.values[0].value)
            if spec is None:
                parts.append(self.text(p.value, env, binds, "f-string"))
                continue
            m = re.fullmatch(r"0(\d+)d", spec)
            if m:
                n = self.as_int(self.expr(p.value, env, binds), "f-string :0Nd")
                parts.append(f"(py_fmt_0d {int(m.group(1))} {n})")
                continue
            m = re.fullmatch(r"(.)<(\d+)", spec)
            if m and m.group(1).isprintable() and m.group(1) not in "'\\":
                t = self.text(p.value, env, binds, "f-string :c<N")
                parts.append(f"(py_ljust {t} {int(m.group(2))} '{m.group(1)}')")
                continue
            raise Bad("f-string format outside the subset: " + ast.unparse(x))
        if not parts:
            return T("[]")
        return T(parts[0] if len(parts) == 1 else "(" + " ++ ".join(parts) + ")")

    def call(self, x, env, binds):
        f = x.func
        nargs, kws = len(x.args), [k.arg for k in x.keywords]
        gc = self.group_call(x, env)
        if gc is not None:
            m, name = gc
            if name not in self.groups[m.which]:
                raise Bad(f"group {name!r} is not a named group of the expression")
            return OT(f"{m.e}.{name}", name)
        if isinstance(f, ast.Attribute) and f.attr == "start" and nargs == 1 and not kws and isinstance(x.args[0], ast.Constant) \
                and isinstance(f.value, ast.Name) and isinstance(env.get(f.value.id), M):
            m, name = env[f.value.id], x.args[0].value
            if m.which != "dur" or name not in self.groups["dur"]:
                raise Bad("m.start() outside the subset: " + ast.unparse(x))
            return I(f"{m.e}.{name}_start")
        q = self.resolve(f)
        if isinstance(f, ast.Name) and f.id not in self.imports and f.id not in self.funcs:
            if f.id == "int" and nargs == 1 and not kws:
                t = self.text(x.args[0], env, binds, "int()")
                v = self.fresh("n")
                binds.append((v, f"(py_int ext.digit {t})"))
                return I(v)
            if f.id == "len" and nargs == 1 and not kws:
                return I(f"(py_len {self.text(x.args[0], env, binds, 'len()')})")
            if f.id == "bool" and nargs == 1 and not kws:
                return B(self.truthy(self.expr(x.args[0], env, binds), "bool()"))
        if q == "typing.cast" and nargs == 2 and not kws:
            return self.expr(x.args[1], env, binds)
        if q in HELPERS and nargs == HELPERS[q][1] and not kws:
            vs = [self.as_int(self.expr(a, env, binds), q) for a in x.args]
            return (B if HELPERS[q][2] == "B" else I)(f"(Gen.{HELPERS[q][0]} " + " ".join(vs) + ")")
        if q == "pendulum.tz.timezone.FixedTimezone" and nargs == 1 and not kws:
            return TZ(f"(TzInfo.fixed {self.as_int(self.expr(x.args[0], env, binds), 'FixedTimezone()')})")
        if q in ("datetime.date", "datetime.time", "datetime.datetime"):
            names = {"datetime.date": ["year", "month", "day"],
                     "datetime.time": ["hour", "minute", "second", "microsecond", "tzinfo"],
                     "datetime.datetime": ["year", "month", "day", "hour", "minute", "second", "microsecond", "tzinfo"]}[q]
            required = 3 if q != "datetime.time" else 0
            if nargs > len(names):
                raise Bad(f"{q}: too many arguments")
            got = dict(zip(names, x.args))
            for k in x.keywords:
                if k.arg not in names or k.arg in got:
                    raise Bad(f"{q}: unexpected keyword {k.arg}")
                got[k.arg] = k.value
            vs = []
            for i, n in enumerate(names):
                if n not in got:
                    if i < required:
                        raise Bad(f"{q}: argument {n} missing")
                    vs.append("TzInfo.none" if n == "tzinfo" else L(0))
                elif n == "tzinfo":
                    v = self.expr(got[n], env, binds)
                    if isinstance(v, NoneV):
                        v = TZ("TzInfo.none")
                    if not isinstance(v, TZ):
                        raise Bad(f"{q}: tzinfo= is not a time zone of the subset")
                    vs.append(v.e)
                else:
                    vs.append(self.as_int(self.expr(got[n], env, binds), f"{q}: {n}"))
            return PV("(Parsed." + q.split(".")[-1] + " " + " ".join(vs) + ")")
        if q == "pendulum.duration.Duration":
            if x.args:
                raise Bad("Duration(): positional arguments")
            got = {}
            for k in x.keywords:
                if k.arg not in KW8 or k.arg in got:
                    raise Bad(f"Duration(): unexpected keyword {k.arg}")
                got[k.arg] = self.as_int(self.expr(k.value, env, binds), "Duration(): " + k.arg)
            v = self.fresh("dur")
            binds.append((v, "(ext.Duration { " + ", ".join(f"{k} := {got.get(k, L(0))}" for k in KW8) + " })"))
            return DV(v)
        if isinstance(f, ast.Name) and f.id in self.funcs and not kws:
            lname, ptypes, ret = self.funcs[f.id]
            if nargs != len(ptypes):
                raise Bad(f"call of {f.id}: {nargs} arguments")
            vs = []
            for a, pt in zip(x.args, ptypes):
                if pt == "Text":
                    vs.append(self.text(a, env, binds, f"call of {f.id}"))
                    continue
                v = self.expr(a, env, binds)
                if v.t != pt:
                    raise Bad(f"call of {f.id}: argument of type {v.t}, expected {pt}")
                vs.append(v.e)
            t = self.fresh("r")
            binds.append((t, f"({lname} ext " + " ".join(vs) + ")"))
            if ret == "Int":
                return I(t)
            if ret == "YMD":
                return DictV({"year": I(f"{t}.1"), "month": I(f"{t}.2.1"), "day": I(f"{t}.2.2")})
            raise Bad(f"call of {f.id}: result of type {ret}")
        if isinstance(f, ast.Attribute):
            m = f.attr
            if m == "startswith" and nargs == 1 and not kws and isinstance(x.args[0], ast.Constant) and isinstance(x.args[0].value, str):
                return B(f"(List.isPrefixOf {chars(x.args[0].value)} {self.text(f.value, env, binds, '.startswith')})")
            if m == "replace" and nargs == 2 and not kws and all(isinstance(a, ast.Constant) and isinstance(a.value, str) for a in x.args) \
                    and len(x.args[0].value) == 1:
                s = self.text(f.value, env, binds, ".replace")
                return T(f"(py_replace {chars(x.args[0].value)[1:-1]} {chars(x.args[1].value)} {s})")
            if m == "split" and nargs == 1 and not kws and isinstance(x.args[0], ast.Constant) and isinstance(x.args[0].value, str) \
                    and len(x.args[0].value) == 1:
                return SplitV(f"(py_split {chars(x.args[0].value)[1:-1]} {self.text(f.value, env, binds, '.split')})")
        raise Bad("call outside the subset: " + ast.unparse(x)[:120])

    # --- statements
    def bind_name(self, name, v, env):
        env = dict(env)
        if "#truthy" in env and name in env["#truthy"]:
            env["#truthy"] = env["#truthy"] - {name}
        if isinstance(v, (NoneV, Marker, DictV, Tbl, M, SplitV, DateV)):
            env[name] = v
            return "", env
        n = self.fresh(name)
        env[name] = OT(n, v.origin) if isinstance(v, OT) else type(v)(n)
        return f"let {n} : {v.t} := {v.e}\n  ", env

    def raise_term(self, s, caught=None):
        if s.exc is None:
            if caught is None:
                raise Bad("bare raise outside a handler")
            return f".error {caught}"
        e = s.exc
        name = e.func if isinstance(e, ast.Call) else e
        q = self.resolve(name) or (name.id if isinstance(name, ast.Name) else None)
        q = {"pendulum.parsing.exceptions.ParserError": "ParserError"}.get(q, q)
        if q in EXC:
            return f'.error "{q}"'
        raise Bad("raise outside the subset: " + ast.unparse(s))

    def exc_classes(self, x):
        xs = x.elts if isinstance(x, ast.Tuple) else [x]
        out = []
        for c in xs:
            q = self.resolve(c) or (c.id if isinstance(c, ast.Name) else None)
            q = {"pendulum.parsing.exceptions.ParserError": "ParserError"}.get(q, q)
            if q not in EXC:
                raise Bad("exception class outside the subset: " + ast.unparse(c))
            out.append(f'"{q}"')
        return "[" + ", ".join(out) + "]"

    def handlers(self, hs):
        out = []
        for h in hs:
            if h.type is None or h.name is not None or len(h.body) != 1 or not isinstance(h.body[0], ast.Raise):
                raise Bad("except clause outside the subset: " + ast.unparse(h)[:100])
            out.append(f"({self.exc_classes(h.type)}, fun caught => {self.raise_term(h.body[0], 'caught')})")
        return "[" + ", ".join(out) + "]"

    def ret_term(self, x, env):
        binds: list = []
        v = self.expr(x, env, binds)
        if self.ret == "Int" and isinstance(v, I):
            r = v.e
        elif self.ret == "YMD" and isinstance(v, DictV) and sorted(v.items) == ["day", "month", "year"] \
                and all(isinstance(i, I) for i in v.items.values()):
            r = f"({v.items['year'].e}, {v.items['month'].e}, {v.items['day'].e})"
        elif self.ret == "Parsed" and isinstance(v, PV):
            r = v.e
        elif self.ret == "V" and isinstance(v, DV):
            r = v.e
        else:
            raise Bad(f"return value of type {type(v).__name__} in a function returning {self.ret}: " + ast.unparse(x)[:80])
        if binds and binds[-1][0] == r:
            last = binds.pop()
            return wrap(binds, last[1])
        return wrap(binds, f".ok {r}")

    def block(self, stmts, env, cont, live):
        """term for the statements followed by `cont(env)` (None: the end of the function); `live` = names read afterwards"""
        if not stmts:
            if cont is None:
                raise Bad("control falls off the end of the function")
            return cont(env)
        s, rest = stmts[0], stmts[1:]
        if isinstance(s, ast.Pass) or (isinstance(s, ast.Expr) and isinstance(s.value, ast.Constant)):
            return self.block(rest, env, cont, live)
        if isinstance(s, ast.AnnAssign):
            if s.value is None:
                return self.block(rest, env, cont, live)
            s = ast.copy_location(ast.Assign(targets=[s.target], value=s.value), s)
        if isinstance(s, ast.AugAssign) and isinstance(s.target, ast.Name):
            s = ast.copy_location(ast.Assign(
                targets=[s.target], value=ast.BinOp(left=ast.Name(id=s.target.id, ctx=ast.Load()), op=s.op, right=s.value)), s)
        if isinstance(s, ast.Assign):
            binds: list = []
            if len(s.targets) == 1 and isinstance(s.targets[0], ast.Tuple) and len(s.targets[0].elts) == 2 \
                    and all(isinstance(e, ast.Name) for e in s.targets[0].elts):
                v = self.expr(s.value, env, binds)
                if isinstance(v, SplitV):
                    a, b = (self.fresh(e.id) for e in s.targets[0].elts)
                    env2 = dict(env)
                    for e in s.targets[0].elts:
                        if "#truthy" in env2:
                            env2["#truthy"] = env2["#truthy"] - {e.id}
                    env2[s.targets[0].elts[0].id], env2[s.targets[0].elts[1].id] = T(a), T(b)
                    body = self.block(rest, env2, cont, live)
                    return wrap(binds, f"match {v.e} with\n  | [{a}, {b}] =>\n  ({body})\n  | _ => .error \"ValueError\"")
                raise Bad("tuple assignment outside the subset: " + ast.unparse(s))
            if all(isinstance(t, ast.Name) for t in s.targets):
                v = self.expr(s.value, env, binds)
                pre, env2 = "", env
                for t in s.targets:
                    p, env2 = self.bind_name(t.id, v, env2)
                    pre += p
                return wrap(binds, pre + self.block(rest, env2, cont, live))
            raise Bad("assignment outside the subset: " + ast.unparse(s)[:120])
        if isinstance(s, ast.If):
            return self.if_stmt(s, rest, env, cont, live)
        if isinstance(s, ast.For):
            return self.for_stmt(s, rest, env, cont, live)
        if isinstance(s, ast.Raise):
            return self.raise_term(s)
        if isinstance(s, ast.Return) and s.value is not None:
            if self.depth:
                raise Bad("return inside a lifted section")
            return self.ret_term(s.value, env)
        if isinstance(s, ast.Try) and len(s.body) == 1 and s.handlers and not s.orelse and not s.finalbody:
            hs = self.handlers(s.handlers)
            b = s.body[0]
            if isinstance(b, ast.Return) and b.value is not None and not self.depth:
                return f"tryExcept ({self.ret_term(b.value, env)}) {hs}"
            if isinstance(b, ast.Assign) and len(b.targets) == 1 and isinstance(b.targets[0], ast.Name):
                binds = []
                v = self.expr(b.value, env, binds)
                if isinstance(v, DictV) and binds and all(i.e.startswith(binds[-1][0] + ".") for i in v.items.values()):
                    last = binds.pop()
                    tried = f"tryExcept ({wrap(binds, last[1])}) {hs}"
                    env2 = dict(env)
                    env2[b.targets[0].id] = v
                    return f"bindE ({tried}) fun {last[0]} =>\n  ({self.block(rest, env2, cont, live)})"
                if isinstance(v, (I, DV, DateV)) and binds and binds[-1][0] == v.e:
                    last = binds.pop()
                    tried = f"tryExcept ({wrap(binds, last[1])}) {hs}"
                    env2 = dict(env)
                    env2[b.targets[0].id] = v
                    return f"bindE ({tried}) fun {last[0]} =>\n  ({self.block(rest, env2, cont, live)})"
            raise Bad("try statement outside the subset: " + ast.unparse(s)[:120])
        raise Bad("statement outside the subset: " + ast.unparse(s)[:120])

    # --- joins
    def outs_of(self, inner, rest, env, live, both=None):
        live_rest = live_in(rest, live)
        outs = []
        for n in stores(inner):
            if n not in live_rest:
                continue
            if n in env or (both is not None and all(definitely(b, n) or terminal(b) for b in both)
                            and any(definitely(b, n) for b in both)):
                outs.append(n)
            else:
                raise Bad(f"the variable {n} may be unbound after the statement at line {inner[0].lineno}")
        return outs, live_rest

    def yielder(self, outs, types):
        def k(e):
            vals = []
            for n in outs:
                v = e.get(n)
                if v is None:
                    raise Bad(f"the variable {n} may be unbound at a join")
                if isinstance(v, NoneV):
                    v = TZ("TzInfo.none")
                if not isinstance(v, (I, B, T, OT, TZ)):
                    raise Bad(f"the variable {n} holds a {type(v).__name__} at a join")
                if n in types and types[n] is not type(v):
                    raise Bad(f"the variable {n} has different types in the two branches")
                types[n] = type(v)
                vals.append(v.e)
            return ".ok " + ("()" if not vals else vals[0] if len(vals) == 1 else "(" + ", ".join(vals) + ")")
        return k

    def after_join(self, outs, types, env):
        """(lambda pattern, tuple type, env with the outs rebound)"""
        env2 = dict(env)
        names = []
        for n in outs:
            f = self.fresh(n)
            names.append(f)
            old = env.get(n)
            env2[n] = OT(f, getattr(old, "origin", None)) if types[n] is OT else types[n](f)
            if "#truthy" in env2 and n in env2["#truthy"]:
                env2["#truthy"] = env2["#truthy"] - {n}
        ty = " × ".join(types[n].t for n in outs) if outs else "Unit"
        pat = "_" if not outs else names[0] if len(outs) == 1 else "(" + ", ".join(names) + ")"
        return pat, ty, env2

    def simple_branch(self, stmts, env):
        """env after a branch made of plain non-raising assignments, or None"""
        for s in stmts:
            if isinstance(s, ast.AugAssign) and isinstance(s.target, ast.Name):
                s = ast.Assign(targets=[s.target], value=ast.BinOp(left=ast.Name(id=s.target.id, ctx=ast.Load()), op=s.op, right=s.value))
            if not (isinstance(s, ast.Assign) and len(s.targets) == 1 and isinstance(s.targets[0], ast.Name)):
                return None
            binds: list = []
            try:
                v = self.expr(s.value, env, binds)
            except Bad:
                return None
            if binds or not isinstance(v, (I, B)):
                return None
            env = dict(env)
            env[s.targets[0].id] = v
        return env

    def section_of(self, test, env):
        if self.depth:
            return None
        g = None
        gc = self.group_call(test, env)
        if gc is not None:
            g = gc[1]
        elif isinstance(test, ast.Name) and isinstance(env.get(test.id), OT):
            g = env[test.id].origin
        return SECTIONS.get((self.fn, g)) if g else None

    def if_stmt(self, s, rest, env, cont, live):
        binds: list = []
        c = self.truthy(self.expr(s.test, env, binds), "if")
        tf, ff = self.facts(s.test, env)
        env_t, env_f = self.add_facts(env, tf), self.add_facts(env, ff)
        body, orelse = list(s.body), list(s.orelse)
        bt, bf = terminal(body), terminal(orelse)
        if bt and bf:
            return wrap(binds, f"if {c} then\n  ({self.block(body, env_t, None, set())})\n  else\n  ({self.block(orelse, env_f, None, set())})")
        if bt:
            return wrap(binds, f"if {c} then\n  ({self.block(body, env_t, None, set())})\n  else\n  ({self.block(orelse + rest, env_f, cont, live)})")
        if bf:
            return wrap(binds, f"if {c} then\n  ({self.block(body + rest, env_t, cont, live)})\n  else\n  ({self.block(orelse, env_f, None, set())})")
        outs, live_rest = self.outs_of([s], rest, env, live, both=(body, orelse))
        lift = self.section_of(s.test, env) if not binds else None
        # two branches of plain assignments: `let x := if c then a else b`
        if lift is None and not binds:
            ea, eb = self.simple_branch(body, env_t), self.simple_branch(orelse, env_f)
            if ea is not None and eb is not None and all(n in ea and n in eb and type(ea[n]) is type(eb[n]) for n in outs):
                pre, env2 = "", dict(env)
                for n in outs:
                    f = self.fresh(n)
                    pre += f"let {f} : {ea[n].t} := if {c} then {ea[n].e} else {eb[n].e}\n  "
                    env2[n] = type(ea[n])(f)
                return pre + self.block(rest, env2, cont, live)
        types: dict = {}
        k = self.yielder(outs, types)
        if lift is not None:
            self.depth += 1
        try:
            a = self.block(body, env_t, k, live_rest)
            b = self.block(orelse, env_f, k, live_rest)
        finally:
            if lift is not None:
                self.depth -= 1
        pat, ty, env2 = self.after_join(outs, types, env)
        joined = f"if {c} then\n  ({a})\n  else\n  ({b})"
        if lift is not None:
            joined = self.lift(lift, joined, ty, [s], env)
        return wrap(binds, f"bindE (α := {ty}) ({joined}) fun {pat} =>\n  ({self.block(rest, env2, cont, live)})")

    def lift(self, name, term, ty, stmts, env):
        """make `term` a definition of its own; its parameters are the variables of `env` it mentions"""
        order = occurs(stmts)
        params = []
        for n in sorted((k for k in env if not k.startswith("#")), key=lambda k: (order.index(k) if k in order else 10**6, k)):
            v = env[n]
            if isinstance(v, (I, B, T, OT, TZ)) and re.fullmatch(r"[A-Za-z_]\w*", v.e) and re.search(rf"(?<![\w.]){re.escape(v.e)}(?![\w])", term):
                params.append((v.e, v.t))
            elif isinstance(v, (DictV, Tbl, DateV, SplitV)):
                raise Bad(f"lifted section {name}: structured value {n} in scope")
        ps = "".join(f" ({p} : {t})" for p, t in params)
        self.lifted.append(f"/-- `{self.fn}`: the statement `if {ast.unparse(stmts[0].test)}:` (line {stmts[0].lineno}) -/\n"
                           f"def {name} {{V : Type}} (ext : Ext V) (m : {self.mtype}){ps} : Except String ({ty}) :=\n  {term}\n")
        return f"{name} ext m" + "".join(f" {p}" for p, _ in params)

    def for_stmt(self, s, rest, env, cont, live):
        """for i in range(a, b): if c: <assignments>; break"""
        it = s.iter
        if not (isinstance(s.target, ast.Name) and isinstance(it, ast.Call) and isinstance(it.func, ast.Name) and it.func.id == "range"
                and "range" not in self.imports and len(it.args) == 2 and not it.keywords and not s.orelse and len(s.body) == 1
                and isinstance(s.body[0], ast.If) and not s.body[0].orelse and s.body[0].body
                and isinstance(s.body[0].body[-1], ast.Break)):
            raise Bad("for loop outside the subset: " + ast.unparse(s)[:100])
        binds: list = []
        lo = self.as_int(self.expr(it.args[0], env, binds), "range()")
        hi = self.as_int(self.expr(it.args[1], env, binds), "range()")
        i = self.fresh(s.target.id)
        envi = dict(env)
        envi[s.target.id] = I(i)
        b0: list = []
        c = self.truthy(self.expr(s.body[0].test, envi, b0), "loop test")
        if b0:
            raise Bad("an operation that may raise in the test of the loop")
        inner = s.body[0].body[:-1]
        if any(isinstance(n, (ast.Break, ast.Continue)) for st in inner for n in ast.walk(st)):
            raise Bad("break / continue inside the loop body")
        if s.target.id in live_in(rest, live):
            raise Bad("the loop variable is read after the loop")
        outs, live_rest = self.outs_of(inner, rest, env, live)
        types: dict = {}
        k = self.yielder(outs, types)
        a = self.block(inner, envi, k, live_rest)
        b = k(env)
        pat, ty, env2 = self.after_join(outs, types, env)
        return wrap(binds, f"bindE (α := {ty}) (match py_first_in_range {lo} {hi} (fun {i} => {c}) with\n  | some {i} =>\n  ({a})\n"
                           f"  | none => {b}) fun {pat} =>\n  ({self.block(rest, env2, cont, live)})")


# ----------------------------------------------------------------------------- prelude

PRELUDE = r"""/-- the text of a string: the framework's strings are lists of characters -/
abbrev Text := List Char

/-- evaluate `x`; what it raises propagates. Exceptions are named by their class. -/
def bindE {α β : Type} (x : Except String α) (f : α → Except String β) : Except String β :=
  match x with
  | .ok v => f v
  | .error e => .error e

/-- `isinstance(e, cls)` for the exception classes of iso8601.py: `ParserError` derives from `ValueError` -/
def py_isa (e cls : String) : Bool := e == cls || (e == "ParserError" && cls == "ValueError")

/-- `try: body  except C1: h1  except C2: h2 …`; a handler receives the caught exception (a bare `raise` re-raises it) -/
def tryExcept {α : Type} (body : Except String α) (handlers : List (List String × (String → Except String α))) :
    Except String α :=
  match body with
  | .ok v => .ok v
  | .error e =>
    match handlers.find? (fun h => h.1.any (py_isa e)) with
    | some h => h.2 e
    | none => .error e

/-- truth value of `m.group(name)`: the group took part in the match and is not empty -/
def truthy (g : Option Text) : Bool :=
  match g with
  | some (_ :: _) => true
  | _ => false

/-- `m.group(name) or 0`: `none` stands for the falsy `0` -/
def py_or0 (g : Option Text) : Option Text := if truthy g then g else none

/-- the string an operation needs; `None` (or the `0` of `… or 0`) has no such operation -/
def py_text (g : Option Text) : Except String Text :=
  match g with
  | some s => .ok s
  | none => .error "TypeError"

/-- decimal digits, left to right; `digit` = the decimal value of a character (`unicodedata.decimal`) -/
def py_nat (digit : Char → Option Nat) : Text → Int → Except String Int
  | [], acc => .ok acc
  | c :: cs, acc =>
    match digit c with
    | some d => py_nat digit cs (10 * acc + d)
    | none => .error "ValueError"

/-- `int(s)` for a sign followed by decimal digits (surrounding blanks and `_` separators are outside the model:
    ValueError); `int("")` is a ValueError -/
def py_int (digit : Char → Option Nat) (s : Text) : Except String Int :=
  match s with
  | [] => .error "ValueError"
  | '-' :: c :: cs => bindE (py_nat digit (c :: cs) 0) fun v => .ok (-v)
  | '+' :: c :: cs => py_nat digit (c :: cs) 0
  | '-' :: [] => .error "ValueError"
  | '+' :: [] => .error "ValueError"
  | _ => py_nat digit s 0

/-- `len(s)` -/
def py_len (s : Text) : Int := Int.ofNat s.length

/-- `s[lo:hi]` for constant bounds ≥ 0 (`hi = none`: to the end) -/
def py_slice (s : Text) (lo : Nat) (hi : Option Nat) : Text :=
  match hi with
  | some h => (s.take h).drop lo
  | none => s.drop lo

/-- `f"{s:c<n}"` -/
def py_ljust (s : Text) (n : Nat) (c : Char) : Text := s ++ List.replicate (n - s.length) c

def py_dec_go : Nat → Nat → Text → Text
  | 0, _, acc => acc
  | f + 1, n, acc =>
    if n < 10 then Char.ofNat (48 + n) :: acc else py_dec_go f (n / 10) (Char.ofNat (48 + n % 10) :: acc)

/-- `str(n)` for `n ≥ 0` -/
def py_dec (n : Nat) : Text := py_dec_go (n + 1) n []

/-- exactly `k` decimal digits of `n` (the `k` lowest ones), most significant first -/
def py_digits : Nat → Nat → Text
  | 0, _ => []
  | k + 1, n => Char.ofNat (48 + n / 10 ^ k % 10) :: py_digits k n

/-- `f"{n:0{w}d}"`: zero-padded to `w` characters when it fits, the full decimal otherwise; the sign counts -/
def py_fmt_0d (w : Nat) (n : Int) : Text :=
  if n < 0 then '-' :: (if n.natAbs < 10 ^ (w - 1) then py_digits (w - 1) n.natAbs else py_dec n.natAbs)
  else if n.toNat < 10 ^ w then py_digits w n.toNat else py_dec n.toNat

/-- `s.replace(old, new)` for a one-character `old` -/
def py_replace (old : Char) (new : Text) (s : Text) : Text :=
  s.flatMap fun c => if c == old then new else [c]

/-- `s.split(sep)` for a one-character separator -/
def py_split (sep : Char) : Text → List Text
  | [] => [[]]
  | c :: cs =>
    if c = sep then [] :: py_split sep cs
    else match py_split sep cs with
      | [] => [[c]]
      | p :: ps => (c :: p) :: ps

/-- `a ** b` on integers, `b ≥ 0` -/
def py_pow (a b : Int) : Int := a ^ b.toNat

/-- `a // b` -/
def py_floordiv (a b : Int) : Except String Int :=
  if b == 0 then .error "ZeroDivisionError" else .ok (Int.fdiv a b)

def py_first_go (p : Int → Bool) : Nat → Int → Option Int
  | 0, _ => none
  | n + 1, i => if p i then some i else py_first_go p n (i + 1)

/-- `for i in range(lo, hi): if p(i): …; break` — the `i` at which the loop body runs, if any -/
def py_first_in_range (lo hi : Int) (p : Int → Bool) : Option Int := py_first_go p (hi - lo).toNat lo

/-- a `tzinfo` argument: `None`, the `UTC` singleton of `pendulum.tz.timezone`, `FixedTimezone(offset)` -/
inductive TzInfo | none | utc | fixed (offset : Int)
deriving DecidableEq, Repr

/-- what `parse_iso8601` returns for a date/time string: the call of the standard-library constructor with its arguments
    (defaults filled in): `datetime.date(y, m, d)`, `datetime.time(h, mi, s, us, tzinfo=)`, `datetime.datetime(y, …, tzinfo=)` -/
inductive Parsed
  | date (year month day : Int)
  | time (hour minute second microsecond : Int) (tzinfo : TzInfo)
  | datetime (year month day hour minute second microsecond : Int) (tzinfo : TzInfo)
deriving DecidableEq, Repr

/-- the keyword arguments of `Duration(...)` -/
structure DurArgs where
  years : Int
  months : Int
  weeks : Int
  days : Int
  hours : Int
  minutes : Int
  seconds : Int
  microseconds : Int
deriving DecidableEq, Repr

/-- what the translated code calls outside iso8601.py / `_helpers.py` / constants.py; `V` = a `Duration` object -/
structure Ext (V : Type) where
  /-- the decimal value of a character (`unicodedata.decimal`): what `int()` accepts as a digit -/
  digit : Char → Option Nat
  /-- `datetime.date(y, m, d) + datetime.timedelta(days=n)` as (year, month, day) -/
  date_add_days : Int → Int → Int → Int → Except String (Int × Int × Int)
  /-- `Duration(years=…, …, microseconds=…)` -/
  Duration : DurArgs → Except String V
"""


# ----------------------------------------------------------------------------- driver

def _imports(tree):
    out = {}
    for n in tree.body:
        if isinstance(n, ast.Import):
            for a in n.names:
                out[a.asname or a.name.split(".")[0]] = a.name if a.asname else a.name.split(".")[0]
        elif isinstance(n, ast.ImportFrom) and n.module and n.level == 0:
            for a in n.names:
                out[a.asname or a.name] = n.module + "." + a.name
    return out


def _fn(tree, name):
    for n in tree.body:
        if isinstance(n, ast.FunctionDef) and n.name == name:
            return n
    raise Bad(f"function {name} not found")


def _sig(fn, expect):
    a = fn.args
    got = [x.arg for x in a.args] + (["**" + a.kwarg.arg] if a.kwarg else [])
    if a.vararg or a.kwonlyargs or a.posonlyargs or a.defaults or got != expect or fn.decorator_list:
        raise Bad(f"{fn.name}: signature {got}, expected {expect}")


def _body(fn):
    return [s for s in fn.body if not (isinstance(s, ast.Expr) and isinstance(s.value, ast.Constant))]


def _regex(tree, name):
    """(pattern + flags verbatim, [named groups in order])"""
    for n in tree.body:
        if isinstance(n, ast.Assign) and len(n.targets) == 1 and isinstance(n.targets[0], ast.Name) and n.targets[0].id == name:
            c = n.value
            if not (isinstance(c, ast.Call) and ast.unparse(c.func) == "re.compile" and len(c.args) == 2 and not c.keywords
                    and isinstance(c.args[0], ast.Constant) and isinstance(c.args[0].value, str)):
                raise Bad(f"{name} is no longer re.compile(<string>, <flags>)")
            pat = c.args[0].value
            groups = re.findall(r"\(\?P<(\w+)>", pat)
            if len(set(groups)) != len(groups):
                raise Bad(f"{name}: a group name occurs twice")
            return pat + "\n" + ast.unparse(c.args[1]), groups
    raise Bad(f"{name} not found")


PROLOGUE = {
    "parse_iso8601": ["parsed = _parse_iso8601_duration(text)", "if parsed is not None:\n    return parsed",
                      "m = ISO8601_DT.match(text)", "if not m:\n    raise ParserError('Invalid ISO 8601 string')"],
    "_parse_iso8601_duration": ["m = ISO8601_DURATION.match(text)", "if not m:\n    return None"],
}
WANT_IMPORTS = {
    "datetime": ("datetime", "datetime"), "re": ("re", "both"), "cast": ("typing.cast", "duration"),
    "DAYS_PER_WEEK": ("pendulum.constants.DAYS_PER_WEEK", "duration"), "MONTHS_OFFSETS": ("pendulum.constants.MONTHS_OFFSETS", "datetime"),
    "SECONDS_PER_DAY": ("pendulum.constants.SECONDS_PER_DAY", "duration"), "SECONDS_PER_HOUR": ("pendulum.constants.SECONDS_PER_HOUR", "duration"),
    "SECONDS_PER_MINUTE": ("pendulum.constants.SECONDS_PER_MINUTE", "duration"), "US_PER_SECOND": ("pendulum.constants.US_PER_SECOND", "duration"),
    "Duration": ("pendulum.duration.Duration", "duration"), "days_in_year": ("pendulum.helpers.days_in_year", "datetime"),
    "is_leap": ("pendulum.helpers.is_leap", "datetime"), "is_long_year": ("pendulum.helpers.is_long_year", "datetime"),
    "week_day": ("pendulum.helpers.week_day", "datetime"), "ParserError": ("pendulum.parsing.exceptions.ParserError", "both"),
    "UTC": ("pendulum.tz.timezone.UTC", "datetime"), "FixedTimezone": ("pendulum.tz.timezone.FixedTimezone", "datetime"),
}


def generate(changed, fallbacks, _write):
    from tools.gen_lean import GEN, py_constants
    out = ["import Pendulum.Gen.Helpers",
           "/-! GENERATED by tools/gen_isopy.py from src/pendulum/parsing/iso8601.py — do not edit.",
           "",
           "The code of `parse_iso8601`, `_get_iso_8601_week`, `_parse_iso8601_duration`, `_fraction_to_microseconds` that consumes the",
           "groups of a regex match (the match itself is the parameter `m`), statement by statement, in the exception monad",
           "`Except String` (the string names the exception class); external callees are the fields of `ext : Ext V`. -/",
           "set_option linter.unusedVariables false", "namespace Pendulum.Gen.IsoPy", "open Pendulum", "", PRELUDE]

    def finish():
        out.extend(["end Pendulum.Gen.IsoPy", ""])
        _write(GEN / "IsoPy.lean", "\n".join(out), changed)
        return 0

    def fb(part, msg):
        for p in (("datetime", "duration") if part == "both" else (part,)):
            fallbacks.append(f"IsoPy:{p}: " + msg)

    try:
        tree = ast.parse((REPO / SRC).read_text())
        etree = ast.parse((REPO / "src/pendulum/parsing/exceptions/__init__.py").read_text())
        htree = ast.parse((REPO / "src/pendulum/helpers.py").read_text())
    except (OSError, SyntaxError) as e:
        fb("both", f"cannot read the sources: {e}")
        return finish()

    pe = next((n for n in etree.body if isinstance(n, ast.ClassDef) and n.name == "ParserError"), None)
    if pe is None or [ast.unparse(b) for b in pe.bases] != ["ValueError"]:
        fb("both", "ParserError no longer derives directly from ValueError (parsing/exceptions)")
    # without the compiled extension `pendulum.helpers` re-exports the functions of `_helpers.py` (= Gen/Helpers.lean)
    fallback_imports = set()
    for n in ast.walk(htree):
        if isinstance(n, ast.ExceptHandler) and ast.unparse(n.type or ast.Constant(None)) == "ImportError":
            for st in n.body:
                if isinstance(st, ast.ImportFrom) and st.module == "pendulum._helpers":
                    fallback_imports.update(a.name for a in st.names if a.asname is None)
    for h in ("days_in_year", "is_leap", "is_long_year", "week_day"):
        if h not in fallback_imports:
            fb("datetime", f"pendulum.helpers no longer takes {h} from pendulum._helpers when the extension is absent")

    imports = _imports(tree)
    for k, (v, part) in WANT_IMPORTS.items():
        if k in imports and imports[k] != v:
            fb(part, f"the name `{k}` is no longer {v} (now {imports[k]})")
    # module-level names other than the known ones shadow nothing the translator relies on
    toplevel = [n for n in tree.body if not isinstance(n, (ast.Import, ast.ImportFrom))]
    known_top = {"ISO8601_DT", "ISO8601_DURATION", "parse_iso8601", "_fraction_to_microseconds", "_parse_iso8601_duration",
                 "_get_iso_8601_week"}
    for n in toplevel:
        names = [n.name] if isinstance(n, (ast.FunctionDef, ast.ClassDef)) else stores([n]) if isinstance(n, (ast.Assign, ast.AnnAssign)) else None
        if names is None or not set(names) <= known_top:
            fb("both", "module-level statement outside the subset: " + ast.unparse(n)[:80])

    consts = py_constants()
    groups: dict = {}
    funcs: dict = {}
    tr = Tr(imports, consts, groups, funcs)

    # ---- the two regular expressions: verbatim, and the records of their named groups
    for which, name, rec, part in (("dt", "ISO8601_DT", "DtGroups", "datetime"), ("dur", "ISO8601_DURATION", "DurGroups", "duration")):
        try:
            pat, gs = _regex(tree, name)
            groups[which] = gs
            out.append(f"/-- the `{name}` regular expression and its flags, verbatim (its matching is not translated) -/")
            out.append(f"def {name}_pattern : String :=\n  {lean_str(pat)}\n")
            out.append(f"/-- a match of `{name}`: the text of each named group (`m.group(name)`), none = the group did not take part"
                       + ("; `<name>_start` = `m.start(name)`" if which == "dur" else "") + " -/")
            out.append(f"structure {rec} where")
            for g in gs:
                out.append(f"  {g} : Option Text")
            if which == "dur":
                for g in gs:
                    out.append(f"  {g}_start : Int")
            out.append("deriving DecidableEq, Repr\n")
        except (Bad, ValueError) as e:
            fb(part, f"cannot translate {name}: {e}")
            groups[which] = []
            out.append(f"structure {rec} where\n  none_ : Unit\n")

    def emit(part, label, thunk):
        try:
            tr.lifted = []
            text = thunk()
            out.extend(tr.lifted)
            out.append(text)
            return True
        except (Bad, StopIteration, KeyError, IndexError, AttributeError, ValueError, TypeError) as e:
            fb(part, f"cannot translate {label}: {e}")
            out.append(f"-- UNTRANSLATABLE {label}: {str(e)[:300]}\n")
            return False

    def prologue(fn, part):
        b = _body(fn)
        want = PROLOGUE[fn.name]
        got = [ast.unparse(s) for s in b[:len(want)]]
        if got != want:
            raise Bad(f"the first statements of {fn.name} are no longer {want} (now {got})")
        return b[len(want):], "\n".join(got)

    def fn_def(pyname, lname, sig, params, ret, doc, mtype=None, skip_prologue=False):
        fn = _fn(tree, pyname)
        _sig(fn, sig)
        tr.n, tr.fn, tr.ret, tr.mtype, tr.depth = 0, pyname, ret, mtype, 0
        env = {}
        ps = ""
        for pn, pt in params:
            env[pn] = {"Text": T, "Int": I, "Option Text": OT}[pt](pn)
            ps += f" ({pn} : {pt})"
        body = _body(fn)
        pre = ""
        if skip_prologue:
            body, ptxt = prologue(fn, None)
            env = {"m": M("m", "dt" if mtype == "DtGroups" else "dur")}
            ps = f" (m : {mtype})"
            pre = (f"/-- the statements of `{pyname}` up to the match test, verbatim -/\n"
                   f"def {lname}_prologue : String :=\n  {lean_str(ptxt)}\n\n")
        term = tr.block(body, env, None, set())
        rt = {"Int": "Int", "YMD": "(Int × Int × Int)", "Parsed": "Parsed", "V": "V"}[ret]
        lifted = "".join(x + "\n" for x in tr.lifted)
        tr.lifted = []
        return (pre + lifted + f"/-- {doc} -/\ndef {lname} {{V : Type}} (ext : Ext V){ps} : Except String {rt} :=\n  {term}\n")

    # ---- datetime
    ok = emit("datetime", "_get_iso_8601_week", lambda: fn_def(
        "_get_iso_8601_week", "py_get_iso_8601_week", ["year", "week", "weekday"],
        [("year", "Option Text"), ("week", "Option Text"), ("weekday", "Option Text")], "YMD",
        "`_get_iso_8601_week(year, week, weekday)` on the texts of the groups: (year, month, day)"))
    if ok:
        funcs["_get_iso_8601_week"] = ("py_get_iso_8601_week", ["Option Text"] * 3, "YMD")
    emit("datetime", "parse_iso8601", lambda: fn_def(
        "parse_iso8601", "py_iso_datetime", ["text"], [], "Parsed",
        "`parse_iso8601(text)` after `m = ISO8601_DT.match(text)` succeeded: the constructor call it returns",
        mtype="DtGroups", skip_prologue=True))
    # ---- duration
    ok = emit("duration", "_fraction_to_microseconds", lambda: fn_def(
        "_fraction_to_microseconds", "py_fraction_to_microseconds", ["fraction", "unit_seconds"],
        [("fraction", "Text"), ("unit_seconds", "Int")], "Int", "`_fraction_to_microseconds(fraction, unit_seconds)`"))
    if ok:
        funcs["_fraction_to_microseconds"] = ("py_fraction_to_microseconds", ["Text", "Int"], "Int")
    emit("duration", "_parse_iso8601_duration", lambda: fn_def(
        "_parse_iso8601_duration", "py_iso_duration", ["text", "**options"], [], "V",
        "`_parse_iso8601_duration(text)` after `m = ISO8601_DURATION.match(text)` succeeded: the `Duration` it returns",
        mtype="DurGroups", skip_prologue=True))
    return finish()
