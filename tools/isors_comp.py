"""Compound statements (if / if-let / match / loops) for tools/gen_isors.py."""
from __future__ import annotations

import re

from tools.rust_front import BLOCKLIKE, Bad
from tools.isors_prog import declared, diverges, has_break, has_ok_return, lty, pack, reads, vname
from tools.isors_stmt import Ctx, Late, StmtTr, THRESH, indent


def is_lit(p):
    return p[0] == "plit" or (p[0] == "por" and all(is_lit(q) for q in p[1]))


class CompTr(StmtTr):
    # ------------------------------------------------------------------ lowering
    def lower(self, e, ctx):
        """-> ("if", cond, then, else) | ("lmatch", scrut, arms) | ("seq", stmts)"""
        if e[0] == "if":
            return e
        if e[0] == "iflet":
            return ("lmatch", e[2], [(e[1], e[3]), (("pwild",), e[4] if e[4] is not None else [])])
        scrut, arms = e[1], e[2]
        if any(is_lit(p) for p, _ in arms) and all(is_lit(p) or p[0] in ("pwild", "pbind") for p, _ in arms) \
                and not all(p[0] == "pbind" and p[1] in ("true", "false") for p, _ in arms):
            if arms[-1][0][0] not in ("pwild", "pbind"):
                raise Bad("`match` on literals without a final catch-all arm")
            s = scrut
            while s[0] in ("paren", "field"):
                s = s[1]
            if s[0] != "path":
                raise Bad("`match` on literals with a scrutinee that is not a variable or field")
            p, body = arms[-1]
            chain = body
            if p[0] == "pbind" and p[1] in reads(body):
                chain = [("let", p, None, scrut, None)] + body
            for p, body in reversed(arms[:-1]):
                if not is_lit(p):
                    raise Bad("catch-all arm before the last arm")
                chain = [("expr", ("if", ("litcond", scrut, p), body, chain))]
            return chain[0][1]
        # `match <call> { Ok(p) => {..} Err(x) => return Err(x) }`  ==  `let p = <call>?; ..`
        if len(arms) == 2 and arms[0][0][0] == "pts" and arms[0][0][1] == "Ok" and arms[1][0][0] == "pts" and arms[1][0][1] == "Err" \
                and scrut[0] in ("mcall", "call"):
            perr, berr = arms[1]
            if len(perr[2]) == 1 and perr[2][0][0] == "pbind" and \
                    berr == [("return", ("call", ("path", "Err"), [("path", perr[2][0][1])]))]:
                return ("seq", [("let", arms[0][0][2][0], None, ("try", scrut), None)] + arms[0][1])
            raise Bad("`match` on the Result of a call whose Err arm does not simply propagate the error")
        return ("lmatch", scrut, arms)

    def lean_pat(self, p, ty, binds):
        k = p[0]
        if k == "pwild":
            return "_"
        if k == "pbind":
            if p[1] in ("true", "false"):
                return p[1]
            binds[p[1]] = ty
            return vname(p[1])
        if k == "ppath" and p[1] == "None":
            return "none"
        if k == "pts" and p[1] == "Some" and len(p[2]) == 1 and isinstance(ty, tuple) and ty[0] == "opt":
            return "(some " + self.lean_pat(p[2][0], ty[1], binds) + ")"
        if k == "pts" and p[1] == "Ok" and len(p[2]) == 1 and isinstance(ty, tuple) and ty[0] == "res":
            return "(.ok " + self.lean_pat(p[2][0], ty[1], binds) + ")"
        if k == "pts" and p[1] == "Err" and len(p[2]) == 1 and isinstance(ty, tuple) and ty[0] == "res":
            return "(.error (.fail " + self.lean_pat(p[2][0], ("struct", "ParseError"), binds) + "))"
        if k == "ptuple" and isinstance(ty, tuple) and ty[0] == "tup" and len(ty[1]) == len(p[1]):
            return "(" + ", ".join(self.lean_pat(q, t, binds) for q, t in zip(p[1], ty[1])) + ")"
        raise Bad(f"pattern {p} against a value of type {ty}")

    # ------------------------------------------------------------------ compound statements
    def alternatives(self, e, ctx, pad):
        """-> (pre lines, kind, head term, [alt]) with alt = dict(head, body, binds, extra)"""
        if e[0] == "if":
            st, c, tc = self.expr(e[1], ctx)
            if tc != "Bool":
                raise Bad("condition is not boolean")
            return self.render(st, pad), "if", c, [dict(head=None, body=e[2], binds={}, extra=None),
                                                    dict(head=None, body=e[3] if e[3] is not None else [], binds={}, extra=None)]
        scrut, arms_ = e[1], e[2]
        if scrut[0] == "mcall" and scrut[2] == "next" and not scrut[3] and scrut[1][0] == "field":
            # `self.chars.next()` on a list of (offset, char): head / tail
            ot, tt = self.pure(scrut[1], ctx)
            if tt != "CharIndices":
                raise Bad(".next() on a value that is not the CharIndices iterator")
            owner = scrut[1][1]
            if owner[0] != "path" or owner[1] in ctx.ro:
                raise Bad(".next() on an iterator that is not a field of a mutable variable")
            p0, b0 = arms_[0]
            if len(arms_) != 2 or arms_[1][0][0] != "pwild" or p0[0] != "pts" or p0[1] != "Some" or p0[2][0][0] != "ptuple":
                raise Bad("`if let Some((i, ch)) = <iterator>.next()` expected")
            b = {}
            ip = self.lean_pat(p0[2][0], ("tup", ["Int", "Char"]), b)
            o, f = vname(owner[1]), vname(scrut[1][2])
            return [], "match", ot, [dict(head=f"| {ip} :: iter_tail =>", body=b0, binds=b, movable=True,
                                          extra=f"let {o} := {{ {o} with {f} := iter_tail }}"),
                                     dict(head="| [] =>", body=arms_[1][1], binds={}, extra=None, movable=True)]
        st, stext, tsc = self.expr(scrut, ctx)
        alts = []
        for p, b in arms_:
            bd = {}
            alts.append(dict(head="| " + self.lean_pat(p, tsc, bd) + " =>", body=b, binds=bd, extra=None, pat=p))
        if isinstance(tsc, tuple) and tsc[0] == "res":
            alts.append(dict(head="| (.error .fuel) =>", body=[("rawline", ".error .fuel")], binds={}, extra=None))
        if isinstance(tsc, tuple) and tsc[0] == "opt" and len(alts) == 2 and alts[1]["pat"][0] == "pwild" \
                and alts[0]["pat"][0] == "pts" and alts[0]["pat"][1] == "Some":
            alts[1]["head"] = "| none =>"
        if isinstance(tsc, tuple) and tsc[0] == "opt" and len(alts) == 2 and alts[1]["head"] == "| none =>" \
                and alts[0]["pat"][0] == "pts" and alts[0]["pat"][1] == "Some" and alts[0]["pat"][2][0][0] in ("pbind", "pwild"):
            alts[0]["movable"] = alts[1]["movable"] = True
        return self.render(st, pad), "match", stext, alts

    def build(self, kind, head, alts, arms, pad, close_last):
        """lines of the `if` / `match` with the given (already translated) alternative bodies"""
        if kind == "if":
            out = [f"{pad}if {head} then ("] + arms[0]
            if close_last:
                return out + [f"{pad}) else ("] + arms[1] + [f"{pad})"]
            return out + [f"{pad}) else"] + arms[1]
        out = [f"{pad}match {head} with"]
        for i, (a, lines) in enumerate(zip(alts, arms)):
            ex = [f"{pad}    {a['extra']}"] if a["extra"] else []
            if i == len(alts) - 1 and not close_last:
                out += [f"{pad}{a['head']}"] + ex + lines
            else:
                out += [f"{pad}{a['head']} ("] + ex + lines + [f"{pad}  )"]
        return out

    def compound(self, e0, rest, ctx, ind, top=None):
        if e0[0] in ("while", "whilelet", "loop", "for"):
            return self.loop(e0, rest, ctx, ind)
        e = self.lower(e0, ctx)
        pad = " " * ind
        if e[0] == "seq":
            if set(declared(e[1])) & set(reads(rest)):
                raise Bad("a variable bound by a `match` arm would capture a later use")
            return self.stmts(e[1] + rest, ctx, ind)
        pre, kind, head, alts = self.alternatives(e, ctx, pad)
        divs = [bool(diverges(a["body"]) or (a["body"] and a["body"][-1][0] == "rawline")) for a in alts]
        live = [i for i, d in enumerate(divs) if not d]

        def arm_ctx(i, **kw):
            c = ctx.child(**kw)
            for n, t in alts[i]["binds"].items():
                c.vars[n] = t
                c.uninit.discard(n)
                c.ro.discard(n)
            return c
        if not live:
            if rest:
                raise Bad("statements after a statement that always returns")
            arms = [self.stmts(a["body"], arm_ctx(i, done=None), ind + 4) for i, a in enumerate(alts)]
            return pre + self.build(kind, head, alts, arms, pad, False)
        if len(live) == 1 and not (set(declared(alts[live[0]]["body"])) | set(alts[live[0]]["binds"])) & set(reads(rest)):
            # every other alternative leaves: the rest of the block continues inside the only live one
            j = live[0]
            movable = kind == "if" or (len(alts) == 2 and all(a.get("movable") for a in alts))
            if j != len(alts) - 1 and movable:
                order = [i for i in range(len(alts)) if i != j] + [j]
                if kind == "if":
                    head = f"(!{head})"
            elif j == len(alts) - 1:
                order = list(range(len(alts)))
            else:
                order = None
            if order is not None:
                arms = []
                for i in order:
                    if i == j:
                        arms.append(self.stmts(alts[i]["body"] + rest, arm_ctx(i), ind if kind == "if" else ind + 4))
                    else:
                        arms.append(self.stmts(alts[i]["body"], arm_ctx(i, done=None), ind + 4))
                return pre + self.build(kind, head, [alts[i] for i in order], arms, pad, False)
        # general case: the statement is a value over the variables it assigns
        W = [v for v in ctx.vars if v in self.prog.assigned(e0, self.fi)]
        for v in W:
            if v in ctx.ro:
                raise Bad(f"{v} is modified but is not mutable here")
            if v in declared(e0):
                raise Bad(f"{v} is both assigned and re-declared inside a compound statement")
        hasret = has_ok_return(e0)
        hasbrk = has_break(e0) and ctx.brk is not None
        if (hasret or hasbrk) and self.fi.kind not in ("res", "pyres"):
            raise Bad("early exit from a compound statement in a function that does not return a Result")
        flow = "FlowRB" if hasret and hasbrk else "FlowR" if hasret else "FlowB" if hasbrk else None
        wnames = [vname(v) for v in W]
        wpack = pack(None, wnames, "Unit") if W else "()"

        def done(c):
            for v in W:
                if v in c.uninit:
                    raise Bad(f"{v} is not initialised on every path")
            return self.OK(f"(.next {wpack})" if flow else wpack)

        sub = dict(done=done,
                   retp=(lambda r: f".ok (.ret {r})") if hasret else ctx.retp,
                   brk=(lambda c: f".ok (.brk {wpack})") if hasbrk else ctx.brk)
        if hasret:
            sub["ret"] = lambda c, v: f".ok (.ret {self.pack_ret(v)})"
        save = (self.used_fuel, self.used_ext)
        self.used_fuel = self.used_ext = False
        arms = [self.stmts(a["body"], arm_ctx(i, **sub), 6) for i, a in enumerate(alts)]
        uf, ue = self.used_fuel, self.used_ext
        self.used_fuel, self.used_ext = save[0] or uf, save[1] or ue
        # result type (after the branches: late types are known now)
        wtys = []
        after = ctx.child()
        for v in W:
            t = self.vt(ctx, v)
            if t == "Num":
                t = "Int"
                if isinstance(ctx.vars[v], Late):
                    ctx.vars[v].ty = "Int"
            wtys.append(lty(t))
            after.uninit.discard(v)
        wty = "Unit" if not W else (wtys[0] if len(W) == 1 else "(" + " × ".join(wtys) + ")")
        rty_ = self.ret_ty_text()
        vty = {None: wty, "FlowR": f"FlowR ({rty_}) ({wty})", "FlowB": f"FlowB ({wty})", "FlowRB": f"FlowRB ({rty_}) ({wty})"}[flow]
        body_lines = self.build(kind, head, alts, arms, "  ", True)
        text = "\n".join(body_lines)
        has_loop = top is None and re.search(r"_loop\d+ ", text) is not None
        hoist = ((top is not None and len(body_lines) > 5) or has_loop) and not pre and \
            not (self.fi.selfrec and re.search(r"\b" + re.escape(self.fi.lname) + r"\b", text))
        lines = list(pre)
        tail = self.stmts(rest, after, ind)
        if flow is None and tail == [pad + self.OK(wpack)] and ind >= 2:
            # the statement is the last one and its value is the block's value: no re-packing
            if not hoist:
                return lines + indent(body_lines, ind - 2)
        if hoist:
            rd = reads(e0)
            P = [v for v in ctx.vars if v in rd and v not in ctx.uninit]
            if top is None:
                self.ndef += 1
                top = f"s{self.ndef}"
            name = f"{self.fi.lname}_{top}"
            sig = f"def {name}" + (" (fuel : Nat)" if uf else "") + (" (ext : Ext Obj)" if ue else "") + "".join(
                f" ({vname(v)} : {lty(self.vt(ctx, v))})" for v in P) + f" : {self.M(vty)} :="
            self.defs.append(f"/-- {self.fi.key}: `{self.src_head(e0)}` … -/\n" + sig + "\n" + text + "\n")
            call = "(" + " ".join([name] + (["fuel"] if uf else []) + (["ext"] if ue else []) + [vname(v) for v in P]) + ")"
            lines.append(f"{pad}match {call} with")
        else:
            lines.append(f"{pad}match ((")
            lines += indent(body_lines, ind + 2)
            lines.append(f"{pad}    ) : {self.M(vty)}) with")
        k = self.fi.kind
        np = f"(.next {wpack})" if flow else wpack
        if k in ("res", "pyres"):
            lines.append(f"{pad}| .error e => .error e")
            if hasret:
                lines.append(f"{pad}| .ok (.ret r) => " + ctx.retp("r"))
            if hasbrk:
                lines.append(f"{pad}| .ok (.brk {wpack}) => " + ctx.brk(after))
            lines.append(f"{pad}| .ok {np} =>")
        elif k == "opt":
            lines += [f"{pad}| none => none", f"{pad}| some {np} =>"]
        else:
            lines.append(f"{pad}| {np} =>")
        return self.peep(lines + tail)

    def src_head(self, e):
        from tools.isors_prog import walk
        words = []

        def see(n):
            if len(words) < 12:
                if n[0] in ("path", "mcall", "field"):
                    words.append(n[1] if n[0] == "path" else n[2])
                elif n[0] == "char":
                    words.append(repr(n[1]))
        walk(e[1] if e[0] in ("if", "while", "match") else e, see)
        return (e[0] + " " + " ".join(str(w) for w in words))[:90].replace("-/", "- /")

    def ret_ty_text(self):
        from tools.isors_prog import pack_ty
        fi = self.fi
        mt = [t for (pn, t, _m) in fi.params if pn in fi.muts]
        return lty(pack_ty(fi.T, mt))

    def pack_ret(self, v):
        fi = self.fi
        return pack(v, [vname(m) for m in fi.muts], fi.T)

    # ------------------------------------------------------------------ loops
    def loop(self, e, rest, ctx, ind):
        pad = " " * ind
        fi = self.fi
        kind = e[0]
        body = e[-1]
        W = [v for v in ctx.vars if v in self.prog.assigned(e, fi) and v not in ctx.uninit]
        for v in W:
            if v in ctx.ro:
                raise Bad(f"{v} is modified in a loop but is not mutable here")
        rd = reads(e)
        R = [v for v in ctx.vars if v in rd and v not in W and v not in ctx.uninit]
        hasret = has_ok_return(body)
        if kind != "for" and fi.kind != "res":
            raise Bad("`while`/`loop` in a function that does not return a parser Result")
        if hasret and fi.kind != "res":
            raise Bad("`return` of a value inside a loop of a function that does not return a Result")
        self.ndef_loop = getattr(self, "ndef_loop", 0) + 1
        name = f"{fi.lname}_loop{self.ndef_loop}"
        # the compound statements at the top level of a loop body become definitions `<loop>_top<index in the body>`
        body = [(s[0], s[1], f"loop{self.ndef_loop}_top{i}") if s[0] in ("expr", "tail") and s[1][0] in BLOCKLIKE else s
                for i, s in enumerate(body)]
        wn, rn = [vname(v) for v in W], [vname(v) for v in R]
        wpack = pack(None, wn, "Unit") if W else "()"
        wty = "Unit" if not W else (lty(self.vt(ctx, W[0])) if len(W) == 1 else "(" + " × ".join(lty(self.vt(ctx, v)) for v in W) + ")")
        vty = f"FlowR ({self.ret_ty_text()}) ({wty})" if hasret else wty
        exit_ = self.OK(f"(.next {wpack})" if hasret else wpack)
        save = (self.used_fuel, self.used_ext)
        self.used_fuel = self.used_ext = False
        bctx = ctx.child(brk=lambda c: exit_, retp=(lambda r: f".ok (.ret {r})") if hasret else ctx.retp)
        if hasret:
            bctx.ret = lambda c, v: f".ok (.ret {self.pack_ret(v)})"
        for v in R:
            bctx.ro.add(v)
        args = " ".join(rn + wn)
        lines_def = []
        if kind in ("while", "loop", "whilelet"):
            self.used_fuel = True
            bctx.done = lambda c: (f"{name} fuel" + "{EXTA}" + f" n {args}").rstrip()
            head = f"def {name} (fuel : Nat)" + ("{EXT}") + " : Nat" + "".join(
                f" → ({vname(v)} : {lty(self.vt(ctx, v))})" for v in R + W) + f" → {self.M(vty)}"
            pats = ", ".join(rn + wn)
            lines_def.append(f"  | 0{', ' + pats if pats else ''} => .error .fuel")
            lines_def.append(f"  | n+1{', ' + pats if pats else ''} =>")
            if kind == "while":
                st, c, tc = self.expr(e[1], bctx)
                if tc != "Bool":
                    raise Bad("loop condition is not boolean")
                lines_def += self.render(st, "    ")
                # the condition may have rebound loop variables (e.g. `self.inc()` in the condition)
                lines_def.append(f"    if {c} then (")
                lines_def += self.stmts(body, bctx, 6)
                lines_def.append(f"    ) else {exit_}")
            elif kind == "whilelet":
                p = e[1]
                if p[0] != "pts" or p[1] != "Some" or len(p[2]) != 1 or p[2][0][0] != "pbind":
                    raise Bad("`while let` pattern outside the subset")
                st, tm, t = self.expr(e[2], bctx)
                if not (isinstance(t, tuple) and t[0] == "opt"):
                    raise Bad("`while let Some(..)` on a non-Option")
                lines_def += self.render(st, "    ")
                lines_def += [f"    match {tm} with", f"    | none => {exit_}", f"    | some {vname(p[2][0][1])} =>"]
                b2 = bctx.child()
                b2.vars[p[2][0][1]] = t[1]
                lines_def += self.stmts(body, b2, 4)
            else:
                lines_def += self.stmts(body, bctx, 4)
            call = f"({name} fuel" + "{EXTA}" + f" fuel {args}".rstrip() + ")"
        else:
            p, it = e[1], e[2]
            if p[0] != "pbind":
                raise Bad("`for` pattern outside the subset")
            x = vname(p[1])
            while it[0] == "paren":
                it = it[1]
            if it[0] == "range" and not it[3]:
                lo, tl = self.pure(it[1], ctx, "Int")
                hi, th = self.pure(it[2], ctx, "Int")
                if tl not in ("Int", "Num") or th not in ("Int", "Num"):
                    raise Bad("`for` over a range of non-integers")
                b2 = bctx.child()
                b2.vars[p[1]] = "Int"
                b2.ro.add(p[1])
                b2.done = lambda c: f"{name}" + "{FUELA}{EXTA}" + f" n ({x} + 1) {args}".rstrip()
                head = f"def {name}" + "{FUEL}{EXT}" + f" : Nat → ({x} : Int)" + "".join(
                    f" → ({vname(v)} : {lty(self.vt(ctx, v))})" for v in R + W) + f" → {self.M(vty)}"
                pats = ", ".join([x] + rn + wn)
                lines_def.append(f"  | 0, {pats} => {exit_}")
                lines_def.append(f"  | n+1, {pats} =>")
                lines_def += self.stmts(body, b2, 4)
                call = f"({name}" + "{FUELA}{EXTA}" + f" (Int.toNat ({hi} - {lo})) {lo} {args}".rstrip() + ")"
            else:
                rev = False
                if it[0] == "mcall" and it[2] == "rev" and not it[3]:
                    rev, it = True, it[1]
                if it[0] == "mcall" and it[2] == "iter" and not it[3]:
                    it = it[1]
                xs, tx = self.pure(it, ctx)
                if tx != "Bytes":
                    raise Bad(f"`for` over a value of type {tx}")
                b2 = bctx.child()
                b2.vars[p[1]] = "Int"
                b2.ro.add(p[1])
                b2.done = lambda c: f"{name}" + "{FUELA}{EXTA}" + f" iter_tail {args}".rstrip()
                head = f"def {name}" + "{FUEL}{EXT}" + " : List Int" + "".join(
                    f" → ({vname(v)} : {lty(self.vt(ctx, v))})" for v in R + W) + f" → {self.M(vty)}"
                pats = ", ".join(rn + wn)
                lines_def.append(f"  | []{', ' + pats if pats else ''} => {exit_}")
                lines_def.append(f"  | {x} :: iter_tail{', ' + pats if pats else ''} =>")
                lines_def += self.stmts(body, b2, 4)
                call = f"({name}" + "{FUELA}{EXTA}" + f" ({'List.reverse ' if rev else ''}{xs}) {args}".rstrip() + ")"
        uf, ue = self.used_fuel, self.used_ext
        self.used_fuel, self.used_ext = save[0] or uf, save[1] or ue
        subst = {"{FUEL}": " (fuel : Nat)" if uf else "", "{FUELA}": " fuel" if uf else "",
                 "{EXT}": " (ext : Ext Obj)" if ue else "", "{EXTA}": " ext" if ue else ""}

        def sub(s):
            for a, b in subst.items():
                s = s.replace(a, b)
            return s
        text = "\n".join(sub(l) for l in [head] + lines_def)
        self.defs.append(f"/-- {fi.key}: loop `{self.src_head(e)}` … -/\n" + text + "\n")
        call = sub(call)
        after = ctx.child()
        lines = []
        np = f"(.next {wpack})" if hasret else wpack
        if fi.kind in ("res", "pyres"):
            lines += [f"{pad}match {call} with", f"{pad}| .error e => .error e"]
            if hasret:
                lines.append(f"{pad}| .ok (.ret r) => " + ctx.retp("r"))
            lines.append(f"{pad}| .ok {np} =>")
        elif fi.kind == "opt":
            lines += [f"{pad}match {call} with", f"{pad}| none => none", f"{pad}| some {np} =>"]
        else:
            lines += [f"{pad}match {call} with", f"{pad}| {np} =>"]
        return lines + self.stmts(rest, after, ind)
