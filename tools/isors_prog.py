"""Program-level analysis for tools/gen_isors.py: Rust types -> Lean types, function kinds, mutated `&mut` parameters,
fuel need, call graph.  See gen_isors.py for the description of the translation."""
from __future__ import annotations

from tools.rust_front import Bad, parse_expr_tokens

LEAN_KW = {"at", "end", "from", "fun", "then", "else", "if", "let", "have", "show", "do", "in", "by", "with", "match",
           "def", "theorem", "open", "section", "namespace", "instance", "structure", "where", "for", "return", "mut",
           "Type", "Prop", "Sort", "import", "variable", "local", "using", "calc", "obtain", "fuel", "depth", "n", "ext",
           "e", "prefix", "infix", "notation", "deriving", "class", "extends", "private", "protected", "partial"}
INT_TYPES = {"i8", "i16", "i32", "i64", "i128", "isize", "u8", "u16", "u32", "u128", "usize"}


def vname(n):
    return n + "_" if n in LEAN_KW else n


def rty(t, owner=None):
    """Rust type AST -> ty"""
    k = t[0]
    if k == "ref":
        inner = t[3]
        if inner == ("path", "str", []):
            return "Text" if t[1] else "String"
        if inner[0] == "slice":
            if inner[1] == ("path", "u8", []):
                return "Bytes"
            raise Bad(f"slice type {inner}")
        return rty(inner, owner)
    if k == "tuple":
        if not t[1]:
            return "Unit"
        return ("tup", [rty(x, owner) for x in t[1]])
    if k == "path":
        name, args = t[1].split("::")[-1], t[2]
        if name == "u64":
            return "Nat"
        if name in INT_TYPES:
            return "Int"
        if name == "bool":
            return "Bool"
        if name == "char":
            return "Char"
        if name == "String":
            return "String"
        if name == "Self":
            return ("struct", owner)
        if name == "Option":
            return ("opt", rty(args[0], owner))
        if name == "Result" and len(args) < 2:
            return "String"
        if name == "Result":
            return ("res", rty(args[0], owner)) if args[1][1].endswith("ParseError") else ("pyres", rty(args[0], owner))
        if name == "PyResult":
            return ("pyres", rty(args[0], owner))
        if name == "CharIndices":
            return "CharIndices"
        if name in ("PyObject", "Bound", "Py"):
            return "Obj"
        if name == "Python":
            return "Py"
        if name[:1].isupper():
            return ("struct", name)
    raise Bad(f"type not supported: {t}")


def lty(t):
    if isinstance(t, str):
        return {"Text": "List Char", "Bytes": "List Int", "CharIndices": "List (Int × Char)", "Num": "Int"}.get(t, t)
    if t[0] == "opt":
        return f"Option ({lty(t[1])})"
    if t[0] == "tup":
        return "(" + " × ".join(lty(x) for x in t[1]) + ")"
    if t[0] == "struct":
        return t[1]
    if t[0] == "res":
        return f"Except (Err ParseError) ({lty(t[1])})"
    if t[0] == "pyres":
        return f"Except PyErr ({lty(t[1])})"
    if t[0] == "list":
        return f"List ({lty(t[1])})"
    raise Bad(f"no Lean type for {t}")


def pack_ty(T, mut_tys):
    comps = ([] if (T == "Unit" and mut_tys) else [T]) + list(mut_tys)
    if len(comps) == 1:
        return comps[0]
    return ("tup", comps)


def pack(val, muts, T):
    comps = ([] if (T == "Unit" and muts) else [val if val is not None else "()"]) + list(muts)
    if len(comps) == 1:
        return comps[0]
    return "(" + ", ".join(comps) + ")"


def walk(node, f):
    """pre-order walk over AST tuples/lists; `f(node)` may return False to prune"""
    if isinstance(node, tuple):
        if node and isinstance(node[0], str):
            if f(node) is False:
                return
        for x in node[1:] if node and isinstance(node[0], str) else node:
            walk(x, f)
    elif isinstance(node, list):
        for x in node:
            walk(x, f)


def root(e):
    while e[0] in ("field", "index", "paren"):
        e = e[1]
    if e[0] == "ref":
        return root(e[2])
    return e[1] if e[0] == "path" else None


def fmt_names(s):
    import re
    return re.findall(r"\{([A-Za-z_][A-Za-z0-9_]*)(?::[^}]*)?\}", s.replace("{{", "").replace("}}", ""))


def macro_exprs(node):
    """argument expressions of a format!/write!/matches! macro node (+ inline captures)"""
    name, args = node[1], node[2]
    out = []
    if name in ("format", "write"):
        k = 1 if name == "format" else 2
        fs = args[k - 1]
        if len(fs) == 1 and fs[0][0] == "str":
            out += [("path", n) for n in fmt_names(fs[0][1])]
        out += [parse_expr_tokens(a) for a in args[k:]]
    elif name == "matches":
        out.append(parse_expr_tokens(args[0]))
    return out


class FnInfo:
    pass


class Prog:
    def __init__(self):
        self.structs, self.consts, self.fns, self.by_method, self.order = {}, {}, {}, {}, []

    def add_file(self, parsed, group):
        for n, (fields, attrs) in parsed["structs"].items():
            self.structs[n] = dict(fields=fields, attrs=attrs, group=group)
        for n, v in parsed["consts"].items():
            self.consts[n] = v
        for key in parsed["order"]:
            f = parsed["fns"][key]
            fi = FnInfo()
            fi.key, fi.src, fi.group = key, f, group
            fi.name, fi.owner, fi.body = f.name, f.owner, f.body
            fi.lname = (f"{f.owner}." if f.owner else "") + vname(f.name)
            if key == "ParseError::Display::fmt":
                fi.lname = "ParseError.to_string"
            self.fns[key] = fi
            self.order.append(key)
            self.by_method.setdefault(f.name, []).append(fi)

    def method(self, name):
        c = [f for f in self.by_method.get(name, []) if f.owner]
        return c[0] if len(c) == 1 else None

    def resolve_call(self, path):
        """a call `a::b(...)` / `b(...)` to a translated function"""
        if path in self.fns:
            return self.fns[path]
        if path.startswith("Self::"):
            return None
        return None

    def analyse(self, want):
        """signature-level facts for the functions in `want` (keys)"""
        for key in want:
            fi = self.fns[key]
            f = fi.src
            fi.params = []
            for (pn, pt, _a) in f.params:
                if pt == ("path", "Python", []):
                    continue
                mode = "mut" if (pt[0] == "ref" and pt[2]) else ("ref" if pt[0] == "ref" else "val")
                fi.params.append((pn, rty(pt, f.owner), mode))
            r = rty(f.ret, f.owner)
            has_try = []
            walk(fi.body, lambda n: has_try.append(1) if n[0] == "try" else None)
            if isinstance(r, tuple) and r[0] == "res":
                fi.kind, fi.T = "res", r[1]
            elif isinstance(r, tuple) and r[0] == "pyres":
                fi.kind, fi.T = "pyres", r[1]
            elif isinstance(r, tuple) and r[0] == "opt" and has_try:
                fi.kind, fi.T = "opt", r[1]
            else:
                fi.kind, fi.T = "pure", r
            fi.muts, fi.fuel, fi.selfrec, fi.calls = [], False, False, set()
        # calls
        for key in want:
            fi = self.fns[key]

            def see(n, fi=fi):
                if n[0] == "mcall":
                    g = self.method(n[2])
                    if g is not None and g.key in want:
                        fi.calls.add(g.key)
                elif n[0] == "call" and n[1][0] == "path":
                    p = n[1][1]
                    for cand in (p, p.replace("Self::", (fi.owner or "") + "::")):
                        if cand in self.fns and cand in want:
                            fi.calls.add(cand)
                elif n[0] == "macro":
                    for e in macro_exprs(n):
                        walk(e, see)
            walk(fi.body, see)
            fi.selfrec = key in fi.calls
        # mutated &mut parameters, fuel: fixpoints
        changed = True
        while changed:
            changed = False
            for key in want:
                fi = self.fns[key]
                for (pn, _t, mode) in fi.params:
                    if mode == "mut" and pn not in fi.muts and pn in self.assigned(fi.body, fi, want):
                        fi.muts.append(pn)
                        changed = True
                loops = []
                walk(fi.body, lambda n: loops.append(1) if n[0] in ("while", "whilelet", "loop") else None)
                fuel = bool(loops) or fi.selfrec or any(self.fns[c].fuel for c in fi.calls)
                if fuel != fi.fuel:
                    fi.fuel = fuel
                    changed = True
        for key in want:
            fi = self.fns[key]
            fi.muts = [pn for (pn, _t, mode) in fi.params if pn in fi.muts]

    def assigned(self, node, fi, want=None):
        """root variables (possibly) modified by the statements/expressions in `node`"""
        out = []

        def add(r):
            if r is not None and r not in out:
                out.append(r)

        def see(n):
            if n[0] == "assign":
                add(root(n[1]))
            elif n[0] == "mcall":
                g = self.method(n[2])
                if g is not None and (want is None or g.key in want) and hasattr(g, "muts"):
                    if "self" in g.muts:
                        add(root(n[1]))
                    self._args(n[3], g, fi, add, skip_self=True)
                elif n[2] == "next" and n[1][0] == "field":
                    add(root(n[1]))
            elif n[0] == "call" and n[1][0] == "path":
                for cand in (n[1][1], n[1][1].replace("Self::", (fi.owner or "") + "::")):
                    g = self.fns.get(cand)
                    if g is not None and hasattr(g, "muts"):
                        self._args(n[2], g, fi, add, skip_self=False)
            elif n[0] == "macro":
                for e in macro_exprs(n):
                    walk(e, see)
        walk(node, see)
        return out

    def _args(self, args, g, fi, add, skip_self):
        ps = [p for p in g.params if not (skip_self and p[0] == "self")]
        for a, p in zip(args, ps):
            if p[0] in g.muts:
                if a[0] == "ref" and a[1]:
                    add(root(a[2]))
                elif a[0] == "path":
                    add(a[1])


def reads(node):
    out = []

    def see(n):
        if n[0] == "path":
            r = n[1]
            if r not in out:
                out.append(r)
        elif n[0] == "macro":
            for e in macro_exprs(n):
                walk(e, see)
            if n[1] == "matches":
                pass
    walk(node, see)
    return out


def declared(node):
    out = []

    def see(n):
        if n[0] == "pbind" and n[1] not in out:
            out.append(n[1])
        if n[0] == "closure":
            for x in n[1]:
                if x not in out:
                    out.append(x)
    walk(node, see)
    return out


def contains(node, pred):
    hit = []
    walk(node, lambda n: hit.append(1) if pred(n) else None)
    return bool(hit)


def is_err_value(e):
    return e is not None and e[0] == "call" and e[1] == ("path", "Err")


def has_ok_return(node):
    """a `return` of something that is not `Err(..)` (crosses the boundary of a compound statement)"""
    return contains(node, lambda n: n[0] == "return" and not is_err_value(n[1]))


def has_break(node):
    """a `break` not enclosed in an inner loop"""
    hit = []

    def see(n):
        if n[0] in ("while", "whilelet", "loop", "for"):
            return False
        if n[0] == "break":
            hit.append(1)
    walk(node, see)
    return bool(hit)


def diverges(block):
    if not block:
        return False
    s = block[-1]
    if s[0] in ("return", "break"):
        return True
    if s[0] in ("expr", "tail"):
        e = s[1]
        if e[0] == "if":
            return e[3] is not None and diverges(e[2]) and diverges(e[3])
        if e[0] == "iflet":
            return e[4] is not None and diverges(e[3]) and diverges(e[4])
        if e[0] == "match":
            return all(diverges(b) for _, b in e[2])
        if s[0] == "tail" and e[0] == "call" and e[1] == ("path", "Err"):
            return True
    return False
