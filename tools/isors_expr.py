"""Expression translation for tools/gen_isors.py (Rust expression AST -> Lean term + binding steps)."""
from __future__ import annotations

import re

from tools.rust_front import Bad, parse_expr_tokens, parse_pat_tokens
from tools.isors_prog import lty, pack, pack_ty, root, vname, walk

HELPERS = {"is_leap": ("Rs.is_leap", "Bool"), "is_long_year": ("Rs.is_long_year", "Bool"),
           "days_in_year": ("Rs.days_in_year", "Int"), "week_day": ("Rs.week_day", "Int")}
# external (PyO3) constructors: name -> (argument types after `py`, result)
EXT = {
    "PyDateTime::new_bound": (["Int"] * 7 + [("opt", ("struct", "FixedTimezone"))], ("pyres", "Obj")),
    "PyDate::new_bound": (["Int"] * 3, ("pyres", "Obj")),
    "PyTime::new_bound": (["Int"] * 4 + [("opt", ("struct", "FixedTimezone"))], ("pyres", "Obj")),
    "PyDelta::new_bound": (["Int", "Int", "Int", "Bool"], ("pyres", "Obj")),
}


def lean_str(s):
    out = ['"']
    for c in s:
        if c == "\\":
            out.append("\\\\")
        elif c == '"':
            out.append('\\"')
        elif c == "\n":
            out.append("\\n")
        elif ord(c) < 32:
            out.append("\\x%02x" % ord(c))
        else:
            out.append(c)
    return "".join(out) + '"'


def lean_char(c):
    if c == "'":
        return "'\\''"
    if c == "\\":
        return "'\\\\'"
    if ord(c) < 32 or ord(c) == 127:
        return "'\\x%02x'" % ord(c)
    return f"'{c}'"


def num_ty(a, b):
    """common type of two numeric operands"""
    if a == "Num":
        return b
    if b == "Num":
        return a
    return a if a == b else None


class ExprTr:
    """expression translation; `self.prog`, `self.fi` (current function), `self.fresh()` come from the subclass"""

    # ------------------------------------------------------------------ monad of the current function
    def OK(self, v):
        return {"res": f".ok {v}", "pyres": f".ok {v}", "opt": f"some {v}", "pure": v}[self.fi.kind]

    def FAIL(self, x):
        if self.fi.kind in ("res", "pyres"):
            return f".error (.fail {x})"
        raise Bad("an error is raised in a function that does not return a Result")

    def M(self, t):
        if self.fi.kind == "res":
            return f"Except (Err ParseError) ({t})"
        if self.fi.kind == "pyres":
            return f"Except (Err PyErr) ({t})"
        if self.fi.kind == "opt":
            return f"Option ({t})"
        return t

    # ------------------------------------------------------------------ entry points
    def expr(self, e, ctx, want=None, bindpat=None):
        """-> (steps, term, ty); calls with effects are bound in `steps` (in evaluation order)"""
        st, tm, ty = self.raw(e, ctx, want, bindpat)
        if isinstance(ty, tuple) and ty[0] == "pcall":
            return self.force(st, tm, ty[1], ctx, bindpat=bindpat)
        if isinstance(ty, tuple) and ty[0] in ("optelse", "pywrap"):
            if ty[0] == "pywrap":
                return st, tm, ty[1]
            raise Bad("`ok_or_else` without `?`")
        return st, tm, ty

    def pure(self, e, ctx, want=None):
        st, tm, ty = self.expr(e, ctx, want)
        if st:
            raise Bad("expression with effects in a position that must be pure: " + str(e)[:120])
        return tm, ty

    def force(self, st, tm, pc, ctx, tried=False, orelse=None, bindpat=None):
        kind, T, rebinds = pc["kind"], pc["T"], pc["rebinds"]
        st = list(st)
        names = [r if r is not None else "_" for r in rebinds]
        if kind == "pure":
            if not rebinds:
                return st, tm, T
            if all(r is None for r in rebinds):
                t = self.fresh()
                st.append(("let", t, None, tm))
                return st, (f"{t}.1" if T != "Unit" else "()"), T
            t = self.fresh()
            st.append(("let", t, None, tm))
            n = (0 if T == "Unit" else 1) + len(rebinds)

            def proj(k):
                return t if n == 1 else t + ".2" * k + (".1" if k < n - 1 else "")
            off = 0 if T == "Unit" else 1
            for k, r in enumerate(rebinds):
                if r is not None:
                    st.append(("let", r, None, proj(k + off)))
            return st, (proj(0) if T != "Unit" else "()"), T
        vp = None
        if T != "Unit" or not rebinds:
            vp = bindpat if bindpat is not None else self.fresh()
        pat = pack(vp, names, T) if rebinds else (vp if vp is not None else "()")
        if T == "Unit" and not rebinds:
            pat = "()"
        if kind == "res":
            if not tried:
                raise Bad("a Result-returning call is used without `?`")
            if self.fi.kind != "res":
                raise Bad("`?` on a parser Result outside a parser function")
            st.append(("bind", "res", pat, tm, None))
        elif kind == "pyres":
            if not tried:
                raise Bad("a PyResult-returning call is used without `?`")
            st.append(("bind", "pyres", pat, tm, None))
        elif kind == "opt":
            if orelse is not None:
                st.append(("bind", "opt", pat, tm, orelse))
            elif tried and self.fi.kind == "opt":
                st.append(("bind", "opt", pat, tm, "none"))
            else:
                raise Bad("an Option-returning call with side effects is used without `?` / `ok_or_else(..)?`")
        return st, (vp if (T != "Unit" and vp is not None) else "()"), T

    # ------------------------------------------------------------------ raw translation
    def raw(self, e, ctx, want=None, bindpat=None):
        k = e[0]
        if k == "paren":
            st, tm, ty = self.raw(e[1], ctx, want, bindpat)
            return st, tm, ty
        if k == "num":
            ty = want if want in ("Nat", "Int") else "Num"
            return [], (str(e[1]) if e[1] >= 0 else f"({e[1]})"), ty
        if k == "char":
            return [], lean_char(e[1]), "Char"
        if k == "byte":
            return [], str(e[1]), "Int"
        if k == "str":
            return [], lean_str(e[1]), "String"
        if k == "path":
            return self.path(e[1], ctx, want)
        if k == "field":
            st, b, t = self.expr(e[1], ctx)
            if not (isinstance(t, tuple) and t[0] == "struct"):
                raise Bad(f"field access .{e[2]} on a value of type {t}")
            for (fn, ft, _a) in self.prog.structs[t[1]]["fields"]:
                if fn == e[2]:
                    from tools.isors_prog import rty
                    return st, f"{b}.{vname(fn)}", rty(ft, t[1])
            raise Bad(f"struct {t[1]} has no field {e[2]}")
        if k == "un":
            st, v, t = self.expr(e[2], ctx, want if e[1] == "-" else None)
            if e[1] == "-" and t in ("Int", "Num"):
                return st, f"(-{v})", "Int"
            if e[1] == "!" and t == "Bool":
                return st, f"(!{v})", "Bool"
            raise Bad(f"unary {e[1]} on {t}")
        if k == "bin":
            return self.bin(e, ctx, want)
        if k == "cast":
            from tools.isors_prog import rty
            st, v, t = self.expr(e[1], ctx)
            to = rty(e[2])
            if t == "Num":
                return st, v, to
            if t == to:
                return st, v, to
            if t == "Nat" and to == "Int":
                return st, f"(({v} : Nat) : Int)", "Int"
            if t == "Int" and to == "Nat":
                return st, f"(Int.toNat {v})", "Nat"
            raise Bad(f"cast from {t} to {to}")
        if k == "try":
            st, tm, ty = self.raw(e[1], ctx, None, bindpat)
            if isinstance(ty, tuple) and ty[0] == "pcall":
                return self.force(st, tm, ty[1], ctx, tried=True, orelse=ty[1].get("orelse"), bindpat=bindpat)
            if isinstance(ty, tuple) and ty[0] == "optelse":
                v = bindpat or self.fresh()
                return st + [("bind", "opt", v, tm, ty[2])], v, ty[1]
            if isinstance(ty, tuple) and ty[0] == "opt" and self.fi.kind == "opt":
                v = bindpat or self.fresh()
                return st + [("bind", "opt", v, tm, "none")], v, ty[1]
            if isinstance(ty, tuple) and ty[0] == "pyres":
                v = bindpat or self.fresh()
                return st + [("bind", "pyres", v, tm, None)], v, ty[1]
            if isinstance(ty, tuple) and ty[0] == "pywrap":
                return st, tm, ty
            raise Bad(f"`?` on a value of type {ty}")
        if k == "tuple":
            if not e[1]:
                return [], "()", "Unit"
            parts = [self.expr(x, ctx) for x in e[1]]
            self.order_check(parts)
            return sum((p[0] for p in parts), []), "(" + ", ".join(p[1] for p in parts) + ")", ("tup", [p[2] for p in parts])
        if k == "struct":
            return self.struct(e, ctx)
        if k == "ref":
            return self.raw(e[2], ctx, want)
        if k == "macro":
            return self.macro(e, ctx)
        if k == "if":
            c, ct = self.pure(e[1], ctx)
            if ct != "Bool" or e[3] is None or len(e[2]) != 1 or len(e[3]) != 1 or e[2][0][0] != "tail" or e[3][0][0] != "tail":
                raise Bad("an `if` used as a value must have the form `if c { e1 } else { e2 }`")
            a, ta = self.pure(e[2][0][1], ctx, want)
            b, tb = self.pure(e[3][0][1], ctx, want)
            t = num_ty(ta, tb) if (ta in ("Num", "Nat", "Int") and tb in ("Num", "Nat", "Int")) else (ta if ta == tb else None)
            if t is None:
                raise Bad(f"branches of an `if` value have types {ta} and {tb}")
            return [], f"(if {c} then {a} else {b})", t
        if k == "index":
            return self.index(e, ctx)
        if k == "call":
            return self.call(e, ctx, want)
        if k == "mcall":
            return self.mcall(e, ctx, want)
        raise Bad("expression outside the subset: " + str(e)[:140])

    def order_check(self, parts):
        """evaluation order: an earlier operand must not read a variable that a later operand's call rebinds"""
        for i, p in enumerate(parts):
            later = set()
            for q in parts[i + 1:]:
                for s in q[0]:
                    later |= set(re.findall(r"[A-Za-z_][A-Za-z0-9_]*", s[2] if s[0] == "bind" else s[1]))
            for v in later:
                if re.search(r"(?<![A-Za-z0-9_.])" + re.escape(v) + r"(?![A-Za-z0-9_])", p[1]):
                    if not v.startswith("t_") and v not in ("_",):
                        raise Bad(f"operand `{p[1]}` is evaluated before a call that modifies `{v}`")

    def path(self, name, ctx, want):
        if name in ctx.vars:
            if name in ctx.uninit:
                raise Bad(f"{name} is read before it is initialised")
            return [], vname(name), ctx.vars[name]
        if name in ("true", "false"):
            return [], name, "Bool"
        if name == "None":
            inner = want[1] if isinstance(want, tuple) and want[0] == "opt" else None
            return [], "none", ("opt", inner)
        if name in self.prog.consts:
            from tools.isors_prog import rty
            return [], name, rty(self.prog.consts[name][0])
        raise Bad("unknown name " + name)

    def bin(self, e, ctx, want):
        o = e[1]
        pa = self.expr(e[2], ctx, want if o in "+-*/%" else None)
        pb = self.expr(e[3], ctx, pa[2] if pa[2] in ("Nat", "Int") else (want if o in "+-*/%" else None))
        if pa[2] == "Num" and pb[2] in ("Nat", "Int"):
            pa = self.expr(e[2], ctx, pb[2])
        if o in ("&&", "||") and pb[0]:
            raise Bad("a call with side effects on the right of a short-circuit operator")
        self.order_check([pa, pb])
        st = pa[0] + pb[0]
        (a, ta), (b, tb) = (pa[1], pa[2]), (pb[1], pb[2])
        if o in ("&&", "||"):
            if ta == tb == "Bool":
                return st, f"({a} {o} {b})", "Bool"
            raise Bad(f"{o} on {ta}, {tb}")
        if o in ("+", "-", "*", "/", "%"):
            t = num_ty(ta, tb)
            if t not in ("Nat", "Int", "Num"):
                raise Bad(f"arithmetic {o} on operands of types {ta} and {tb}")
            if o in ("+", "-", "*"):
                return st, f"({a} {o} {b})", t
            if t == "Nat":
                return st, f"({a} {o} {b})", "Nat"
            return st, f"(Int.{'tdiv' if o == '/' else 'tmod'} {a} {b})", "Int"
        lo = {"==": "==", "!=": "!=", "<": "<", "<=": "≤", ">": ">", ">=": "≥"}[o]
        ok = (num_ty(ta, tb) is not None and {ta, tb} <= {"Nat", "Int", "Num"}) or (ta == tb and ta in ("Char", "Bool", "String"))
        if not ok:
            raise Bad(f"comparison {o} of {ta} and {tb}")
        if ta == tb == "Num":
            a = f"({a} : Int)"
        if o in ("==", "!="):
            return st, f"({a} {lo} {b})", "Bool"
        if ta not in ("Nat", "Int", "Num"):
            raise Bad(f"order comparison on {ta}")
        return st, f"(decide ({a} {lo} {b}))", "Bool"

    def struct(self, e, ctx):
        name = e[1].split("::")[-1]
        if name == "Self":
            name = self.fi.owner
        if name not in self.prog.structs:
            raise Bad("unknown struct " + name)
        from tools.isors_prog import rty
        ftys = {fn: rty(ft, name) for (fn, ft, _a) in self.prog.structs[name]["fields"]}
        if sorted(f for f, _ in e[2]) != sorted(ftys):
            raise Bad(f"struct literal {name} does not list exactly the fields of the struct")
        st, fs = [], []
        parts = []
        for f, v in e[2]:
            p = self.expr(v, ctx, ftys[f])
            if not self.compat(p[2], ftys[f]):
                raise Bad(f"field {name}.{f} : {ftys[f]} initialised with a value of type {p[2]}")
            parts.append(p)
            st += p[0]
            fs.append(f"{vname(f)} := {p[1]}")
        self.order_check(parts)
        return st, "({ " + ", ".join(fs) + " } : " + name + ")", ("struct", name)

    def compat(self, have, want):
        if have == want:
            return True
        if have == "Num" and want in ("Nat", "Int"):
            return True
        if isinstance(have, tuple) and isinstance(want, tuple) and have[0] == want[0] == "opt":
            return have[1] is None or self.compat(have[1], want[1])
        if isinstance(have, tuple) and isinstance(want, tuple) and have[0] == want[0] == "tup" and len(have[1]) == len(want[1]):
            return all(self.compat(a, b) for a, b in zip(have[1], want[1]))
        return False

    def format(self, args, ctx):
        if not args or len(args[0]) != 1 or args[0][0][0] != "str":
            raise Bad("format string is not a literal")
        fs = args[0][0][1]
        rest = [parse_expr_tokens(a) for a in args[1:]]
        pieces, i, k = [], 0, 0
        lit = ""
        while i < len(fs):
            if fs.startswith("{{", i) or fs.startswith("}}", i):
                lit += fs[i]
                i += 2
            elif fs[i] == "{":
                j = fs.index("}", i)
                spec = fs[i + 1:j]
                if ":" in spec:
                    raise Bad("format specification {" + spec + "}")
                if lit:
                    pieces.append(lean_str(lit))
                    lit = ""
                if spec == "":
                    if k >= len(rest):
                        raise Bad("format string has more placeholders than arguments")
                    v, t = self.pure(rest[k], ctx)
                    k += 1
                else:
                    v, t = self.pure(("path", spec), ctx)
                if t not in ("Int", "Nat", "Char", "String", "Num"):
                    raise Bad(f"cannot format a value of type {t}")
                pieces.append(v if t == "String" else f"toString {v}")
                i = j + 1
            else:
                lit += fs[i]
                i += 1
        if lit:
            pieces.append(lean_str(lit))
        if k != len(rest):
            raise Bad("format string has fewer placeholders than arguments")
        if not pieces:
            return '""'
        return "(" + " ++ ".join(pieces) + ")"

    def lit_cond(self, scrut_term, pat):
        """Bool term: the (pure) scrutinee matches a literal / or-pattern"""
        if pat[0] == "por":
            return "(" + " || ".join(self.lit_cond(scrut_term, p) for p in pat[1]) + ")"
        if pat[0] == "plit":
            lit = pat[1]
            v = lean_char(lit[1]) if lit[0] == "char" else str(lit[1])
            return f"({scrut_term} == {v})"
        raise Bad("pattern is not a literal: " + str(pat))

    def macro(self, e, ctx):
        name, args = e[1], e[2]
        if name == "format":
            return [], self.format(args, ctx), "String"
        if name == "write":
            return [], self.format(args[1:], ctx), "String"
        if name == "matches":
            v, t = self.pure(parse_expr_tokens(args[0]), ctx)
            if len(args) != 2:
                raise Bad("matches! with a guard")
            return [], self.lit_cond(v, parse_pat_tokens(args[1])), "Bool"
        raise Bad(f"macro {name}!")

    def index(self, e, ctx):
        base, ix = e[1], e[2]
        if base[0] == "index" and base[1][0] == "path" and base[1][1] in ("MONTHS_OFFSETS", "DAYS_PER_MONTHS"):
            name = base[1][1]
            sel, ts = self.pure(base[2], ctx)
            i, ti = self.pure(ix, ctx)
            if ts != "Int" or ti not in ("Int", "Num"):
                raise Bad(f"table index of types {ts}, {ti}")
            return [], f"(if {sel} == 0 then Gen.rs_{name}_0 {i} else if {sel} == 1 then Gen.rs_{name}_1 {i} else 0)", "Int"
        if ix[0] == "range" and not ix[3]:
            st, b, tb = self.expr(base, ctx)
            lo, tl = self.pure(ix[1], ctx)
            hi, th = self.pure(ix[2], ctx)
            if tb != "Bytes" or tl != "Int" or th != "Int":
                raise Bad(f"slice of {tb} by {tl}..{th}")
            return st, f"(sliceBytes {b} {lo} {hi})", "Bytes"
        raise Bad("indexing outside the subset: " + str(e)[:120])

    # ------------------------------------------------------------------ calls
    def user_call(self, g, recv, args, ctx):
        """call of a translated function `g`; `recv` = receiver expression or None"""
        st, terms, rebind = [], [], {}
        parts = []
        ps = list(g.params)
        if recv is not None:
            if not ps or ps[0][0] != "self":
                raise Bad(f"{g.key} is not a method")
            p = self.expr(recv, ctx)
            if p[2] != ps[0][1]:
                raise Bad(f"receiver of {g.name} has type {p[2]}")
            parts.append(p)
            if "self" in g.muts:
                r = recv
                while r[0] == "paren":
                    r = r[1]
                rebind["self"] = r[1] if r[0] == "path" and r[1] in ctx.vars else None
                if rebind["self"] is None and r[0] in ("path", "field"):
                    raise Bad(f"mutating method {g.name} on a receiver that is not a local variable")
            ps = ps[1:]
        if len(args) != len(ps):
            raise Bad(f"{g.key} called with {len(args)} arguments")
        for a, (pn, pt, mode) in zip(args, ps):
            p = self.expr(a, ctx, pt)
            if not self.compat(p[2], pt):
                raise Bad(f"argument {pn} of {g.key} : {pt} given a value of type {p[2]}")
            parts.append(p)
            if pn in g.muts:
                r = a[2] if a[0] == "ref" else a
                if r[0] != "path" or r[1] not in ctx.vars:
                    raise Bad(f"`&mut` argument {pn} of {g.key} is not a local variable")
                rebind[pn] = r[1]
        self.order_check(parts)
        for p in parts:
            st += p[0]
        head = g.lname + (" fuel" if g.fuel else "") + (" fuel" if g.selfrec and g is not self.fi else "")
        if g.selfrec and g is self.fi:
            head = g.lname + " fuel depth"
        if g.uses_ext:
            head += " ext"
        if g.fuel:
            self.used_fuel = True
        if g.uses_ext:
            self.used_ext = True
        term = "(" + " ".join([head] + [p[1] for p in parts]) + ")" if parts else head
        rebinds = [vname(rebind[m]) if rebind[m] is not None else None for m in g.muts]
        for r in rebinds:
            if r is not None and r in ctx.ro:
                raise Bad(f"{r} is modified but was captured read-only")
        return st, term, ("pcall", dict(kind=g.kind, T=g.T, rebinds=rebinds, fn=g))

    def call(self, e, ctx, want):
        if e[1][0] != "path":
            raise Bad("call of a computed function")
        f, args = e[1][1], e[2]
        if f == "Some" and len(args) == 1:
            st, v, t = self.expr(args[0], ctx, want[1] if isinstance(want, tuple) and want[0] == "opt" else None)
            return st, f"(some {v})", ("opt", t)
        if f in ("Ok", "Err"):
            raise Bad(f"`{f}(..)` is only supported as the returned value")
        if f.endswith("::from") and len(args) == 1:
            to = f.split("::")[0]
            st, v, t = self.expr(args[0], ctx)
            tgt = "Nat" if to == "u64" else "Int"
            if t == "Bool":
                return st, f"(if {v} then (1 : {tgt}) else 0)", tgt
            if t == "Num" or t == tgt:
                return st, v, tgt
            if t == "Int" and tgt == "Nat":
                return st, f"(Int.toNat {v})", "Nat"
            if t == "Nat" and tgt == "Int":
                return st, f"(({v} : Nat) : Int)", "Int"
            raise Bad(f"{f} of a value of type {t}")
        short = f.split("::")[-1]
        if short in HELPERS and (f == short or f.startswith("helpers::")):
            vs = [self.pure(a, ctx, "Int") for a in args]
            if not all(t in ("Int", "Num") for _, t in vs):
                raise Bad(f"{f} on non-integer arguments")
            return [], "(" + " ".join([HELPERS[short][0]] + [v for v, _ in vs]) + ")", HELPERS[short][1]
        for cand in (f, f.replace("Self::", (self.fi.owner or "") + "::")):
            g = self.prog.fns.get(cand)
            if g is not None and hasattr(g, "kind") and getattr(g, "ok", True):
                return self.user_call(g, None, args, ctx)
        if f in EXT:
            tys, rt = EXT[f]
            if not args or args[0] != ("path", "py"):
                raise Bad(f"{f}: first argument is not `py`")
            if len(args) - 1 != len(tys):
                raise Bad(f"{f} called with {len(args) - 1} arguments")
            st, vs = [], []
            for a, t in zip(args[1:], tys):
                s, v, tv = self.expr(a, ctx, t)
                if isinstance(tv, tuple) and tv[0] == "pywrap":
                    tv = tv[1]
                if not self.compat(tv, t):
                    raise Bad(f"{f}: argument of type {tv} where {t} is expected")
                st += s
                vs.append(v)
            self.used_ext = True
            self.ext_used.add(f)
            return st, "(ext." + f.replace("::", "_") + " " + " ".join(vs) + ")", rt
        if f == "Py::new" and len(args) == 2 and args[0] == ("path", "py"):
            st, v, t = self.expr(args[1], ctx)
            return st, v, ("pywrap", t)
        if f.endswith("PyValueError::new_err") and len(args) == 1:
            v, t = self.pure(args[0], ctx)
            if t != "String":
                raise Bad("PyValueError::new_err of a non-string")
            return [], f"(PyErr.valueError {v})", "PyErr"
        raise Bad("call to " + f)

    def closure(self, c, n):
        if c[0] != "closure" or len(c[1]) != n:
            raise Bad(f"expected a closure with {n} parameter(s)")
        return c

    def mcall(self, e, ctx, want):
        recv, name, args = e[1], e[2], e[3]
        if name == "contains" and len(args) == 1:
            return self.range_contains(e, ctx)
        g = self.prog.method(name)
        if g is not None and hasattr(g, "kind") and getattr(g, "ok", True) and name not in ("new", "to_string"):
            return self.user_call(g, recv, args, ctx)
        if name == "to_string" and recv[0] == "str" and not args:
            return [], lean_str(recv[1]), "String"
        if name == "ok_or_else" and len(args) == 1:
            c = self.closure(args[0], 0)
            st, tm, ty = self.raw(recv, ctx)
            ev, et = self.pure(c[2], ctx)
            if et != ("struct", "ParseError"):
                raise Bad("ok_or_else does not produce a ParseError")
            fail = self.FAIL(ev)
            if isinstance(ty, tuple) and ty[0] == "pcall" and ty[1]["kind"] == "opt":
                pc = dict(ty[1])
                pc["orelse"] = fail
                return st, tm, ("pcall", pc)
            if isinstance(ty, tuple) and ty[0] == "opt":
                return st, tm, ("optelse", ty[1], fail)
            raise Bad(f"ok_or_else on a value of type {ty}")
        st, r, t = self.raw(recv, ctx)
        if isinstance(t, tuple) and t[0] == "pcall":
            st, r, t = self.force(st, r, t[1], ctx)
        if isinstance(t, tuple) and t[0] == "optelse":
            raise Bad("`ok_or_else` without `?`")
        if isinstance(t, tuple) and t[0] == "pywrap" or t == "Obj":
            inner = t[1] if isinstance(t, tuple) else t
            if name == "to_object" and args == [("path", "py")]:
                if inner == ("struct", "Duration"):
                    self.used_ext = True
                    self.ext_used.add("duration_to_object")
                    return st, f"(ext.duration_to_object {r})", "Obj"
                return st, r, ("pywrap", inner) if inner != "Obj" else "Obj"
            if name == "downcast_bound" and args == [("path", "py")]:
                return st, r, ("pywrap", inner)
        if t == "Char":
            if name == "to_digit" and args == [("num", 10)]:
                return st, f"(toDigit10 {r})", ("opt", "Int")
            if name == "is_ascii_digit" and not args:
                return st, f"(isAsciiDigit {r})", "Bool"
        if isinstance(t, tuple) and t[0] == "opt":
            if name in ("is_some", "is_none") and not args:
                return st, f"({r}).{'isSome' if name == 'is_some' else 'isNone'}", "Bool"
            if name in ("is_some_and", "and_then") and len(args) == 1:
                c = self.closure(args[0], 1)
                sub = ctx.child()
                sub.vars[c[1][0]] = t[1]
                b, tb = self.pure(c[2], sub)
                x = vname(c[1][0])
                if name == "is_some_and":
                    if tb != "Bool":
                        raise Bad("is_some_and with a non-boolean closure")
                    return st, f"(match {r} with | some {x} => {b} | none => false)", "Bool"
                if not (isinstance(tb, tuple) and tb[0] == "opt"):
                    raise Bad("and_then with a closure that does not return an Option")
                return st, f"(Option.bind {r} fun {x} => {b})", tb
            if name == "unwrap_or" and len(args) == 1:
                d, td = self.pure(args[0], ctx, t[1])
                if not self.compat(td, t[1]):
                    raise Bad("unwrap_or with a default of another type")
                return st, f"(Option.getD {r} {d})", t[1]
        if t == "Nat" and name in ("checked_add", "checked_mul") and len(args) == 1:
            s2, a, ta = self.expr(args[0], ctx, "Nat")
            if ta not in ("Nat", "Num"):
                raise Bad(f"{name} with an argument of type {ta}")
            return st + s2, f"({'checkedAdd64' if name == 'checked_add' else 'checkedMul64'} {r} {a})", ("opt", "Nat")
        if t == "String" and name == "to_string" and not args:
            return st, r, "String"
        if t == ("struct", "ParseError") and name == "to_string" and not args:
            return st, f"(ParseError.to_string {r})", "String"
        if t == "Text":
            if name == "len" and not args:
                return st, f"(strLen {r})", "Int"
            if name == "as_bytes" and not args:
                return st, f"(asBytes {r})", "Bytes"
            if name == "char_indices" and not args:
                return st, f"(charIndices {r})", "CharIndices"
        raise Bad(f"method .{name}() on a value of type {t}")

    def range_contains(self, e, ctx):
        """`(a..=b).contains(&x)`"""
        recv, args = e[1], e[3]
        while recv[0] == "paren":
            recv = recv[1]
        if recv[0] != "range":
            raise Bad("contains on a non-range")
        x, tx = self.pure(args[0], ctx)
        lo, _ = self.pure(recv[1], ctx, tx)
        hi, _ = self.pure(recv[2], ctx, tx)
        if tx not in ("Int", "Nat"):
            raise Bad("range.contains on a non-integer")
        return [], f"(decide ({lo} ≤ {x}) && decide ({x} {'≤' if recv[3] else '<'} {hi}))", "Bool"
