"""Translator: the compiled ISO 8601 parser and its PyO3 glue  ->  lean/Pendulum/Gen/IsoRs.lean

Sources   rust/src/parsing.rs (every function: `Parser::{new, inc, end, parse_error, too_large_error,
          unexpected_character_error, parse_integer, parse, parse_datetime, parse_time, parse_duration,
          parse_duration_number_frac, parse_duration_number, iso_to_ymd, ordinal_to_ymd}`, `ParsedDuration::add_fraction`,
          `fraction_to_microseconds`, the `new` constructors, `Display for ParseError`, the `US_PER_*` constants, the structs),
          rust/src/python/parsing.rs (`parse_iso8601`), rust/src/python/types/duration.rs (`Duration::new`, `remaining_days`,
          `remaining_seconds`; the `#[pyo3(get, set)]` field list verbatim), rust/src/python/types/timezone.rs
          (`FixedTimezone::new`, `utcoffset`, `dst`; the other methods verbatim).

Method    tools/rust_front.py parses the Rust subset; every function body is translated statement by statement, in source order,
          into ONE Lean definition of the same name (`Parser.parse_time`, …):
  * a `&mut` parameter that the body modifies (also `&mut self`) is threaded: it is an argument and a component of the result;
    every (re)assignment is a shadowing `let` of the variable's own name, `x.f = e` is `{ x with f := e }`;
  * `Result<T, ParseError>` is `Except (Err ParseError) (T × modified parameters)`, `Err(e)` is `.error (.fail e)`, `e?` is a
    `match` that propagates `.error`; an `Option`-returning function using `?` lives in `Option`; other functions are plain;
  * `if`/`if let`/`match` whose other branches all leave (return / break) continue with the rest of the block inside the
    remaining branch; otherwise the statement is a value over the variables it assigns (`FlowR`/`FlowB` when it can also be
    left by `return <value>` / `break`), matched on by the rest; such a statement at the top level of a function body of six
    or more statements, or of a loop body, becomes its own definition `<function>_top<i>` / `<function>_loop<k>_top<i>`
    (i = its index in that body) taking the variables it reads; so does a nested one that runs a loop (`<function>_s<k>`);
  * `match` on character/integer literals is an `if … else if …` chain; `matches!(e, 'a' | 'b')` is `e == 'a' || e == 'b'`;
  * `while`/`while let`/`loop` are recursive definitions `<function>_loop<k> fuel n …` (structural on `n`, called with `n = fuel`;
    `n = 0` yields `.error .fuel`); `for i in a..b` recurses on the number of remaining iterations, `for x in xs.iter().rev()`
    on the reversed list; the recursive call of `parse_datetime` (interval) decreases a `depth` argument (initially `fuel`);
  * `format!` is string concatenation with `toString`.

TRUSTED READING (recorded here, not verified)
  * `u64` is `Nat` (`checked_add`/`checked_mul` = `none` from 2^64, unchecked `+ * += -` unbounded / truncated, `/ %` plain division);
    every other integer type (`u8 u32 usize i32 …`) is `Int` with unbounded `+ - *` (`/ %` = `Int.tdiv`/`Int.tmod`); `e as T` between
    them is the identity, `u64::from(x)` of an `Int` is `Int.toNat`, `T::from(bool)` is 0/1;
  * `&'a str` (the input) is `List Char`, other `&str`/`String` are `String`; std functions as in Model/RsStd.lean;
  * `helpers::{is_leap, is_long_year, days_in_year, week_day}` are the definitions of Gen/RsHelpers.lean, `MONTHS_OFFSETS[a][b]`
    the tables of Gen/Tables.lean (index outside 0/1 resp. out of range = 0, no panic);
  * PyO3: `PyDateTime::new_bound`, `PyDate::new_bound`, `PyTime::new_bound`, `PyDelta::new_bound` and the conversion of a
    `Duration` into a Python object are fields of the parameter `ext : Ext Obj`; `Py::new(py, x)?`, `.to_object(py)`,
    `.downcast_bound(py)?` around a `FixedTimezone` are the identity; `x as u8` etc. of a parsed field is the identity.
Anything outside the subset is reported as a fallback with the prefix "IsoRs:datetime" / "IsoRs:duration" / "IsoRs:glue" of
every group the function belongs to; the definition is then missing and the tie theorems that need it do not build.
"""
from __future__ import annotations

import os
from pathlib import Path

from tools.rust_front import BLOCKLIKE, Bad, parse_file, tokenize, untok
from tools.isors_prog import Prog, lty, pack_ty, rty, vname
from tools.isors_expr import EXT, lean_str
from tools.isors_stmt import Ctx, tailify
from tools.isors_comp import CompTr

REPO = Path(os.environ.get("VERIF_REPO", "/repo"))

DUR, DT, GL = "IsoRs:duration", "IsoRs:datetime", "IsoRs:glue"
GROUPS = {
    "ParseError::Display::fmt": [GL],
    "ParsedDateTime::new": [DT], "ParsedDuration::new": [DUR], "ParsedDuration::add_fraction": [DUR],
    "fraction_to_microseconds": [DUR], "Parsed::new": [DT, DUR],
    "Parser::new": [DT, DUR], "Parser::inc": [DT, DUR], "Parser::parse_error": [DT, DUR], "Parser::too_large_error": [DUR],
    "Parser::unexpected_character_error": [DT], "Parser::end": [DT, DUR], "Parser::parse_integer": [DT],
    "Parser::parse": [DT, DUR], "Parser::parse_datetime": [DT], "Parser::parse_time": [DT], "Parser::parse_duration": [DUR],
    "Parser::parse_duration_number_frac": [DUR], "Parser::parse_duration_number": [DUR], "Parser::iso_to_ymd": [DT],
    "Parser::ordinal_to_ymd": [DT],
    "parse_iso8601": [GL], "Duration::new": [GL], "Duration::remaining_days": [GL], "Duration::remaining_seconds": [GL],
    "FixedTimezone::new": [GL], "FixedTimezone::utcoffset": [GL], "FixedTimezone::dst": [GL],
}
PINNED = ["FixedTimezone::tzname", "FixedTimezone::__repr__", "FixedTimezone::__str__", "FixedTimezone::__deepcopy__"]
FILES = [("rust/src/parsing.rs", DT), ("rust/src/python/types/duration.rs", GL), ("rust/src/python/types/timezone.rs", GL),
         ("rust/src/python/parsing.rs", GL)]


def fn_source_text(path, name):
    """token text of `fn <name>` … closing brace (for pinned functions)"""
    toks = tokenize((REPO / path).read_text())
    for i in range(len(toks) - 1):
        if toks[i] == ("id", "fn") and toks[i + 1] == ("id", name):
            j = i
            depth = 0
            while True:
                if toks[j] == ("op", "{"):
                    depth += 1
                elif toks[j] == ("op", "}"):
                    depth -= 1
                    if depth == 0:
                        return untok(toks[i:j + 1])
                j += 1
    raise Bad(f"fn {name} not found in {path}")


def emit_struct(prog, name):
    fields = prog.structs[name]["fields"]
    lines = [f"structure {name} where"]
    for (fn, ft, _a) in fields:
        lines.append(f"  {vname(fn)} : {lty(rty(ft, name))}")
    lines.append("  deriving Repr, DecidableEq")
    return "\n".join(lines) + "\n"


def emit_fn(prog, fi, shared):
    tr = CompTr(prog, fi, shared)
    f = fi
    params = list(f.params)
    if f.key == "ParseError::Display::fmt":
        params = [p for p in params if p[0] == "self"]
        f.params, f.kind, f.T, f.muts = params, "pure", "String", []
    vars_ = {}
    ro = set()
    for (pn, pt, mode) in params:
        if pn == "input" and pt == "String":
            pt = "Text"
        vars_[pn] = pt
        if mode == "ref" or (mode == "mut" and pn not in f.muts):
            ro.add(pn)
    f.params = [(pn, vars_[pn], mode) for (pn, _pt, mode) in params]
    mnames = [vname(m) for m in f.muts]
    from tools.isors_prog import pack

    def ret(c, v):
        return tr.OK(pack(v, mnames, f.T))
    ctx = Ctx(vars_, set(), ro, None, ret, lambda r: tr.OK(r), None)
    body = tailify(f.body)
    if f.key == "ParseError::Display::fmt":
        body = tailify(f.body)
    if len(body) >= 6:
        # the compound statements at the top level of a long body become definitions `<function>_top<index in the body>`
        body = [(s[0], s[1], f"top{i}") if s[0] in ("expr", "tail") and s[1][0] in BLOCKLIKE else s for i, s in enumerate(body)]
    lines = tr.stmts(body, ctx, 4 if f.selfrec else 2)
    f.uses_ext = tr.used_ext
    mt = [t for (pn, t, _m) in f.params if pn in f.muts]
    rt = tr.M(lty(pack_ty(f.T, mt)))
    head = f"def {f.lname}" + (" (fuel : Nat)" if f.fuel else "") + (" (ext : Ext Obj)" if f.uses_ext else "")
    ps = [(vname(pn), lty(pt)) for (pn, pt, _m) in f.params]
    if f.selfrec:
        sig = head + " : Nat" + "".join(f" → ({n} : {t})" for n, t in ps) + f" → {rt}"
        pats = ", ".join(n for n, _ in ps)
        text = "\n".join([sig, f"  | 0, {pats} => .error .fuel", f"  | depth+1, {pats} =>"] + lines)
    else:
        sig = head + "".join(f" ({n} : {t})" for n, t in ps) + f" : {rt} :="
        text = "\n".join([sig] + lines)
    doc = f"/-- `{f.key}` ({f.group.split(':')[-1]}) -/\n"
    return "".join(d + "\n" for d in tr.defs) + doc + text + "\n"


def generate(changed, fallbacks, _write):
    from tools.gen_lean import GEN
    prog = Prog()
    out = []
    for path, group in FILES:
        try:
            prog.add_file(parse_file((REPO / path).read_text()), group)
        except (Bad, OSError, IndexError, KeyError) as e:
            for g in ([DUR, DT, GL] if path.endswith("src/parsing.rs") else [GL]):
                fallbacks.append(f"{g}: cannot read {path}: {e}")
    broken = {k: f.src.error for k, f in prog.fns.items() if f.src.body is None}
    for k, msg in broken.items():
        for g in GROUPS.get(k, [DT, DUR] if prog.fns[k].group == DT else [GL]):
            fallbacks.append(f"{g}: cannot parse the body of {k}: {msg}")
    want = [k for k in prog.order if k in GROUPS and k not in broken]
    for k in GROUPS:
        if k not in prog.fns:
            for g in GROUPS[k]:
                fallbacks.append(f"{g}: function {k} not found")
    for k in prog.order:
        src = next(p for p, _g in FILES if True) if False else None
    unknown = [k for k in prog.order if k not in GROUPS and k not in PINNED]
    for k in unknown:
        grp = [DT, DUR] if prog.fns[k].group == DT else [GL]
        for g in grp:
            fallbacks.append(f"{g}: new function {k} is not covered by the translator's tables")
    try:
        prog.analyse(want)
    except (Bad, KeyError, IndexError) as e:
        for g in (DUR, DT, GL):
            fallbacks.append(f"{g}: cannot analyse the signatures: {e}")
        want = []
    for k in want:
        prog.fns[k].uses_ext = False
        prog.fns[k].ok = True
    head = ["import Pendulum.Gen.RsHelpers", "import Pendulum.Model.RsStd",
            "/-! GENERATED by tools/gen_isors.py from rust/src/parsing.rs, rust/src/python/parsing.rs,",
            "rust/src/python/types/duration.rs, rust/src/python/types/timezone.rs — do not edit.",
            "Reading of the types (trusted): `u64` = `Nat`, every other integer type = `Int`, casts between them the identity,",
            "`&'a str` = `List Char`; standard library pieces as in Model/RsStd.lean; see the header of tools/gen_isors.py. -/",
            "set_option linter.unusedVariables false", "set_option maxRecDepth 4000",
            "namespace Pendulum.Gen.IsoRs", "open Pendulum Pendulum.RsStd", ""]
    out += head
    # constants
    shared = dict(ext_used=set())
    for name, (ty, e) in prog.consts.items():
        try:
            fi = type("C", (), {})()
            fi.kind, fi.owner, fi.lname, fi.selfrec, fi.key, fi.T, fi.muts, fi.params = "pure", None, name, False, name, rty(ty), [], []
            tr = CompTr(prog, fi, shared)
            v, t = tr.pure(e, Ctx({}, set(), set(), None, None, None, None), rty(ty))
            out.append(f"def {name} : {lty(rty(ty))} := {v}\n")
        except (Bad, KeyError, IndexError, ValueError) as ex:
            fallbacks.append(f"{DUR}: cannot translate constant {name}: {ex}")
    # structs
    for name in prog.structs:
        try:
            out.append(emit_struct(prog, name))
        except (Bad, KeyError) as ex:
            for g in ([DT, DUR] if prog.structs[name]["group"] == DT else [GL]):
                fallbacks.append(f"{g}: cannot translate struct {name}: {ex}")
    # the external (PyO3) functions
    ext_lines = ["/-- the PyO3 constructors the glue calls -/", "structure Ext (Obj : Type) where"]
    for name, (tys, rt) in EXT.items():
        ext_lines.append(f"  {name.replace('::', '_')} : " + " → ".join(lty(t) for t in tys) + f" → {lty(rt)}")
    ext_lines.append("  duration_to_object : Duration → Obj")
    if "Duration" in prog.structs and "FixedTimezone" in prog.structs:
        out.append("\n".join(ext_lines) + "\n")
        out.append("variable {Obj : Type}\n")
    # functions, callees first
    done, emitted = set(), []

    def visit(k, stack=()):
        if k in done or k in stack:
            return
        for c in sorted(prog.fns[k].calls, key=prog.order.index):
            if c != k:
                visit(c, stack + (k,))
        done.add(k)
        emitted.append(k)
    for k in want:
        visit(k)
    for k in emitted:
        fi = prog.fns[k]
        bad = [c for c in fi.calls if not prog.fns[c].ok]
        bad += [b for b in broken if b.split("::")[-1] in str(fi.body) and b in GROUPS]
        try:
            if bad:
                raise Bad("depends on untranslated " + ", ".join(bad))
            out.append(emit_fn(prog, fi, shared))
        except (Bad, KeyError, IndexError, ValueError, AttributeError, TypeError) as ex:
            fi.ok = False
            for g in GROUPS[k]:
                fallbacks.append(f"{g}: cannot translate {k}: {ex}")
            out.append(f"-- UNTRANSLATABLE {k}: {str(ex)[:300]}\n")
    # verbatim parts
    try:
        pins = []
        for k in PINNED:
            owner, name = k.split("::")
            pins.append(fn_source_text("rust/src/python/types/timezone.rs", name))
        out.append("/-- the methods of `FixedTimezone` that are not translated (`tzname`, `__repr__`, `__str__`, `__deepcopy__`), verbatim -/")
        out.append(f"def timezoneOtherSource : String := {lean_str(chr(10).join(pins))}\n")
        d = prog.structs["Duration"]
        out.append("/-- attributes and fields of the `Duration` pyclass, verbatim: every field is exposed to Python by `#[pyo3(get, set)]` -/")
        out.append("def durationFieldsSource : String := " + lean_str(" | ".join(d["attrs"]) + " || " + " ; ".join(
            f"{a} {n} : {untok_type(t)}" for (n, t, a) in d["fields"])) + "\n")
        z = prog.structs["FixedTimezone"]
        out.append("def timezoneFieldsSource : String := " + lean_str(" | ".join(z["attrs"]) + " || " + " ; ".join(
            f"{a} {n} : {untok_type(t)}" for (n, t, a) in z["fields"])) + "\n")
        sig = []
        for k in ("Duration::new", "Duration::remaining_days", "Duration::remaining_seconds", "FixedTimezone::new",
                  "FixedTimezone::utcoffset", "FixedTimezone::dst", "parse_iso8601"):
            sig.append(k + " " + " ".join(prog.fns[k].src.attrs))
        out.append("/-- the PyO3 attributes of the translated glue functions, verbatim -/")
        out.append(f"def glueAttrsSource : String := {lean_str(' | '.join(sig))}\n")
    except (Bad, KeyError, OSError) as ex:
        fallbacks.append(f"{GL}: cannot record the verbatim parts of the glue: {ex}")
    out += ["end Pendulum.Gen.IsoRs", ""]
    _write(GEN / "IsoRs.lean", "\n".join(out), changed)
    return 0


def untok_type(t):
    if t[0] == "path":
        return t[1] + ("<" + ", ".join(untok_type(a) for a in t[2]) + ">" if t[2] else "")
    if t[0] == "ref":
        return "&" + ("mut " if t[2] else "") + untok_type(t[3])
    if t[0] == "tuple":
        return "(" + ", ".join(untok_type(a) for a in t[1]) + ")"
    return "[" + untok_type(t[1]) + "]"


if __name__ == "__main__":
    import sys
    sys.path.insert(0, str(Path(__file__).resolve().parent.parent))
    fb = []

    def w(path, text, changed):
        Path(path).write_text(text)
        changed.append(str(path))
    generate([], fb, w)
    print("\n".join(fb))
