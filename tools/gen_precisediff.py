"""Translator: `precise_diff` of src/pendulum/_helpers.py  ->  lean/Pendulum/Gen/PreciseDiff.lean

The function has two layers.

*Object layer* (works on datetime objects; recorded, shape-checked, and translated where it is plain logic):
  `sign = 1` + `if d1 > d2: d1, d2 = d2, d1; sign = -1`     -> `sign_of (d1_gt_d2 : Bool) : Int`      (translated)
  `if d1 == d2: return PreciseDiff(0, ...)`                   -> `equal_result : List Int`               (translated)
  `in_same_tz = False; tz1 = None; tz2 = None; if tzinfo1 and tzinfo2: ...`
        -> `in_same_tz (tzinfo1 tzinfo2 : Bool) (name1 name2 : Option Nat) : Bool`  (translated: a tzinfo is its truthiness,
           `_get_tzinfo_name(tzinfo<k>)` is the parameter `name<k>`)
  the UTC shift `if not in_same_tz or total_days == 0: offset1 = d1.utcoffset() ...`
        -> its *condition* and its *position* (inside both isinstance tests) are translated as
           `shift_taken (d1_is_datetime d2_is_datetime in_same_tz : Bool) (total_days : Int) : Bool`;
           its body is shape-checked (exactly the four statements below) and recorded verbatim in `shiftSource`
  tzinfo extraction and the naive/aware `raise`              -> recorded verbatim in `preludeSource`

*Integer layer* (translated statement by statement into ONE definition, so that renaming a local or reordering
independent statements leaves the theorems untouched):
  `total_days = _day_number(d2...) - _day_number(d1...)`      -> `total_days` (fields of the ordered, *unshifted* values)
  every other top-level statement after the swap (constant initialisations, the
  `if isinstance(d2, datetime.datetime):` block with the borrow cascade, `y_diff = ...`, the `d_diff < 0` month borrow
  with `DAYS_PER_MONTHS[int(is_leap(..))][..]`, `m_diff < 0`, `return PreciseDiff(sign * ..., ...)`)
        -> `core (d1_is_datetime d2_is_datetime : Bool) (sign total_days : Int) (d1_year .. d1_microsecond d2_year .. : Int) : List Int`
  where `d<k>_<field>` are the fields of the ordered and already UTC-shifted values (a field read that textually
  precedes the shift block is refused).

Subset: integer expressions (+ - *, unary -, `//` `%` by a positive constant, abs/min/max, `int(<bool>)`, `int(<int>)`,
`_day_number(..)`, `TABLE[i]`, `TABLE2[sel][i]`, conditional expressions, `d1.<field>`), boolean expressions (comparisons,
and/or/not, `is_leap(..)`, `isinstance(d<k>, datetime.datetime)`, boolean variables), statements: (aug)assignment,
if/elif/else (arbitrarily nested; a variable first bound inside a branch is local to it), `pass`, `return PreciseDiff(...)`.
Anything else is a fallback (prefix "PreciseDiff:").
"""
from __future__ import annotations

import ast
import os
from pathlib import Path

REPO = Path(os.environ.get("VERIF_REPO", "/repo"))
FIELDS = ["year", "month", "day", "hour", "minute", "second", "microsecond"]
OBJS = ("d1", "d2")
TZVARS = {"in_same_tz", "tz1", "tz2"}
SHIFT_BODY = ["offset1 = d1.utcoffset()", "offset2 = d2.utcoffset()",
              "if offset1:\n    d1 = d1.replace(tzinfo=None) - offset1",
              "if offset2:\n    d2 = d2.replace(tzinfo=None) - offset2"]
GHOST = "__shift_taken__"


class Bad(Exception):
    pass


def L(v):
    return f"({v} : Int)"


def lean_str(s):
    return '"' + s.replace("\\", "\\\\").replace('"', '\\"').replace("\n", "\\n") + '"'


def is_isinstance_dt(x):
    """`isinstance(d<k>, datetime.datetime)` -> 'd<k>' """
    if (isinstance(x, ast.Call) and isinstance(x.func, ast.Name) and x.func.id == "isinstance" and len(x.args) == 2
            and not x.keywords and isinstance(x.args[0], ast.Name) and x.args[0].id in OBJS
            and ast.unparse(x.args[1]) == "datetime.datetime"):
        return x.args[0].id
    return None


class X:
    """expressions; env: python name -> lean term (Int) or 'b!'+term (Bool)"""

    def __init__(self, env, consts, st):
        self.env, self.consts, self.st = env, consts, st

    def const_val(self, x):
        if isinstance(x, ast.Constant) and isinstance(x.value, int) and not isinstance(x.value, bool):
            return x.value
        if isinstance(x, ast.Name) and x.id not in self.env and isinstance(self.consts.get(x.id), int) \
                and not isinstance(self.consts.get(x.id), bool):
            return self.consts[x.id]
        return None

    def isbool(self, x):
        if isinstance(x, (ast.Compare, ast.BoolOp)):
            return True
        if isinstance(x, ast.UnaryOp) and isinstance(x.op, ast.Not):
            return True
        if isinstance(x, ast.Constant) and isinstance(x.value, bool):
            return True
        if isinstance(x, ast.Name) and self.env.get(x.id, "").startswith("b!"):
            return True
        if isinstance(x, ast.Call) and isinstance(x.func, ast.Name) and x.func.id == "is_leap":
            return True
        if is_isinstance_dt(x):
            return True
        if isinstance(x, ast.IfExp):
            return self.isbool(x.body) and self.isbool(x.orelse)
        return False

    def i(self, x):
        cv = self.const_val(x)
        if cv is not None:
            return L(cv)
        if isinstance(x, ast.Name):
            v = self.env.get(x.id)
            if v is None:
                raise Bad("unknown name " + x.id)
            if v.startswith("b!"):
                raise Bad("boolean used as an integer: " + x.id)
            return v
        if isinstance(x, ast.Attribute) and isinstance(x.value, ast.Name) and x.value.id in OBJS and x.attr in FIELDS:
            k = f"{x.value.id}.{x.attr}"
            if k not in self.env:
                raise Bad("field not available here: " + k)
            self.st["field_read"] = True
            return self.env[k]
        if isinstance(x, ast.UnaryOp) and isinstance(x.op, ast.USub):
            return f"(-{self.i(x.operand)})"
        if isinstance(x, ast.BinOp):
            if type(x.op) in (ast.Add, ast.Sub, ast.Mult):
                o = {ast.Add: "+", ast.Sub: "-", ast.Mult: "*"}[type(x.op)]
                return f"({self.i(x.left)} {o} {self.i(x.right)})"
            if type(x.op) in (ast.FloorDiv, ast.Mod):
                rv = self.const_val(x.right)
                if rv is not None and rv > 0:
                    o = "/" if isinstance(x.op, ast.FloorDiv) else "%"
                    return f"({self.i(x.left)} {o} {L(rv)})"
                raise Bad("// or % by something that is not a positive constant: " + ast.unparse(x))
        if isinstance(x, ast.Call) and isinstance(x.func, ast.Name) and not x.keywords:
            f, n = x.func.id, len(x.args)
            if f == "abs" and n == 1:
                a = self.i(x.args[0])
                return f"(if {a} < 0 then -{a} else {a})"
            if f in ("max", "min") and n == 2:
                return f"({f} {self.i(x.args[0])} {self.i(x.args[1])})"
            if f == "int" and n == 1:
                if self.isbool(x.args[0]):
                    return f"(if {self.b(x.args[0])} then (1 : Int) else 0)"
                return self.i(x.args[0])
            if f == "_day_number" and n == 3:
                return "(day_number " + " ".join(self.i(a) for a in x.args) + ")"
        if isinstance(x, ast.Subscript):
            v = x.value
            if isinstance(v, ast.Name) and v.id not in self.env and isinstance(self.consts.get(v.id), (tuple, list)):
                t = self.consts[v.id]
                if t and all(isinstance(e, int) for e in t):
                    return f"(py_{v.id} {self.i(x.slice)})"
            if isinstance(v, ast.Subscript) and isinstance(v.value, ast.Name) and v.value.id not in self.env \
                    and isinstance(self.consts.get(v.value.id), (tuple, list)):
                t = self.consts[v.value.id]
                if t and all(isinstance(r, (tuple, list)) and r and all(isinstance(e, int) for e in r) for r in t):
                    sel, idx = self.i(v.slice), self.i(x.slice)
                    out = "0"          # an out-of-range row (IndexError in Python) reads as 0, like an out-of-range column
                    for k in reversed(range(len(t))):
                        out = f"if {sel} = {k} then py_{v.value.id}_{k} {idx} else {out}"
                    return f"({out})"
        if isinstance(x, ast.IfExp):
            return f"(if {self.b(x.test)} then {self.i(x.body)} else {self.i(x.orelse)})"
        raise Bad("integer expression outside the subset: " + ast.unparse(x)[:120])

    def b(self, x):
        if isinstance(x, ast.Constant) and isinstance(x.value, bool):
            return "true" if x.value else "false"
        if isinstance(x, ast.Name) and self.env.get(x.id, "").startswith("b!"):
            return self.env[x.id][2:]
        if isinstance(x, ast.BoolOp) and all(self.isbool(v) for v in x.values):
            op = " && " if isinstance(x.op, ast.And) else " || "
            return "(" + op.join(self.b(v) for v in x.values) + ")"
        if isinstance(x, ast.UnaryOp) and isinstance(x.op, ast.Not) and self.isbool(x.operand):
            return f"(!{self.b(x.operand)})"
        if isinstance(x, ast.Compare) and len(x.ops) == 1:
            o = {ast.Eq: "=", ast.NotEq: "≠", ast.Lt: "<", ast.LtE: "≤", ast.Gt: ">", ast.GtE: "≥"}.get(type(x.ops[0]))
            if o:
                return f"(decide ({self.i(x.left)} {o} {self.i(x.comparators[0])}))"
        if isinstance(x, ast.Call) and isinstance(x.func, ast.Name) and x.func.id == "is_leap" and len(x.args) == 1:
            return f"(is_leap {self.i(x.args[0])})"
        who = is_isinstance_dt(x)
        if who:
            k = who + ".is_datetime"
            if k not in self.env:
                raise Bad("isinstance test not available here: " + ast.unparse(x))
            return self.env[k]
        if isinstance(x, ast.IfExp) and self.isbool(x):
            return f"(if {self.b(x.test)} then {self.b(x.body)} else {self.b(x.orelse)})"
        raise Bad("boolean expression outside the subset: " + ast.unparse(x)[:120])


def assigned(stmts):
    out = []
    for s in stmts:
        if isinstance(s, ast.Assign):
            for t in s.targets:
                if isinstance(t, ast.Name):
                    out.append(t.id)
                elif isinstance(t, ast.Tuple):
                    out += [e.id for e in t.elts if isinstance(e, ast.Name)]
        elif isinstance(s, (ast.AugAssign, ast.AnnAssign)) and isinstance(s.target, ast.Name):
            out.append(s.target.id)
        elif isinstance(s, ast.If):
            out += assigned(s.body) + assigned(s.orelse)
    seen, res = set(), []
    for n in out:
        if n not in seen:
            seen.add(n)
            res.append(n)
    return res


def tup(xs):
    return xs[0] if len(xs) == 1 else "(" + ", ".join(xs) + ")"


def proj(r, k, n):
    if n == 1:
        return r
    return r + ".2" * k + (".1" if k < n - 1 else "")


def is_shift_block(s):
    """an `if` one of whose own (non-compound) statements calls `.utcoffset`"""
    return isinstance(s, ast.If) and any(
        not isinstance(t, (ast.If, ast.For, ast.While, ast.With, ast.Try))
        and any(isinstance(n, ast.Attribute) and n.attr == "utcoffset" for n in ast.walk(t))
        for t in list(s.body) + list(s.orelse))


def check_shift_block(s):
    if s.orelse:
        raise Bad("the UTC-shift block has an else branch")
    got = [ast.unparse(t) for t in s.body]
    if got != SHIFT_BODY:
        raise Bad("the UTC-shift block has a new shape: " + " ; ".join(got)[:300])


def prep(stmts, mode):
    """replace every UTC-shift block (after checking its shape) by a marker: `pass` (mode 'core': the field parameters
    are the shifted values) or `if <cond>: <ghost> = True` (mode 'shift')"""
    out = []
    for s in stmts:
        if is_shift_block(s):
            check_shift_block(s)
            if mode == "core":
                m = ast.Pass()
            else:
                m = ast.If(test=s.test, body=[ast.Assign(targets=[ast.Name(id=GHOST)], value=ast.Constant(value=True))],
                           orelse=[])
            m._shift_marker = True
            out.append(m)
        elif isinstance(s, ast.If):
            n = ast.If(test=s.test, body=prep(s.body, mode), orelse=prep(s.orelse, mode))
            if mode == "core" or n.body or n.orelse:
                if not n.body:
                    n.body = [ast.Pass()]
                out.append(n)
        elif mode == "core":
            out.append(s)          # mode 'shift' keeps only the path to the shift block (a slice on the ghost variable)
    return out


class Blk:
    """statement list -> nested lets; an `if` becomes a tuple-valued `if` over the variables it rebinds.
    mode 'core': the shift block is skipped (the field parameters are the shifted values);
    mode 'shift': the shift block sets the ghost variable."""

    def __init__(self, consts, mode, ind="  "):
        self.consts, self.mode, self.n, self.ind = consts, mode, 0, ind
        self.st = {"field_read": False, "shift_seen": 0}

    def fresh(self, base):
        self.n += 1
        return f"{base.strip('_')}_{self.n}"

    def bind(self, name, term, env, isb=False):
        n = self.fresh(name)
        env = dict(env)
        env[name] = ("b!" + n) if isb else n
        return f"let {n} : {'Bool' if isb else 'Int'} := {term}\n{self.ind}", env

    def run(self, stmts, env, done):
        """`done(env)` gives the term when the statements fall off the end; a `return` ends the list"""
        if not stmts:
            return done(env)
        s, rest = stmts[0], stmts[1:]
        x = X(env, self.consts, self.st)
        if (isinstance(s, ast.Pass) and not getattr(s, "_shift_marker", False)) \
                or (isinstance(s, ast.Expr) and isinstance(s.value, ast.Constant)):
            return self.run(rest, env, done)
        if isinstance(s, ast.Return):
            if rest:
                raise Bad("statements after a return")
            v = s.value
            if not (isinstance(v, ast.Call) and isinstance(v.func, ast.Name) and v.func.id == "PreciseDiff"
                    and len(v.args) == 8 and not v.keywords):
                raise Bad("return value is not PreciseDiff(<8 positional>): " + ast.unparse(s)[:120])
            if done is not RETURN:
                raise Bad("return inside a branch")
            return "[" + ", ".join(x.i(a) for a in v.args) + "]"
        if isinstance(s, ast.AnnAssign) and s.value is not None:
            s = ast.Assign(targets=[s.target], value=s.value)
        if isinstance(s, ast.Assign) and len(s.targets) == 1 and isinstance(s.targets[0], ast.Name):
            name = s.targets[0].id
            if name in OBJS:
                raise Bad(f"`{name}` is rebound outside the UTC-shift block: " + ast.unparse(s)[:100])
            isb = x.isbool(s.value)
            l, env1 = self.bind(name, x.b(s.value) if isb else x.i(s.value), env, isb)
            return l + self.run(rest, env1, done)
        if isinstance(s, ast.AugAssign) and isinstance(s.target, ast.Name) and type(s.op) in (ast.Add, ast.Sub, ast.Mult):
            name = s.target.id
            o = {ast.Add: "+", ast.Sub: "-", ast.Mult: "*"}[type(s.op)]
            l, env1 = self.bind(name, f"({x.i(s.target)} {o} {x.i(s.value)})", env)
            return l + self.run(rest, env1, done)
        if getattr(s, "_shift_marker", False):
            if self.st["field_read"]:
                raise Bad("a field of d1/d2 is read before the UTC shift")
            self.st["shift_seen"] += 1
            if "shift.cond" not in env:
                raise Bad("UTC-shift block in an unexpected position")
            if isinstance(s, ast.Pass):
                return self.run(rest, env, done)
        if isinstance(s, ast.If):
            if any(n in OBJS for n in assigned([s])):
                raise Bad("d1/d2 are rebound outside the UTC-shift block")
            ws = [w for w in assigned([s]) if w in env]
            c = x.b(s.test)
            if not ws:
                # no visible effect; still translate the branches so that nothing is silently dropped
                self.run(list(s.body), env, lambda e: "()")
                self.run(list(s.orelse), env, lambda e: "()")
                return self.run(rest, env, done)
            sub = Blk(self.consts, self.mode, self.ind + "    ")
            sub.n, sub.st = self.n, self.st

            def fin(e):
                return tup([e[w][2:] if e[w].startswith("b!") else e[w] for w in ws])
            th = sub.run(list(s.body), env, fin)
            el = sub.run(list(s.orelse), env, fin)
            self.n = sub.n
            r = self.fresh("r")
            out = f"let {r} := if {c} then\n{sub.ind}{th}\n{self.ind}  else\n{sub.ind}{el}\n{self.ind}"
            env2 = dict(env)
            for k, w in enumerate(ws):
                isb = env[w].startswith("b!")
                l, env2 = self.bind(w, proj(r, k, len(ws)), env2, isb)
                out += l
            return out + self.run(rest, env2, done)
        raise Bad("statement outside the subset: " + ast.unparse(s)[:120])


def RETURN(env):
    raise Bad("control falls off the end of precise_diff")


def _params(names):
    return " ".join(f"({n} : Int)" for n in names)


def generate(changed, fallbacks, _write):
    from tools.gen_lean import GEN, py_constants
    consts = py_constants()
    out = ["import Pendulum.Gen.Helpers",
           "/-! GENERATED by tools/gen_precisediff.py from src/pendulum/_helpers.py (`precise_diff`) — do not edit.",
           "`d<k>_<field>` in `core`: fields of the ordered (d1 <= d2) and already UTC-shifted values;",
           "in `total_days`: fields of the ordered values before the shift. -/",
           "set_option linter.unusedVariables false", "namespace Pendulum.Gen.PreciseDiff", "open Pendulum.Gen", ""]

    def emit(label, thunk):
        try:
            out.append(thunk())
        except (Bad, StopIteration, KeyError, IndexError, OSError, SyntaxError) as e:
            fallbacks.append(f"PreciseDiff: cannot translate {label}: {e}")
            out.append(f"-- UNTRANSLATABLE {label}: {str(e)[:300]}\n")

    def finish():
        out.extend(["end Pendulum.Gen.PreciseDiff", ""])
        _write(GEN / "PreciseDiff.lean", "\n".join(out), changed)
        return 0

    try:
        tree = ast.parse((REPO / "src/pendulum/_helpers.py").read_text())
        fn = next(n for n in tree.body if isinstance(n, ast.FunctionDef) and n.name == "precise_diff")
        if [a.arg for a in fn.args.args] != ["d1", "d2"]:
            raise Bad("unexpected signature")
        body = [s for s in fn.body if not (isinstance(s, ast.Expr) and isinstance(s.value, ast.Constant))]
        kswap = next(k for k, s in enumerate(body) if isinstance(s, ast.If) and ast.unparse(s.test) == "d1 > d2")
    except (Bad, StopIteration, OSError, SyntaxError) as e:
        fallbacks.append(f"PreciseDiff: cannot locate precise_diff / its `if d1 > d2:` swap: {e!r}")
        return finish()
    pre, post = body[:kswap + 1], body[kswap + 1:]
    swap = pre[-1]

    # ---- object layer: sign, equality, prelude
    def t_sign():
        if not (isinstance(pre[0], ast.Assign) and ast.unparse(pre[0]) == "sign = 1"):
            raise Bad("precise_diff no longer starts with `sign = 1`")
        if swap.orelse:
            raise Bad("the swap has an else branch")
        sw = [t for t in swap.body if ast.unparse(t) in ("d1, d2 = (d2, d1)", "(d1, d2) = (d2, d1)")]
        others = [t for t in swap.body if t not in sw]
        if len(sw) != 1:
            raise Bad("the swap no longer exchanges d1 and d2: " + ast.unparse(swap)[:200])
        stmts = [pre[0], ast.If(test=ast.Name(id="__gt__"), body=others, orelse=[])]
        blk = Blk(consts, "core")
        term = blk.run(stmts, {"__gt__": "b!d1_gt_d2"}, lambda e: e["sign"])
        return ("/-- `sign = 1`; `if d1 > d2: d1, d2 = d2, d1; sign = -1` (the exchange itself is shape-checked) -/\n"
                f"def sign_of (d1_gt_d2 : Bool) : Int :=\n  {term}\n")

    def t_equal():
        eq = [s for s in pre if isinstance(s, ast.If) and ast.unparse(s.test) == "d1 == d2"]
        if len(eq) != 1 or eq[0].orelse or len(eq[0].body) != 1 or not isinstance(eq[0].body[0], ast.Return):
            raise Bad("no `if d1 == d2: return PreciseDiff(...)`")
        term = Blk(consts, "core").run(list(eq[0].body), {}, RETURN)
        return f"/-- `if d1 == d2: return ...` -/\ndef equal_result : List Int :=\n  {term}\n"

    def t_prelude():
        keep = [s for s in pre[1:-1] if not (isinstance(s, ast.If) and ast.unparse(s.test) == "d1 == d2")]
        src = "\n".join(ast.unparse(s) for s in keep)
        return ("/-- statements between `sign = 1` and the swap other than the equality return, verbatim -/\n"
                f"def preludeSource : String := {lean_str(src)}\n")

    # ---- classification of the statements after the swap
    tzblock, core_stmts, td = [], [], []
    for s in post:
        names = assigned([s])
        if isinstance(s, ast.Assign) and names == ["total_days"]:
            td.append(s)
        elif names and set(names) <= TZVARS:
            tzblock.append(s)
        else:
            core_stmts.append(s)

    def t_total_days():
        if len(td) != 1:
            raise Bad(f"`total_days = ...` found {len(td)} times at the top level")
        k_td = post.index(td[0])
        for s in post[:k_td]:
            if any(n in OBJS for n in assigned([s])):
                raise Bad("d1/d2 rebound before total_days")
        env = {f"{o}.{f}": f"{o}_{f}" for o in OBJS for f in FIELDS[:3]}
        term = X(env, consts, {"field_read": False}).i(td[0].value)
        ps = [f"{o}_{f}" for o in OBJS for f in FIELDS[:3]]
        return f"def total_days {_params(ps)} : Int :=\n  {term}\n"

    def t_in_same_tz():
        # a tiny typed translation: tzinfo<k> -> Bool (truthiness), tz<k> -> Option Nat, in_same_tz -> Bool
        env = {"tzinfo1": ("B", "tzinfo1"), "tzinfo2": ("B", "tzinfo2")}
        n = [0]

        def fresh(b):
            n[0] += 1
            return f"{b}_{n[0]}"

        def ex(x, env):
            if isinstance(x, ast.Constant) and x.value is None:
                return ("O", "(none : Option Nat)")
            if isinstance(x, ast.Constant) and isinstance(x.value, bool):
                return ("B", "true" if x.value else "false")
            if isinstance(x, ast.Name) and x.id in env:
                return env[x.id]
            if isinstance(x, ast.Call) and ast.unparse(x.func) == "_get_tzinfo_name" and len(x.args) == 1 \
                    and isinstance(x.args[0], ast.Name) and x.args[0].id in ("tzinfo1", "tzinfo2"):
                return ("O", "name" + x.args[0].id[-1])
            if isinstance(x, ast.BoolOp):
                vs = [ex(v, env) for v in x.values]
                if all(v[0] == "B" for v in vs):
                    return ("B", "(" + (" && " if isinstance(x.op, ast.And) else " || ").join(v[1] for v in vs) + ")")
            if isinstance(x, ast.UnaryOp) and isinstance(x.op, ast.Not):
                v = ex(x.operand, env)
                if v[0] == "B":
                    return ("B", f"(!{v[1]})")
            if isinstance(x, ast.Compare) and len(x.ops) == 1:
                a, b = ex(x.left, env), x.comparators[0]
                if isinstance(b, ast.Constant) and b.value is None and a[0] == "O" and isinstance(x.ops[0], (ast.Is, ast.IsNot)):
                    return ("B", f"({a[1]}).isNone" if isinstance(x.ops[0], ast.Is) else f"({a[1]}).isSome")
                bb = ex(b, env)
                if a[0] == "O" and bb[0] == "O" and isinstance(x.ops[0], (ast.Eq, ast.NotEq)):
                    o = "=" if isinstance(x.ops[0], ast.Eq) else "≠"
                    return ("B", f"(decide ({a[1]} {o} {bb[1]}))")
            raise Bad("tz-name expression outside the subset: " + ast.unparse(x)[:120])

        def run(stmts, env, fin, ind):
            if not stmts:
                return fin(env)
            s, rest = stmts[0], stmts[1:]
            if isinstance(s, ast.Assign) and len(s.targets) == 1 and isinstance(s.targets[0], ast.Name):
                t, v = ex(s.value, env)
                nm = fresh(s.targets[0].id)
                env = dict(env, **{s.targets[0].id: (t, nm)})
                ty = "Bool" if t == "B" else "Option Nat"
                return f"let {nm} : {ty} := {v}\n{ind}" + run(rest, env, fin, ind)
            if isinstance(s, ast.If):
                c = ex(s.test, env)
                if c[0] != "B":
                    raise Bad("tz-name condition is not boolean")
                ws = [w for w in assigned([s]) if w in env]
                if not ws:
                    raise Bad("tz-name `if` without effect")

                def f2(e):
                    return tup([e[w][1] for w in ws])
                th = run(list(s.body), env, f2, ind + "    ")
                el = run(list(s.orelse), env, f2, ind + "    ")
                r = fresh("r")
                o = f"let {r} := if {c[1]} then\n{ind}    {th}\n{ind}  else\n{ind}    {el}\n{ind}"
                for k, w in enumerate(ws):
                    nm = fresh(w)
                    ty = "Bool" if env[w][0] == "B" else "Option Nat"
                    o += f"let {nm} : {ty} := {proj(r, k, len(ws))}\n{ind}"
                    env = dict(env, **{w: (env[w][0], nm)})
                return o + run(rest, env, fin, ind)
            raise Bad("tz-name statement outside the subset: " + ast.unparse(s)[:120])

        def fin(e):
            if "in_same_tz" not in e or e["in_same_tz"][0] != "B":
                raise Bad("in_same_tz is not computed by the tz-name block")
            return e["in_same_tz"][1]
        term = run(tzblock, env, fin, "  ")
        return ("/-- the zone-name block; `tzinfo<k>` = truthiness of the tzinfo, `name<k>` = `_get_tzinfo_name(tzinfo<k>)` -/\n"
                f"def in_same_tz (tzinfo1 tzinfo2 : Bool) (name1 name2 : Option Nat) : Bool :=\n  {term}\n")

    # ---- integer layer
    fparams = [f"{o}_{f}" for o in OBJS for f in FIELDS]

    def base_env():
        env = {f"{o}.{f}": f"{o}_{f}" for o in OBJS for f in FIELDS}
        env.update({"d1.is_datetime": "d1_is_datetime", "d2.is_datetime": "d2_is_datetime",
                    "sign": "sign", "total_days": "total_days", "in_same_tz": "b!in_same_tz", "shift.cond": "ok"})
        return env

    def t_core():
        blk = Blk(consts, "core")
        env = base_env()
        del env["in_same_tz"]
        term = blk.run(prep(core_stmts, "core"), env, RETURN)
        if blk.st["shift_seen"] != 1:
            raise Bad(f"the UTC-shift block was found {blk.st['shift_seen']} times")
        return ("def core (d1_is_datetime d2_is_datetime : Bool) (sign total_days : Int) "
                f"{_params(fparams)} : List Int :=\n  {term}\n")

    def t_shift():
        blk = Blk(consts, "shift")
        env = {k: v for k, v in base_env().items() if k in ("d1.is_datetime", "d2.is_datetime", "total_days", "in_same_tz",
                                                            "shift.cond")}
        env[GHOST] = "b!false"
        stmts = prep([s for s in core_stmts if not isinstance(s, ast.Return)], "shift")
        term = blk.run(stmts, env, lambda e: e[GHOST][2:])
        if blk.st["shift_seen"] != 1:
            raise Bad(f"the UTC-shift block was found {blk.st['shift_seen']} times")
        shift = next(n for s in core_stmts for n in ast.walk(s) if is_shift_block(n))
        src = "\n".join(ast.unparse(t) for t in shift.body)
        return ("/-- is the UTC-shift block executed? (its condition and its position inside the isinstance tests) -/\n"
                "def shift_taken (d1_is_datetime d2_is_datetime in_same_tz : Bool) (total_days : Int) : Bool :=\n"
                f"  {term}\n\n"
                "/-- body of the UTC-shift block, verbatim (works on datetime objects) -/\n"
                f"def shiftSource : String := {lean_str(src)}\n")

    emit("sign / swap", t_sign)
    emit("equality return", t_equal)
    emit("prelude", t_prelude)
    emit("total_days", t_total_days)
    emit("zone-name block", t_in_same_tz)
    emit("the arithmetic core", t_core)
    emit("the UTC-shift condition", t_shift)
    return finish()
