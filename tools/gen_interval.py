"""Translator: src/pendulum/interval.py  ->  lean/Pendulum/Gen/Interval.lean

A typed symbolic translator (in the style of gen_time.py / gen_startof.py) for the subset `Interval` is written in.
Translated, in source order (each a Lean definition in `Pendulum.Gen.Interval`):
  `Interval.__new__`    -> `new`       type checks and their exceptions, the `absolute` swap, the endpoints rebuilt as native
                                       values *with their folds*, the same-tzinfo UTC shift, `delta = _end - _start`; the result is
                                       the µs numerator of `delta.total_seconds()` handed to `Duration.__new__` as `seconds=`
  `Interval.__init__`   -> `init`      endpoint normalisation through `pendulum.instance` / `pendulum.date`, the native copies (no fold)
                                       handed to `precise_diff`, `_invert`, the `absolute` swap: the record `InitRes` of the attributes set
  properties            -> `p_years` … `p_microseconds`, `p_start`, `p_end`   (`Duration._sign` -> `sign`)
  `in_years/in_months/in_weeks/in_days`, `as_duration`
  `range`               -> `range_loop` (the `while` as a definition recursive over `fuel`) + `range`: the `method`/`op` choice,
                                       `yield`, the `try/except (...): break` around the step, `i += amount`
  `__iter__`, `__contains__`, `__neg__`, `__abs__`, `_getstate`, `__reduce__`, `__reduce_ex__`, `__deepcopy__`, `__hash__`, `__eq__`
  the arithmetic operators delegating to `as_duration()` -> the table `delegates` (+ class-level `aliases`).
Parameters of the generated definitions (what the code calls that is not interval.py source):
  `Env`  (for `new`/`init`, on concrete endpoints `Ep`): `gt` (`a > b` of datetime/date), `utcoffset`, `sub_td` (`x - timedelta`),
         `sub` (`a - b`), `pendulum_instance`;
  `Ops α` (for the methods that only move endpoints around): `le`, `ge` (`operator.le/ge`, `<=`), `call` (= `getattr(x, method)(**{unit: n})`),
         `deepcopy`.
An endpoint `Ep` = class (`Kind`: pendulum DateTime / pendulum Date / native datetime / native date), wall fields, fold, identity class of
its tzinfo (0 = None).  `isinstance` is `isinst kind Cls`.
Expressions also: `a if c else b` over values of one kind.
Statements: assignment (names, `self._x`, tuples), augmented assignment, `if`/`elif`/`else` (arms that only assign are merged into
conditional `let`s; otherwise the rest of the body is continued in both arms), `raise E(..)`, `return`, `while` + `yield` + `try/except` +
`break` (generator), `super().__init__()`.  Anything else is reported as a fallback, prefix "Interval:<group>:" with group = source | new | init | components |
endpoints | units | range | negabs | state, so that a property lists the groups its tie theorems depend on.
"""
from __future__ import annotations

import ast
import os
from pathlib import Path

REPO = Path(os.environ.get("VERIF_REPO", "/repo"))
F7 = ["year", "month", "day", "hour", "minute", "second", "microsecond"]
PD_FIELDS = ["years", "months", "days", "hours", "minutes", "seconds", "microseconds", "total_days"]
LEAN_KW = {"end", "from", "at", "in", "do", "then", "else", "if", "let", "have", "show", "fun", "match", "with", "where", "open",
           "instance", "class", "structure", "variable", "universe", "section", "namespace", "import", "def", "theorem", "local"}
DELEGATING = ["__add__", "__sub__", "__mul__", "__floordiv__", "__truediv__", "__mod__", "__divmod__"]
ALIASES = ["__radd__", "__rmul__", "__div__"]
CLASSES = {"datetime": "Cls.datetime", "date": "Cls.date", "pendulum.DateTime": "Cls.pDateTime", "pendulum.Date": "Cls.pDate"}
INIT_ATTRS = ["_invert", "_absolute", "_start", "_end", "_delta"]


class Bad(Exception):
    pass


class Impure(Exception):
    pass


def L(v):
    return f"({v} : Int)"


def lid(name):
    name = name.replace(".", "_")
    return name + "_" if name in LEAN_KW else name


# ----------------------------------------------------------------------------- values

class Val:
    ty = None

    def __init__(self, e):
        self.e = e


class I(Val):
    ty = "Int"


class Bv(Val):
    ty = "Bool"


class EPV(Val):                 # an endpoint; ty = "Ep" (concrete, fields readable) or "α"
    def __init__(self, e, ty):
        self.e, self.ty = e, ty


class TZV(Val):                 # `.tzinfo` of an endpoint: its identity class
    ty = "Int"


class TD(Val):                  # a timedelta, as microseconds
    ty = "Int"


class FS(Val):                  # float seconds (`total_seconds()`), as the microsecond numerator
    ty = "Int"


class DUR(Val):                 # `Duration(seconds=<FS>)` / `super().__new__(cls, seconds=<FS>)`: the µs numerator of its argument
    ty = "Int"


class METH(Val):
    ty = "Method"


class OPF(Val):                 # operator.le / operator.ge
    def __init__(self, e, ty):
        self.e, self.ty = e, f"{ty} → {ty} → Bool"


class SV(Val):
    ty = "String"


class TRI(Val):                 # (start, end, absolute)
    def __init__(self, e, ty):
        self.e, self.ty = e, f"{ty} × {ty} × Bool"


class PDV(Val):                 # a PreciseDiff record
    ty = "PDt"


class STRC:                     # a string literal
    def __init__(self, s):
        self.s = s


class TUPV:                     # a tuple literal
    def __init__(self, items):
        self.items = items


class PDC:                      # precise_diff(a, b), symbolic
    def __init__(self, a, b):
        self.a, self.b = a, b


class Fal:                      # a call that may raise: Lean term of type `Except String <ty>`; `mk(name)` = the bound value
    def __init__(self, e, mk):
        self.e, self.mk = e, mk


class SELFV:                    # `self` (or `other` narrowed to an Interval)
    def __init__(self, e):
        self.e = e


class OTHERV:                   # the operand of `__eq__`: `Option (Self α)`
    def __init__(self, e):
        self.e = e


class EQT:
    def __init__(self, l, r):
        self.l, self.r = l, r


class EQD:
    def __init__(self, d):
        self.d = d


class HASHV:
    def __init__(self, t):
        self.t = t


class Marker:
    def __init__(self, what):
        self.what = what


NONE, CLS, OPAQUE = Marker("None"), Marker("self.__class__"), Marker("opaque")


def atomic(e):
    return all(ch.isalnum() or ch in "_." for ch in e)


# ----------------------------------------------------------------------------- translator

class Tr:
    """translates one method; `A` = the Lean type of endpoints ("Ep" in `__new__`/`__init__`, "α" elsewhere)"""

    def __init__(self, G, A, kind, fname):
        self.G, self.A, self.kind, self.fname, self.n = G, A, kind, fname, 0
        self.aux = []
        self.rty = self.rcls = None
        self.uses_ops = self.uses_fuel = False

    def fresh(self, base):
        self.n += 1
        return f"{lid(base).strip('_') or 'v'}_{self.n}"

    # ---- result rendering per kind of method
    def ret(self, v):
        k = self.kind
        if k == "new":
            if isinstance(v, DUR):
                return f"(.ok {v.e})"
            raise Bad("`__new__` no longer returns `super().__new__(cls, seconds=delta.total_seconds())`")
        if k == "init":
            raise Bad("return in `__init__`")
        if k == "gen":
            raise Bad("return inside the generator")
        if isinstance(v, TUPV) and len(v.items) == 3 and isinstance(v.items[0], EPV) and isinstance(v.items[1], EPV) \
                and isinstance(v.items[2], Bv):
            v = TRI("(" + ", ".join(i.e for i in v.items) + ")", self.A)
        if isinstance(v, TUPV) and len(v.items) == 2 and v.items[0] is CLS and isinstance(v.items[1], TRI):
            v = v.items[1]                      # `(self.__class__, state)`: the class is recorded in the doc comment
        if isinstance(v, HASHV):
            v = v.t
        if isinstance(v, EQT):
            self.rty = f"EqRes {self.A}"
            return f"(EqRes.tuples {v.l} {v.r})"
        if isinstance(v, EQD):
            self.rty = f"EqRes {self.A}"
            return f"(EqRes.duration_eq {v.d})"
        if isinstance(v, Val) and v.ty:
            if getattr(self, "rty", None) not in (None, v.ty):
                raise Bad(f"returns both a {self.rty} and a {v.ty}")
            self.rty, self.rcls = v.ty, type(v)
            return v.e
        raise Bad("return of a value outside the subset")

    def raise_(self, name):
        if self.kind in ("new", "init"):
            return f'(.error "{name}")'
        if self.kind == "gen":
            return f'([], some "{name}")'
        raise Bad("raise in a method translated without an error channel")

    def propagate(self, errvar):
        if self.kind in ("new", "init"):
            return f"(.error {errvar})"
        if self.kind == "gen":
            return f"([], some {errvar})"
        raise Bad("a call that may raise in a method translated without an error channel")

    def fall(self, env):
        if self.kind == "init":
            return self.init_result(env)
        if self.kind == "gen":
            return "([], none)"
        raise Bad("control falls off the end of " + self.fname)

    def init_result(self, env):
        got = sorted(k[5:] for k in env if k.startswith("self."))
        if got != sorted(INIT_ATTRS):
            raise Bad(f"`__init__` sets the attributes {got}, expected {sorted(INIT_ATTRS)}")
        inv, ab, st, en, pd = (env["self." + a] for a in INIT_ATTRS)
        if not (isinstance(inv, Bv) and isinstance(ab, Bv) and isinstance(st, EPV) and isinstance(en, EPV) and isinstance(pd, PDC)):
            raise Bad("`__init__` attributes of an unexpected kind (`_delta` must be `precise_diff(a, b)`)")
        return f"(.ok (InitRes.mk {inv.e} {ab.e} {st.e} {en.e} {pd.a} {pd.b}))"

    # ---- expressions
    def ep(self, x, env, what):
        v = self.expr(x, env)
        if not isinstance(v, EPV):
            raise Bad(f"{what}: not an endpoint value: {ast.unparse(x)[:80]}")
        return v

    def cep(self, x, env, what):
        v = self.ep(x, env, what)
        if v.ty != "Ep":
            raise Bad(f"{what}: the fields of an abstract endpoint are not available here")
        return v

    def cond(self, x, env):
        v = self.expr(x, env)
        if isinstance(v, Bv):
            return v.e
        if isinstance(v, I):
            return f"(decide ({v.e} ≠ (0 : Int)))"
        raise Bad("condition outside the subset: " + ast.unparse(x)[:100])

    def expr(self, x, env):
        G = self.G
        if isinstance(x, ast.Constant):
            if isinstance(x.value, bool):
                return Bv("true" if x.value else "false")
            if isinstance(x.value, int):
                return I(L(x.value))
            if isinstance(x.value, str):
                return STRC(x.value)
            if x.value is None:
                return NONE
            raise Bad("constant " + repr(x.value))
        if isinstance(x, ast.Name):
            if x.id in env:
                return env[x.id]
            if x.id in G.consts:
                return I(L(G.consts[x.id]))
            if x.id == "Interval":
                return Marker("Interval")
            raise Bad("unknown name " + x.id)
        if isinstance(x, ast.Attribute):
            return self.attribute(x, env)
        if isinstance(x, ast.UnaryOp) and isinstance(x.op, ast.Not):
            return Bv(f"(!{self.cond(x.operand, env)})")
        if isinstance(x, ast.UnaryOp) and isinstance(x.op, ast.USub):
            v = self.expr(x.operand, env)
            if isinstance(v, I):
                return I(f"(-{v.e})")
        if isinstance(x, ast.BoolOp):
            op = " && " if isinstance(x.op, ast.And) else " || "
            return Bv("(" + op.join(self.cond(v, env) for v in x.values) + ")")
        if isinstance(x, ast.Compare):
            return self.compare(x, env)
        if isinstance(x, ast.BinOp):
            return self.binop(x, env)
        if isinstance(x, ast.Tuple):
            return TUPV([self.expr(e, env) for e in x.elts])
        if isinstance(x, ast.Call):
            return self.call(x, env)
        if isinstance(x, ast.IfExp):
            c = self.cond(x.test, env)
            a, b = self.expr(x.body, env), self.expr(x.orelse, env)
            if isinstance(a, STRC) and isinstance(b, STRC):
                a, b = self.meth_of(a), self.meth_of(b)
            if isinstance(a, Val) and isinstance(b, Val) and type(a) is type(b) and a.ty and a.ty == b.ty:
                return self.rebuild(a, f"(if {c} then {a.e} else {b.e})")
            raise Bad("conditional expression over values outside the subset: " + ast.unparse(x)[:100])
        raise Bad("expression outside the subset: " + ast.unparse(x)[:120])

    def attribute(self, x, env):
        G = self.G
        src = ast.unparse(x)
        if src in ("operator.le", "operator.ge"):
            G.need_import("operator")
            self.uses_ops = True
            return OPF("ops." + x.attr, self.A)
        if src in ("operator.lt", "operator.gt", "operator.eq", "operator.ne"):
            raise Bad(f"`{src}` is not one of the comparisons the loop is modelled with (operator.le / operator.ge)")
        v = self.expr(x.value, env) if not (isinstance(x.value, ast.Name) and x.value.id in ("pendulum", "operator", "copy")
                                           and x.value.id not in env) else None
        a = x.attr
        if isinstance(v, SELFV):
            if self.kind in ("new", "init"):
                raise Bad(f"`{src}` is read before the instance is built")
            fields = {"_start": EPV(f"{v.e}.start", self.A), "_end": EPV(f"{v.e}.end_", self.A),
                      "_absolute": Bv(f"{v.e}.absolute"), "_invert": Bv(f"{v.e}.invert"),
                      "_delta": PDV(f"{v.e}.delta"), "_days": I(f"{v.e}.days")}
            if a in fields:
                return fields[a]
            if a == "__class__":
                return CLS
            if a == "invert":
                G.check_duration_invert()
                return Bv(f"{v.e}.invert")
            if a in G.props:
                cls, _ = G.props[a]
                return cls(f"(p_{a} {v.e})", self.A) if cls in (EPV,) else cls(f"(p_{a} {v.e})")
            if G.is_property(a):
                raise Bad(f"property `{a}` could not be translated")
            raise Bad("unsupported attribute " + src)
        if isinstance(v, PDV) and a in PD_FIELDS:
            return I(f"{v.e}.{a}")
        if isinstance(v, EPV):
            if v.ty != "Ep":
                raise Bad(f"`{src}`: the fields of an abstract endpoint are not available here")
            if a in F7:
                return I(f"{v.e}.{a}")
            if a == "fold":
                return Bv(f"{v.e}.fold")
            if a == "tzinfo":
                return TZV(f"{v.e}.tz")
        raise Bad("attribute outside the subset: " + src[:100])

    def compare(self, x, env):
        if len(x.ops) > 1:                                     # a <= b <= c
            parts, left = [], x.left
            for o, r in zip(x.ops, x.comparators):
                parts.append(self.compare(ast.Compare(left=left, ops=[o], comparators=[r]), env).e)
                left = r
            return Bv("(" + " && ".join(parts) + ")")
        o, r = x.ops[0], x.comparators[0]
        a, b = self.expr(x.left, env), self.expr(r, env)
        if isinstance(o, (ast.Is, ast.IsNot)):
            neg = isinstance(o, ast.IsNot)
            if isinstance(a, TZV) and b is NONE:
                return Bv(f"(decide ({a.e} {'≠' if neg else '='} (0 : Int)))")
            if isinstance(a, TZV) and isinstance(b, TZV):
                return Bv(f"(decide ({a.e} {'≠' if neg else '='} {b.e}))")
            raise Bad("`is` test outside the subset: " + ast.unparse(x)[:100])
        sym = {ast.Eq: "=", ast.NotEq: "≠", ast.Lt: "<", ast.LtE: "≤", ast.Gt: ">", ast.GtE: "≥"}.get(type(o))
        if sym is None:
            raise Bad("comparison outside the subset: " + ast.unparse(x)[:100])
        if isinstance(a, (I, FS)) and isinstance(b, (I, FS)):
            return Bv(f"(decide ({a.e} {sym} {b.e}))")
        if isinstance(a, EPV) and isinstance(b, EPV):
            if self.A == "Ep":
                if sym == ">":
                    return Bv(f"(env.gt {a.e} {b.e})")
                raise Bad(f"endpoint comparison `{sym}` in `{self.fname}` (only `>` is a parameter here)")
            if sym in ("≤", "≥"):
                self.uses_ops = True
                return Bv(f"(ops.{'le' if sym == '≤' else 'ge'} {a.e} {b.e})")
            raise Bad(f"endpoint comparison `{sym}` (only `<=` / `>=` are parameters here)")
        if isinstance(o, ast.Eq):
            ta, tb = self.as_tri(a), self.as_tri(b)
            if ta is not None and tb is not None:
                return EQT(ta.e, tb.e)
            if isinstance(a, DUR) and b is OPAQUE:
                return EQD(a.e)
        raise Bad("comparison of values outside the subset: " + ast.unparse(x)[:100])

    def as_tri(self, v):
        if isinstance(v, TRI):
            return v
        if isinstance(v, TUPV) and len(v.items) == 3 and isinstance(v.items[0], EPV) and isinstance(v.items[1], EPV) \
                and isinstance(v.items[2], Bv):
            return TRI("(" + ", ".join(i.e for i in v.items) + ")", self.A)
        return None

    def binop(self, x, env):
        a, b = self.expr(x.left, env), self.expr(x.right, env)
        t = type(x.op)
        if isinstance(a, I) and isinstance(b, I):
            if t in (ast.Add, ast.Sub, ast.Mult):
                o = {ast.Add: "+", ast.Sub: "-", ast.Mult: "*"}[t]
                return I(f"({a.e} {o} {b.e})")
            if t in (ast.FloorDiv, ast.Mod):
                pos = isinstance(x.right, ast.Constant) and isinstance(x.right.value, int) and x.right.value > 0
                if not pos and isinstance(x.right, ast.Name) and x.right.id not in env:
                    pos = isinstance(self.G.consts.get(x.right.id), int) and self.G.consts[x.right.id] > 0
                if pos:
                    return I(f"({a.e} {'/' if t is ast.FloorDiv else '%'} {b.e})")
                return I(f"({'Int.fdiv' if t is ast.FloorDiv else 'Int.fmod'} {a.e} {b.e})")
        if t is ast.Sub and isinstance(a, EPV) and a.ty == "Ep":
            if isinstance(b, EPV):
                return Fal(f"(env.sub {a.e} {b.e})", TD)
            if isinstance(b, TD):
                return Fal(f"(env.sub_td {a.e} {b.e})", lambda n: EPV(n, "Ep"))
        raise Bad("arithmetic outside the subset: " + ast.unparse(x)[:100])

    def native(self, call, env, kind, nfields):
        kws = {k.arg: k.value for k in call.keywords}
        if None in kws or call.args and any(isinstance(a, ast.Starred) for a in call.args):
            raise Bad("`*`/`**` in " + ast.unparse(call)[:80])
        if len(call.args) != nfields:
            raise Bad(f"`{ast.unparse(call.func)}(...)` is not given exactly {nfields} positional fields")
        fs = []
        for a in call.args:
            v = self.expr(a, env)
            if not isinstance(v, I):
                raise Bad("field that is not an integer: " + ast.unparse(a)[:60])
            fs.append(v.e)
        fs += [L(0)] * (7 - len(fs))
        fold, tz = "false", L(0)
        allowed = {"tzinfo", "fold"} if nfields == 7 else set()
        if set(kws) - allowed:
            raise Bad(f"unexpected keywords {sorted(set(kws) - allowed)} in {ast.unparse(call.func)}(...)")
        if "tzinfo" in kws:
            t = self.expr(kws["tzinfo"], env)
            if isinstance(t, TZV):
                tz = t.e
            elif t is not NONE:
                raise Bad("tzinfo= is not the tzinfo of an endpoint")
        if "fold" in kws:
            f = self.expr(kws["fold"], env)
            if isinstance(f, Bv):
                fold = f.e
            elif isinstance(f, I) and f.e in (L(0), L(1)):
                fold = "true" if f.e == L(1) else "false"
            else:
                raise Bad("fold= is not the fold of an endpoint")
        return EPV(f"(Ep.mk {kind} " + " ".join(fs) + f" {fold} {tz})", "Ep")

    def ctor_args(self, call, env):
        names, defaults = self.G.new_sig
        if len(call.args) > len(names):
            raise Bad("too many arguments for the Interval constructor")
        got = dict(zip(names, call.args))
        for kw in call.keywords:
            if kw.arg is None or kw.arg not in names or kw.arg in got:
                raise Bad(f"unexpected keyword {kw.arg} for the Interval constructor")
            got[kw.arg] = kw.value
        vals = []
        for n in names:
            if n not in got:
                if n not in defaults:
                    raise Bad(f"constructor argument {n} missing")
                got[n] = defaults[n]
            vals.append(self.expr(got[n], env))
        if not (isinstance(vals[0], EPV) and isinstance(vals[1], EPV) and isinstance(vals[2], Bv)):
            raise Bad("constructor arguments of an unexpected kind: " + ast.unparse(call)[:100])
        return TRI("(" + ", ".join(v.e for v in vals) + ")", self.A)

    def step_call(self, recv, meth, call, env):
        if call.args or len(call.keywords) != 1 or call.keywords[0].arg is not None:
            raise Bad("the step is no longer called as `(**{unit: n})`: " + ast.unparse(call)[:100])
        d = call.keywords[0].value
        if not (isinstance(d, ast.Dict) and len(d.keys) == 1 and d.keys[0] is not None):
            raise Bad("the step is no longer called as `(**{unit: n})`: " + ast.unparse(call)[:100])
        u, n = self.expr(d.keys[0], env), self.expr(d.values[0], env)
        if isinstance(u, STRC):
            u = SV(f'"{u.s}"')
        if not (isinstance(u, SV) and isinstance(n, I) and isinstance(recv, EPV)):
            raise Bad("step call with arguments outside the subset: " + ast.unparse(call)[:100])
        if isinstance(meth, STRC):
            meth = self.meth_of(meth)
        if not isinstance(meth, METH):
            raise Bad("step call through a method name that is not `add`/`subtract`")
        self.uses_ops = True
        A = self.A
        return Fal(f"(ops.call {meth.e} {recv.e} {u.e} {n.e})", lambda nm: EPV(nm, A))

    @staticmethod
    def meth_of(s):
        if s.s in ("add", "subtract"):
            return METH("Method." + s.s)
        raise Bad(f'method name "{s.s}" is not add/subtract')

    def call(self, x, env):
        G = self.G
        f = x.func
        fsrc = ast.unparse(f)
        kws = {k.arg: k.value for k in x.keywords}
        if fsrc == "cast" and len(x.args) == 2 and not kws:
            G.need_from("typing", "cast")
            return self.expr(x.args[1], env)
        if fsrc == "isinstance" and len(x.args) == 2 and not kws:
            c = ast.unparse(x.args[1])
            if c not in CLASSES:
                raise Bad("isinstance against " + c)
            G.need_class(c)
            v = self.cep(x.args[0], env, "isinstance")
            return Bv(f"(isinst {v.e}.kind {CLASSES[c]})")
        if fsrc == "abs" and len(x.args) == 1 and not kws:
            v = self.expr(x.args[0], env)
            if isinstance(v, I):
                return I(f"(intAbs {v.e})")
        if fsrc == "datetime" and "datetime" not in env:
            G.need_class("datetime")
            return self.native(x, env, "Kind.ndt", 7)
        if fsrc == "date" and "date" not in env:
            G.need_class("date")
            return self.native(x, env, "Kind.ndate", 3)
        if fsrc == "pendulum.date":
            G.need_import("pendulum")
            return self.native(x, env, "Kind.pdate", 3)
        if fsrc == "pendulum.instance" and len(x.args) == 1 and not kws:
            G.need_import("pendulum")
            v = self.cep(x.args[0], env, "pendulum.instance")
            return Fal(f"(env.pendulum_instance {v.e})", lambda n: EPV(n, "Ep"))
        if fsrc == "precise_diff" and len(x.args) == 2 and not kws:
            G.need_from("pendulum.helpers", "precise_diff")
            a, b = self.cep(x.args[0], env, "precise_diff"), self.cep(x.args[1], env, "precise_diff")
            return PDC(a.e, b.e)
        if fsrc == "super().__new__":
            if len(x.args) == 1 and ast.unparse(x.args[0]) == "cls" and list(kws) == ["seconds"]:
                v = self.expr(kws["seconds"], env)
                if isinstance(v, FS):
                    G.check_base()
                    return DUR(v.e)
            raise Bad("`super().__new__` is no longer called as `(cls, seconds=<total_seconds>)`")
        if fsrc == "Duration" and "Duration" not in env:
            if not x.args and list(kws) == ["seconds"]:
                v = self.expr(kws["seconds"], env)
                if isinstance(v, FS):
                    G.need_from("pendulum.duration", "Duration")
                    return DUR(v.e)
            raise Bad("`Duration(...)` is no longer called as `(seconds=<total_seconds>)`")
        if fsrc == "hash" and len(x.args) == 1 and not kws:
            t = self.as_tri(self.expr(x.args[0], env))
            if t is not None:
                return HASHV(t)
        if fsrc == "copy.deepcopy" and len(x.args) == 2 and not kws:
            G.need_import("copy")
            v = self.ep(x.args[0], env, "copy.deepcopy")
            if env.get(ast.unparse(x.args[1])) is not OPAQUE:
                raise Bad("copy.deepcopy is not given the memo")
            self.uses_ops = True
            return EPV(f"(ops.deepcopy {v.e})", self.A)
        # getattr(recv, method)(**{unit: n})
        if isinstance(f, ast.Call) and ast.unparse(f.func) == "getattr" and len(f.args) == 2 and not f.keywords:
            return self.step_call(self.expr(f.args[0], env), self.expr(f.args[1], env), x, env)
        if isinstance(f, ast.Name) and isinstance(env.get(f.id), OPF) and len(x.args) == 2 and not kws:
            a, b = self.ep(x.args[0], env, "op(..)"), self.ep(x.args[1], env, "op(..)")
            return Bv(f"({env[f.id].e} {a.e} {b.e})")
        if isinstance(f, ast.Attribute):
            m = f.attr
            if fsrc == "self.__class__" or (isinstance(f.value, ast.Name) and False):
                return self.ctor_args(x, env)
            recv = self.expr(f.value, env)
            if isinstance(recv, Fal):                        # `<call that may raise>.method(..)`
                n = self.fresh("t")
                env2 = dict(env)
                env2["\x00recv"] = recv.mk(n)
                inner = self.call(ast.Call(func=ast.Attribute(value=ast.Name(id="\x00recv", ctx=ast.Load()), attr=m, ctx=ast.Load()),
                                           args=x.args, keywords=x.keywords), env2)
                if not (isinstance(inner, Val) and inner.ty):
                    raise Bad("method call on a call that may raise, outside the subset: " + ast.unparse(x)[:100])
                return Fal(f"(match {recv.e} with | Except.error err => (Except.error err : Except String {inner.ty}) "
                           f"| Except.ok {n} => Except.ok {inner.e})",
                           lambda nm, inner=inner: self.rebuild(inner, nm))
            if recv is CLS:
                raise Bad("class attribute call outside the subset: " + fsrc)
            if isinstance(recv, EPV) and m in ("add", "subtract") and x.keywords and x.keywords[0].arg is None:
                return self.step_call(recv, METH("Method." + m), x, env)
            if isinstance(recv, EPV) and recv.ty == "Ep" and m == "utcoffset" and not x.args and not kws:
                return TD(f"(env.utcoffset {recv.e})")
            if isinstance(recv, EPV) and recv.ty == "Ep" and m == "replace" and not x.args and list(kws) == ["tzinfo"] \
                    and self.expr(kws["tzinfo"], env) is NONE:
                return EPV(f"({{ {recv.e} with tz := (0 : Int) }} : Ep)", "Ep")
            if isinstance(recv, TD) and m == "total_seconds" and not x.args and not kws:
                return FS(recv.e)
            if isinstance(recv, SELFV):
                return self.self_call(recv, m, x, env)
        raise Bad("call outside the subset: " + ast.unparse(x)[:120])

    def self_call(self, recv, m, x, env):
        G = self.G
        kws = {k.arg: k.value for k in x.keywords}
        if m == "_sign" and len(x.args) == 1 and not kws:
            v = self.expr(x.args[0], env)
            if isinstance(v, I):
                G.need_def("sign")
                return I(f"(sign {v.e})")
        if m == "total_seconds" and not x.args and not kws:
            return FS(f"{recv.e}.total_seconds")
        if m in G.sigs:
            sig = G.sigs[m]
            names = [p[0] for p in sig["params"]]
            if len(x.args) > len(names) or None in kws:
                raise Bad(f"call of {m} outside the subset")
            got = dict(zip(names, x.args))
            for k, v in kws.items():
                if k not in names or k in got:
                    raise Bad(f"unexpected keyword {k} for {m}")
                got[k] = v
            terms = []
            for name, cls, default in sig["params"]:
                if name in got:
                    v = self.expr(got[name], env)
                    if isinstance(v, STRC) and cls is SV:
                        v = SV(f'"{v.s}"')
                    if v is OPAQUE and cls is Marker:
                        continue
                    if not isinstance(v, cls):
                        raise Bad(f"argument {name} of {m} has an unexpected kind")
                    terms.append(v.e)
                elif cls is Marker:
                    continue
                elif default is None:
                    raise Bad(f"argument {name} of {m} missing")
                else:
                    terms.append(default)
            head = [sig["lean"]]
            if sig["ops"]:
                head.append("ops")
                self.uses_ops = True
            head.append(recv.e)
            t = "(" + " ".join(head + terms + (["fuel"] if sig["fuel"] else [])) + ")"
            if sig["fuel"]:
                self.uses_fuel = True
            rc = sig["ret"]
            return rc(t, self.A) if rc in (EPV, TRI) else rc(t)
        raise Bad(f"call of self.{m}(...), which is not translated")

    # ---- statements
    def targets(self, t):
        if isinstance(t, ast.Name):
            return [t.id]
        if isinstance(t, ast.Attribute) and isinstance(t.value, ast.Name) and t.value.id == "self":
            if self.kind != "init":
                raise Bad("assignment to an attribute of self outside `__init__`")
            return ["self." + t.attr]
        if isinstance(t, ast.Tuple):
            out = []
            for e in t.elts:
                out += self.targets(e)
            return out
        raise Bad("assignment target outside the subset: " + ast.unparse(t)[:60])

    def bind(self, name, v, env):
        """-> (let-prefix, env') for `name = v` (v not fallible)"""
        env = dict(env)
        if isinstance(v, Val) and v.ty:
            if atomic(v.e):
                env[name] = v
                return "", env
            n = self.fresh(name)
            env[name] = self.rebuild(v, n)
            return f"let {n} : {v.ty} := {v.e};\n  ", env
        if isinstance(v, (STRC, PDC, Marker, SELFV)):
            env[name] = v
            return "", env
        raise Bad(f"assignment of a value outside the subset to {name}")

    def rebuild(self, v, n):
        if isinstance(v, EPV):
            return EPV(n, v.ty)
        if isinstance(v, OPF):
            return OPF(n, self.A)
        if isinstance(v, TRI):
            return TRI(n, self.A)
        return type(v)(n)

    def assign(self, s, env):
        """one (aug)assignment -> ("pure", lets, env) | ("fal", Fal, name)"""
        if isinstance(s, ast.AugAssign):
            if not isinstance(s.target, ast.Name):
                raise Bad("augmented assignment outside the subset")
            v = self.expr(ast.BinOp(left=ast.Name(id=s.target.id, ctx=ast.Load()), op=s.op, right=s.value), env)
            names = [s.target.id]
        else:
            tgt = s.targets[0] if isinstance(s, ast.Assign) else s.target
            if isinstance(s, ast.Assign) and len(s.targets) != 1:
                raise Bad("chained assignment")
            names = self.targets(tgt)
            v = self.expr(s.value, env)
            if isinstance(tgt, ast.Tuple):
                if isinstance(v, TUPV) and len(v.items) == len(names):
                    pre = ""
                    new = dict(env)
                    for nm, it in zip(names, v.items):          # all right-hand sides were evaluated in the old env
                        if isinstance(it, Fal):
                            raise Bad("a call that may raise inside a tuple assignment")
                        p, e2 = self.bind(nm, it, env)
                        pre += p
                        new[nm] = e2[nm]
                    return "pure", pre, new
                if isinstance(v, TRI) and len(names) == 3:
                    pre, r = "", v.e
                    new = dict(env)
                    if not atomic(r):
                        r = self.fresh("state")
                        pre = f"let {r} : {v.ty} := {v.e};\n  "
                    new[names[0]] = EPV(f"{r}.1", self.A)
                    new[names[1]] = EPV(f"{r}.2.1", self.A)
                    new[names[2]] = Bv(f"{r}.2.2")
                    return "pure", pre, new
                raise Bad("tuple assignment outside the subset: " + ast.unparse(s)[:100])
        if isinstance(v, Fal):
            return "fal", v, names[0]
        pre, env2 = self.bind(names[0], v, env)
        return "pure", pre, env2

    def is_assign(self, s):
        return isinstance(s, ast.AugAssign) or isinstance(s, ast.Assign) or (isinstance(s, ast.AnnAssign) and s.value is not None)

    def skip(self, s):
        if isinstance(s, ast.Expr) and isinstance(s.value, ast.Constant):
            return True
        if isinstance(s, ast.AnnAssign) and s.value is None:
            return True
        if isinstance(s, ast.Expr) and ast.unparse(s.value) == "super().__init__()" and self.kind == "init":
            self.G.check_base()
            return True
        if isinstance(s, ast.ImportFrom) and s.module == "pendulum.locales.locale":
            return True
        return False

    def pure_block(self, stmts, env):
        """assignment-only statements -> (lets, env'); raises Impure otherwise"""
        pre = ""
        for s in stmts:
            if self.skip(s):
                continue
            if self.is_assign(s):
                r = self.assign(s, env)
                if r[0] != "pure":
                    raise Impure()
                pre += r[1]
                env = r[2]
                continue
            if isinstance(s, ast.If) and not self.eq_special(s, env):
                c = self.cond(s.test, env)
                rt, re_ = self.pure_block(s.body, env), self.pure_block(s.orelse, env)
                p, env = self.merge(c, rt, re_, s, env)
                pre += p
                continue
            raise Impure()
        return pre, env

    def merge(self, c, rt, re_, s, env):
        (pt, et), (pe, ee) = rt, re_
        ws = []
        for st in list(s.body) + list(s.orelse):
            for w in self.assigned(st):
                if w not in ws:
                    ws.append(w)
        pre = pt + pe            # the arms only bind fresh names to total expressions: their `let`s are hoisted in front
        cn = None
        env2 = dict(env)
        for w in ws:
            if w not in et or w not in ee:
                env2.pop(w, None)                   # bound on one path only: local to that arm
                continue
            a, b = et[w], ee[w]
            if a is b:
                continue
            if isinstance(a, STRC) and isinstance(b, STRC):
                a, b = self.meth_of(a), self.meth_of(b)
            elif isinstance(a, STRC) and isinstance(b, METH):
                a = self.meth_of(a)
            elif isinstance(b, STRC) and isinstance(a, METH):
                b = self.meth_of(b)
            if not (isinstance(a, Val) and isinstance(b, Val) and type(a) is type(b) and a.ty == b.ty and a.ty):
                raise Bad(f"`{w}` is assigned values of different kinds in the arms of `if {ast.unparse(s.test)[:60]}`")
            if cn is None:
                cn = c
                if not atomic(c):
                    cn = self.fresh("c")
                    pre += f"let {cn} : Bool := {c};\n  "
            n = self.fresh(w)
            pre += f"let {n} : {a.ty} := if {cn} then {a.e} else {b.e};\n  "
            env2[w] = self.rebuild(a, n)
        return pre, env2

    def assigned(self, s):
        if isinstance(s, ast.Assign):
            return [n for t in s.targets for n in self.targets(t)]
        if isinstance(s, ast.AnnAssign) and s.value is not None:
            return self.targets(s.target)
        if isinstance(s, ast.AugAssign):
            return self.targets(s.target)
        if isinstance(s, ast.If):
            return [w for st in list(s.body) + list(s.orelse) for w in self.assigned(st)]
        if isinstance(s, ast.Try):
            return [w for st in list(s.body) + [b for h in s.handlers for b in h.body] for w in self.assigned(st)]
        return []

    def eq_special(self, s, env):
        t = s.test
        return (isinstance(t, ast.Call) and ast.unparse(t.func) == "isinstance" and len(t.args) == 2
                and isinstance(t.args[0], ast.Name) and isinstance(env.get(t.args[0].id), OTHERV)
                and ast.unparse(t.args[1]) == "Interval")

    def on_error(self, hs, errvar, env):
        if not hs:
            return self.propagate(errvar)
        return hs[-1](errvar, env, hs[:-1])

    def block(self, stmts, env, k, hs=()):
        if not stmts:
            return k(env)
        s, rest = stmts[0], stmts[1:]

        def cont(e):
            return self.block(rest, e, k, hs)
        if self.skip(s):
            return cont(env)
        if self.is_assign(s):
            r = self.assign(s, env)
            if r[0] == "pure":
                return r[1] + cont(r[2])
            _, fal, name = r
            n = self.fresh(name)
            env2 = dict(env)
            env2[name] = fal.mk(n)
            return (f"(match {fal.e} with\n  | .error err => {self.on_error(hs, 'err', env)}\n  | .ok {n} => ({cont(env2)}))")
        if isinstance(s, ast.Return):
            if s.value is None:
                raise Bad("bare return")
            v = self.expr(s.value, env)
            if isinstance(v, Fal):
                raise Bad("return of a call that may raise")
            return self.ret(v)
        if isinstance(s, ast.Raise):
            exc = s.exc
            name = exc.func.id if isinstance(exc, ast.Call) and isinstance(exc.func, ast.Name) else None
            if name is None or hs:
                raise Bad("raise outside the subset: " + ast.unparse(s)[:80])
            return self.raise_(name)
        if isinstance(s, ast.If):
            if self.eq_special(s, env):
                nm = s.test.args[0].id
                o = env[nm]
                yes, no = dict(env), dict(env)
                on = self.fresh("other_iv")
                yes[nm] = SELFV(on)
                no[nm] = OPAQUE
                th = self.block(list(s.body), yes, cont, hs)
                el = self.block(list(s.orelse), no, cont, hs)
                return f"(match {o.e} with\n  | some {on} => ({th})\n  | none => ({el}))"
            c = self.cond(s.test, env)
            n0 = self.n
            try:
                rt, re_ = self.pure_block(s.body, env), self.pure_block(s.orelse, env)
                p, env2 = self.merge(c, rt, re_, s, env)
                return p + cont(env2)
            except Impure:
                self.n = n0
            th = self.block(list(s.body), env, cont, hs)
            el = self.block(list(s.orelse), env, cont, hs)
            return f"if {c} then\n  ({th})\n  else\n  ({el})"
        if isinstance(s, ast.While) and self.kind == "gen" and not s.orelse:
            if rest:
                raise Bad("statements after the `while` loop of the generator")
            return self.loop(s, env)
        if isinstance(s, ast.Expr) and isinstance(s.value, ast.Yield) and self.kind == "gen" and self.in_loop:
            v = self.ep(s.value.value, env, "yield")
            return f"(ycons {v.e} ({cont(env)}))"
        if isinstance(s, ast.Break) and self.kind == "gen" and self.in_loop:
            return "([], none)"
        if isinstance(s, ast.Try) and self.kind == "gen":
            if s.orelse or s.finalbody or len(s.handlers) != 1 or s.handlers[0].name is not None:
                raise Bad("try statement outside the subset")
            h = s.handlers[0]
            ts = h.type.elts if isinstance(h.type, ast.Tuple) else ([h.type] if h.type is not None else None)
            if ts is None or not all(isinstance(t, ast.Name) for t in ts):
                raise Bad("except clause outside the subset (bare, or not exception names)")
            names = [t.id for t in ts]

            def handler(errvar, env_err, outer):
                test = " ∨ ".join(f'{errvar} = "{n}"' for n in names)
                return (f"if {test} then\n  ({self.block(list(h.body), env_err, cont, outer)})\n  else\n  "
                        f"({self.on_error(outer, errvar, env_err)})")
            return self.block(list(s.body), env, cont, hs + (handler,))
        raise Bad("statement outside the subset: " + ast.unparse(s)[:120])

    in_loop = False

    def loop(self, s, env):
        """`while c: <body>` of the generator -> an auxiliary definition recursive over `fuel`"""
        state = []
        for st in s.body:
            for w in self.assigned(st):
                if w not in state:
                    state.append(w)
        if not state or any(w not in env or not isinstance(env[w], Val) or not env[w].ty for w in state):
            raise Bad("while loop assigning a name unknown before the loop")
        used = {n.id for n in ast.walk(s) if isinstance(n, ast.Name)}
        # every non-state value visible in the loop becomes a parameter of the auxiliary definition: bind it to a plain name first
        env = dict(env)
        pre = ""
        for k, v in list(env.items()):
            if k in used and k not in state and isinstance(v, Val) and v.ty and not v.e.replace("_", "a").isalnum():
                n = self.fresh(k)
                pre += f"let {n} : {v.ty} := {v.e};\n  "
                env[k] = self.rebuild(v, n)
        params = [(k, v) for k, v in env.items() if k in used and k not in state and isinstance(v, Val) and v.ty]
        lname = f"{self.fname}_loop"
        sub = Tr(self.G, self.A, "gen", self.fname)
        sub.n = self.n
        sub.in_loop = True
        inner = {k: v for k, v in env.items() if k not in state}
        cur = []
        for w in state:
            n = sub.fresh(w)
            inner[w] = self.rebuild(env[w], n)
            cur.append(n)
        pnames = []
        for k, v in params:
            if v.e not in pnames:
                pnames.append(v.e)
        ptypes = {v.e: v.ty for _, v in params}
        fixed = "".join(f" ({p} : {ptypes[p]})" for p in pnames)
        fixed_args = "".join(f" {p}" for p in pnames)
        head = f"{lname} ops self{fixed_args}"

        def again(e):
            return f"{head} fuel " + " ".join(self.atom(e[w]) for w in state)
        c = sub.cond(s.test, inner)
        body = sub.block(list(s.body), inner, again)
        sty = " → ".join(env[w].ty if " " not in env[w].ty else f"({env[w].ty})" for w in state)
        self.aux.append(
            f"/-- the `while {ast.unparse(s.test)[:60]}:` loop of `{self.fname}`; `fuel` bounds the iterations; the result is the list of\n"
            f"    yielded values and the exception that escaped the generator, if any -/\n"
            f"def {lname} {{α : Type}} (ops : Ops α) (self : Self α){fixed} : Nat → {sty} → List {self.A} × Option String\n"
            f"  | 0, {', '.join(cur)} => ([], none)\n"
            f"  | fuel+1, {', '.join(cur)} =>\n  if {c} then\n  ({body})\n  else\n  ([], none)\n")
        self.aux += sub.aux
        self.n = sub.n
        self.uses_ops = self.uses_fuel = True
        return pre + f"({head} fuel " + " ".join(self.atom(env[w]) for w in state) + ")"

    @staticmethod
    def atom(v):
        return v.e if atomic(v.e) or v.e.startswith("(") else f"({v.e})"


# ----------------------------------------------------------------------------- the class being translated

HEADER = '''/-! GENERATED by tools/gen_interval.py from src/pendulum/interval.py — do not edit.

An endpoint `Ep` is described by its class (`Kind`), its wall fields, its fold and the identity class `tz` of its tzinfo object
(0 = `None`; equal numbers = the same object).  `isinst kind Cls` is Python's `isinstance` on the class lattice
`pendulum.DateTime <: pendulum.Date <: date`, `pendulum.DateTime <: datetime <: date`.
What the translated code calls that is not interval.py source is a field of a parameter record:
  `Env` (used by `new`, `init`):   gt a b                `a > b` (rich comparison of datetime / date)
                                   utcoffset x           `x.utcoffset()` in microseconds
                                   sub_td x us           `x - <timedelta of us microseconds>` (stdlib), or the exception name
                                   sub a b               `a - b` as microseconds (stdlib datetime / date subtraction)
                                   pendulum_instance x   `pendulum.instance(x)`
  `Ops α` (methods that only move endpoints around; α = the type of endpoints):
                                   le a b / ge a b       `operator.le(a, b)` = `a <= b` / `operator.ge(a, b)`
                                   call m x unit n       `getattr(x, m)(**{unit: n})` with m = add / subtract, or the exception name
                                   deepcopy x            `copy.deepcopy(x, memo)`
`Self α` = the attributes of an Interval the translated methods read: `_start`, `_end`, `_absolute`, `_invert`, `_delta`
(a `PreciseDiff`), `_days` (set by `Duration.__new__`), and the microsecond numerator of `self.total_seconds()`.
A float number of seconds is represented by its microsecond numerator.  `fuel` bounds the iterations of the `while` loop. -/
set_option linter.unusedVariables false
namespace Pendulum.Gen.Interval

/-- class of an endpoint: pendulum DateTime, pendulum Date, native datetime, native date -/
inductive Kind | pdt | pdate | ndt | ndate
deriving DecidableEq, Repr

inductive Cls | datetime | date | pDateTime | pDate
deriving DecidableEq, Repr

/-- `isinstance(x, C)` for `x` of class `k` -/
def isinst : Kind → Cls → Bool
  | _, .date => true
  | .pdt, .datetime => true
  | .ndt, .datetime => true
  | .pdt, .pDateTime => true
  | .pdt, .pDate => true
  | .pdate, .pDate => true
  | _, _ => false

structure Ep where
  kind : Kind
  year : Int
  month : Int
  day : Int
  hour : Int
  minute : Int
  second : Int
  microsecond : Int
  fold : Bool
  tz : Int
deriving DecidableEq, Repr

inductive Method | add | subtract
deriving DecidableEq, Repr

structure Env where
  gt : Ep → Ep → Bool
  utcoffset : Ep → Int
  sub_td : Ep → Int → Except String Ep
  sub : Ep → Ep → Except String Int
  pendulum_instance : Ep → Except String Ep

structure Ops (α : Type) where
  le : α → α → Bool
  ge : α → α → Bool
  call : Method → α → String → Int → Except String α
  deepcopy : α → α

/-- a `PreciseDiff` -/
structure PDt where
  years : Int
  months : Int
  days : Int
  hours : Int
  minutes : Int
  seconds : Int
  microseconds : Int
  total_days : Int
deriving DecidableEq, Repr

structure Self (α : Type) where
  start : α
  end_ : α
  absolute : Bool
  invert : Bool
  delta : PDt
  days : Int
  total_seconds : Int

/-- what `Interval.__init__` sets: `_invert`, `_absolute`, `_start`, `_end` and the two arguments of `precise_diff` (`_delta`) -/
structure InitRes where
  invert : Bool
  absolute : Bool
  start : Ep
  end_ : Ep
  pd_start : Ep
  pd_end : Ep
deriving DecidableEq, Repr

/-- what `__eq__` compares: two `(start, end, absolute)` tuples, or `self.as_duration()` with a foreign operand -/
inductive EqRes (α : Type)
  | tuples (l r : α × α × Bool)
  | duration_eq (d : Int)

/-- builtin `abs` on an int -/
def intAbs (x : Int) : Int := if x < 0 then -x else x

/-- `yield v` in front of the rest of the generator's run -/
def ycons {α : Type} (v : α) (r : List α × Option String) : List α × Option String := (v :: r.1, r.2)
'''


class Gx:
    def __init__(self, tree, dtree, consts_all):
        self.tree, self.dtree = tree, dtree
        self.cls = next(n for n in tree.body if isinstance(n, ast.ClassDef) and n.name == "Interval")
        self.dur = next(n for n in dtree.body if isinstance(n, ast.ClassDef) and n.name == "Duration")
        self.fns, self.props_src = {}, set()
        for n in self.cls.body:
            if isinstance(n, ast.FunctionDef) and not any(ast.unparse(d) == "overload" for d in n.decorator_list):
                self.fns.setdefault(n.name, n)
                if any(ast.unparse(d) == "property" for d in n.decorator_list):
                    self.props_src.add(n.name)
        self.imports, self.froms = set(), {}
        for n in tree.body:
            if isinstance(n, ast.Import):
                for a in n.names:
                    if a.asname is None:
                        self.imports.add(a.name)
            if isinstance(n, ast.ImportFrom):
                for a in n.names:
                    self.froms[a.asname or a.name] = (n.module, a.name)
        self.consts = {k: v for k, v in consts_all.items()
                       if self.froms.get(k) == ("pendulum.constants", k) and isinstance(v, int) and not isinstance(v, bool)}
        self.props, self.sigs, self.defs = {}, {}, set()
        self.new_sig = None

    def need_import(self, m):
        if m not in self.imports:
            raise Bad(f"the module `{m}` is no longer imported as such")

    def need_from(self, mod, name):
        if self.froms.get(name) != (mod, name):
            raise Bad(f"the name `{name}` is no longer `{mod}.{name}`")

    def need_class(self, c):
        if c in ("datetime", "date"):
            self.need_from("datetime", c)
        else:
            self.need_import("pendulum")

    def need_def(self, d):
        if d not in self.defs:
            raise Bad(f"depends on `{d}`, which could not be translated")

    def is_property(self, a):
        return a in self.props_src

    def check_base(self):
        bases = [ast.unparse(b) for b in self.cls.bases]
        if not bases or bases[0] != "Duration":
            raise Bad(f"Interval no longer derives from Duration first (bases {bases})")
        self.need_from("pendulum.duration", "Duration")

    def check_duration_invert(self):
        fn = next((n for n in self.dur.body if isinstance(n, ast.FunctionDef) and n.name == "invert"), None)
        want = "if self._invert is None:\n    self._invert = self.total_seconds() < 0\nreturn self._invert"
        if fn is None or "\n".join(ast.unparse(s) for s in body_of(fn)) != want or "invert" in self.fns:
            raise Bad("`Duration.invert` is no longer `self._invert` (computed lazily only when it is None)")

    def fn(self, name):
        if name not in self.fns:
            raise Bad("method not found")
        return self.fns[name]


def body_of(fn):
    return [s for s in fn.body if not (isinstance(s, ast.Expr) and isinstance(s.value, ast.Constant))]


def sig_of(fn, first="self"):
    a = fn.args
    if a.vararg or a.kwarg or a.kwonlyargs or a.posonlyargs:
        raise Bad("signature outside the subset")
    names = [x.arg for x in a.args]
    if not names or names[0] != first:
        raise Bad(f"first parameter is not {first}")
    names = names[1:]
    defaults = dict(zip(names[len(names) - len(a.defaults):], a.defaults)) if a.defaults else {}
    return names, defaults


def generate(changed, fallbacks, _write):
    from tools.gen_lean import GEN, py_constants
    out = [HEADER]

    def finish():
        out.append("end Pendulum.Gen.Interval\n")
        _write(GEN / "Interval.lean", "\n".join(out), changed)
        return 0

    try:
        tree = ast.parse((REPO / "src/pendulum/interval.py").read_text())
        dtree = ast.parse((REPO / "src/pendulum/duration.py").read_text())
        G = Gx(tree, dtree, py_constants())
    except (OSError, SyntaxError, StopIteration) as e:
        fallbacks.append(f"Interval:source: cannot read interval.py/duration.py: {e}")
        return finish()

    def emit(label, thunk, group):
        try:
            out.append(thunk())
        except (Bad, Impure, StopIteration, KeyError, IndexError, AttributeError, TypeError, OSError, SyntaxError) as e:
            msg = str(e) if isinstance(e, Bad) else repr(e)
            fallbacks.append(f"Interval:{group}: cannot translate {label}: {msg}")
            out.append(f"-- UNTRANSLATABLE {label}: {msg[:300]}\n")

    # ---- Duration._sign
    def t_sign():
        fn = next(n for n in G.dur.body if isinstance(n, ast.FunctionDef) and n.name == "_sign")
        names, defaults = sig_of(fn)
        if names != ["value"] or defaults or "_sign" in G.fns:
            raise Bad("signature / overridden in Interval")
        tr = Tr(G, "α", "pure", "_sign")
        term = tr.block(body_of(fn), {"self": SELFV("self"), "value": I("value")}, tr.fall)
        if tr.rty != "Int":
            raise Bad("does not return an int")
        G.defs.add("sign")
        return f"/-- `Duration._sign(value)` (duration.py) -/\ndef sign (value : Int) : Int :=\n  {term}\n"

    # ---- __new__ / __init__
    def t_ctor(name, kind, lean, rty, doc):
        def go():
            fn = G.fn(name)
            names, defaults = sig_of(fn, "cls" if name == "__new__" else "self")
            if names != ["start", "end", "absolute"] or list(defaults) != ["absolute"] \
                    or not (isinstance(defaults["absolute"], ast.Constant) and defaults["absolute"].value is False):
                raise Bad(f"signature {names} / defaults")
            if name == "__new__":
                G.new_sig = (names, defaults)
            tr = Tr(G, "Ep", kind, name)
            env = {"start": EPV("start", "Ep"), "end": EPV("end_", "Ep"), "absolute": Bv("absolute"), "self": SELFV("self")}
            term = tr.block(body_of(fn), env, tr.fall)
            return f"/-- {doc} -/\ndef {lean} (env : Env) (start : Ep) (end_ : Ep) (absolute : Bool) : Except String {rty} :=\n  {term}\n"
        return go

    # ---- methods on `Self α`
    def t_method(name, lean, doc, params=(), kind="pure", prop=False, want=None):
        """params: (python name, value class, Lean type, default term or None)"""
        def go():
            fn = G.fn(name)
            if (name in G.props_src) != prop:
                raise Bad("is a property" if not prop else "is no longer a property")
            names, defaults = sig_of(fn)
            if names != [p[0] for p in params]:
                raise Bad(f"signature {names}")
            env = {"self": SELFV("self")}
            dflt = {}
            for pname, cls, lty, dterm in params:
                if cls is Marker:
                    env[pname] = OPAQUE
                elif cls is OTHERV:
                    env[pname] = OTHERV(lid(pname))
                elif cls is EPV:
                    env[pname] = EPV(lid(pname), "α")
                else:
                    env[pname] = cls(lid(pname))
                if pname in defaults:
                    d = defaults[pname]
                    if cls is I and isinstance(d, ast.Constant) and isinstance(d.value, int):
                        dflt[pname] = L(d.value)
                    elif cls is Marker:
                        dflt[pname] = ""
                    else:
                        raise Bad(f"default of {pname}")
            tr = Tr(G, "α", kind, name if kind != "gen" else lean)
            term = tr.block(body_of(fn), env, tr.fall)
            if kind == "gen":
                rty, rcls = "List α × Option String", None
            else:
                rty, rcls = tr.rty, getattr(tr, "rcls", None)
            if want is not None and rcls is not want:
                raise Bad(f"returns a {rty}")
            pdecl = "".join(f" ({lid(p[0])} : {p[2]})" for p in params if p[1] is not Marker)
            ops = " (ops : Ops α)" if tr.uses_ops else ""
            fuel = " (fuel : Nat)" if tr.uses_fuel else ""
            if prop:
                G.props[name] = (rcls, rty)
            G.sigs[name] = dict(lean=lean, ops=tr.uses_ops, fuel=tr.uses_fuel, ret=rcls,
                                params=[(p[0], p[1], dflt.get(p[0])) for p in params])
            G.defs.add(lean)
            text = "".join(a + "\n" for a in tr.aux)
            return text + f"/-- {doc} -/\ndef {lean} {{α : Type}}{ops} (self : Self α){pdecl}{fuel} : {rty} :=\n  {term}\n"
        return go

    def t_delegates():
        rows = []
        for m in DELEGATING:
            fn = G.fn(m)
            names, defaults = sig_of(fn)
            b = body_of(fn)
            r = b[0].value if len(b) == 1 and isinstance(b[0], ast.Return) else None
            ok = (names == ["other"] and not defaults and isinstance(r, ast.Call) and isinstance(r.func, ast.Attribute)
                  and ast.unparse(r.func.value) == "self.as_duration()" and len(r.args) == 1 and not r.keywords
                  and ast.unparse(r.args[0]) == "other")
            if not ok:
                raise Bad(f"`{m}` is no longer `return self.as_duration().<op>(other)`")
            rows.append(f'("{m}", "{r.func.attr}")')
        G.need_def("as_duration")
        al = []
        for n in G.cls.body:
            if isinstance(n, ast.Assign) and len(n.targets) == 1 and isinstance(n.targets[0], ast.Name) \
                    and n.targets[0].id.startswith("__") and isinstance(n.value, ast.Name):
                al.append(f'("{n.targets[0].id}", "{n.value.id}")')
        return ("/-- arithmetic operators: (method, the method of `self.as_duration()` it returns the result of, applied to `other`) -/\n"
                "def delegates : List (String × String) :=\n  [" + ", ".join(rows) + "]\n\n"
                "/-- class-level aliases `__radd__ = __add__` … -/\ndef aliases : List (String × String) :=\n  [" + ", ".join(al) + "]\n")

    emit("Duration._sign", t_sign, "components")
    emit("Interval.__new__", t_ctor(
        "__new__", "new", "new", "Int",
        "`Interval.__new__(cls, start, end, absolute)`: the exception raised, or the microsecond numerator of "
        "`delta.total_seconds()` handed to\n    `Duration.__new__(cls, seconds=..)`"), "new")
    emit("Interval.__init__", t_ctor(
        "__init__", "init", "init", "InitRes",
        "`Interval.__init__(self, start, end, absolute)`: the attributes it sets (`_delta = precise_diff(pd_start, pd_end)`)"), "init")
    for p in ("years", "months", "weeks", "days", "remaining_days", "hours", "minutes", "remaining_seconds", "microseconds"):
        emit(f"property {p}", t_method(p, "p_" + p, f"property `{p}`", prop=True, want=I), "components")
    for p in ("start", "end"):
        emit(f"property {p}", t_method(p, "p_" + p, f"property `{p}`", prop=True, want=EPV), "endpoints")
    emit("Interval.in_years", t_method("in_years", "in_years", "`in_years()`", want=I), "units")
    emit("Interval.in_months", t_method("in_months", "in_months", "`in_months()`", want=I), "units")
    emit("Interval.in_days", t_method("in_days", "in_days", "`in_days()`", want=I), "units")
    emit("Interval.in_weeks", t_method("in_weeks", "in_weeks", "`in_weeks()`", want=I), "units")
    emit("Interval.range", t_method(
        "range", "range", "`range(unit, amount)`: the values the generator yields (at most `fuel` of them) and the exception that "
        "escapes it, if any", params=(("unit", SV, "String", None), ("amount", I, "Int", None)), kind="gen"), "range")
    emit("Interval.as_duration", t_method(
        "as_duration", "as_duration", "`as_duration()` = `Duration(seconds=self.total_seconds())`: the microsecond numerator of its argument",
        want=DUR), "state")
    emit("Interval.__iter__", lambda: t_iter(G), "range")
    emit("Interval.__contains__", t_method("__contains__", "contains", "`item in self`", params=(("item", EPV, "α", None),), want=Bv),
         "range")
    emit("Interval.__neg__", t_method("__neg__", "op_neg", "`-self`: the arguments of `self.__class__(..)`", want=TRI), "negabs")
    emit("arithmetic operators", t_delegates, "state")
    emit("Interval.__abs__", t_method("__abs__", "op_abs", "`abs(self)`: the arguments of `self.__class__(..)`", want=TRI), "negabs")
    emit("Interval._getstate", t_method("_getstate", "getstate", "`_getstate(protocol)`: (start, end, absolute)",
                                        params=(("protocol", I, "Int", None),), want=TRI), "state")
    emit("Interval.__reduce_ex__", t_method("__reduce_ex__", "reduce_ex", "`__reduce_ex__(protocol)` = `(self.__class__, <this>)`",
                                            params=(("protocol", I, "Int", None),), want=TRI), "state")
    emit("Interval.__reduce__", t_method("__reduce__", "reduce", "`__reduce__()` = `(self.__class__, <this>)`", want=TRI), "state")
    emit("Interval.__deepcopy__", t_method("__deepcopy__", "deepcopy", "`__deepcopy__(memo)`: the arguments of `self.__class__(..)`",
                                           params=(("memo", Marker, "", None),), want=TRI), "state")
    emit("Interval.__hash__", t_method("__hash__", "hash_key", "`__hash__()`: the tuple that is hashed", want=TRI), "state")
    emit("Interval.__eq__", t_method("__eq__", "op_eq", "`self == other`; `other` = `some o` when it is an Interval",
                                     params=(("other", OTHERV, "Option (Self α)", None),)), "state")
    return finish()


def t_iter(G):
    fn = G.fn("__iter__")
    b = body_of(fn)
    names, defaults = sig_of(fn)
    r = b[0].value if len(b) == 1 and isinstance(b[0], ast.Return) else None
    if names or not (isinstance(r, ast.Call) and ast.unparse(r.func) == "self.range" and not r.keywords and len(r.args) == 1
                     and isinstance(r.args[0], ast.Constant) and isinstance(r.args[0].value, str)):
        raise Bad('`__iter__` is no longer `return self.range("<unit>")`')
    if "range" not in G.defs:
        raise Bad("depends on `range`, which could not be translated")
    d = G.sigs["range"]["params"][1][2]
    if d is None:
        raise Bad("`range` has no default amount")
    return ("/-- `__iter__()` -/\ndef iter {α : Type} (ops : Ops α) (self : Self α) (fuel : Nat) : List α × Option String :=\n"
            f'  (range ops self "{r.args[0].value}" {d} fuel)\n')


if __name__ == "__main__":
    import json
    import sys
    sys.path.insert(0, str(Path(__file__).resolve().parent.parent))
    from tools.gen_lean import _write
    ch, fb = [], []
    generate(ch, fb, _write)
    print(json.dumps(dict(changed=ch, fallbacks=fb), indent=1))
