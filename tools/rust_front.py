"""A small front end for the Rust subset used by rust/src/parsing.rs and the PyO3 glue: tokenizer + recursive-descent
parser producing plain tuples.  Used by tools/gen_isors.py.  Anything it cannot parse raises `Bad`.

file      -> dict(consts={name: (type, expr)}, structs={name: [(field, type, attr_text)]}, fns={qualified name: Fn})
types     -> ("path", name, [args]) | ("ref", lifetime|None, mut, type) | ("tuple", [types]) | ("slice", type)
stmts     -> ("let", pat, type|None, expr|None, else_block|None) | ("assign", lhs, op, rhs) | ("expr", e) | ("tail", e)
             | ("return", e|None) | ("break",)
exprs     -> ("num", int) | ("char", str) | ("byte", int) | ("str", str) | ("path", name) | ("field", e, name)
             | ("mcall", e, name, [args]) | ("call", e, [args]) | ("index", e, e) | ("un", op, e) | ("bin", op, l, r)
             | ("cast", e, type) | ("try", e) | ("tuple", [e]) | ("struct", name, [(field, e)]) | ("ref", mut, e)
             | ("range", lo, hi, inclusive) | ("closure", [names], e) | ("macro", name, [token lists])
             | ("if", cond, then_block, else_block|None) | ("iflet", pat, e, then_block, else_block|None)
             | ("match", e, [(pat, body_block)]) | ("while", cond, block) | ("whilelet", pat, e, block)
             | ("loop", block) | ("for", pat, e, block) | ("block", stmts)
patterns  -> ("pwild",) | ("pbind", name) | ("plit", expr) | ("ptuple", [p]) | ("pts", path, [p]) | ("ppath", name)
             | ("por", [p])
"""
from __future__ import annotations

import re


class Bad(Exception):
    pass


TOK = re.compile(r"""(?:
    (?P<num>\d[\d_]*(?:[iu](?:8|16|32|64|128|size))?)
  | (?P<byte>b'(?:[^'\\]|\\.)')
  | (?P<char>'(?:[^'\\]|\\.)')
  | (?P<life>'[A-Za-z_][A-Za-z0-9_]*)
  | (?P<id>[A-Za-z_][A-Za-z0-9_]*)
  | (?P<str>"(?:[^"\\]|\\.)*")
  | (?P<op>\.\.=|\.\.|::|->|=>|==|!=|<=|>=|&&|\|\||\+=|-=|\*=|/=|%=|[-+*/%<>()\[\]{};:,.=!&|?\#@])
)""", re.X)

ESC = {"n": "\n", "t": "\t", "r": "\r", "0": "\0", "\\": "\\", "'": "'", '"': '"'}


def unescape(s):
    out, i = [], 0
    while i < len(s):
        if s[i] == "\\":
            if s[i + 1] not in ESC:
                raise Bad("escape sequence \\" + s[i + 1])
            out.append(ESC[s[i + 1]])
            i += 2
        else:
            out.append(s[i])
            i += 1
    return "".join(out)


def strip_comments(src):
    out, i, n = [], 0, len(src)
    while i < n:
        c = src[i]
        if c == '"':
            j = i + 1
            while src[j] != '"':
                j += 2 if src[j] == "\\" else 1
            out.append(src[i:j + 1])
            i = j + 1
        elif c == "'" and i + 2 < n and (src[i + 2] == "'" or (src[i + 1] == "\\" and src[i + 3] == "'")):
            j = i + (3 if src[i + 1] == "\\" else 2)
            out.append(src[i:j + 1])
            i = j + 1
        elif src.startswith("//", i):
            while i < n and src[i] != "\n":
                i += 1
        elif src.startswith("/*", i):
            j = src.find("*/", i + 2)
            if j < 0:
                raise Bad("unterminated block comment")
            out.append(" ")
            i = j + 2
        else:
            out.append(c)
            i += 1
    return "".join(out)


def tokenize(src):
    src = strip_comments(src)
    pos, out = 0, []
    ws = re.compile(r"\s*")
    while True:
        pos = ws.match(src, pos).end()
        if pos >= len(src):
            return out
        m = TOK.match(src, pos)
        if not m:
            raise Bad("cannot tokenize at: " + src[pos:pos + 30])
        pos = m.end()
        k = m.lastgroup
        v = m.group(k)
        if k == "num":
            v = re.sub(r"[iu](8|16|32|64|128|size)$", "", v).replace("_", "")
        elif k == "char":
            v = unescape(v[1:-1])
        elif k == "byte":
            v = str(ord(unescape(v[2:-1])))
        elif k == "str":
            v = unescape(v[1:-1])
        out.append((k, v))


def untok(toks):
    def one(t):
        if t[0] == "char":
            return repr(t[1])
        if t[0] == "str":
            return '"' + t[1].replace("\\", "\\\\").replace('"', '\\"') + '"'
        if t[0] == "byte":
            return f"b'{chr(int(t[1]))}'"
        return t[1]
    return " ".join(one(t) for t in toks)


OPEN = {"(": ")", "[": "]", "{": "}"}
CLOSE = {")", "]", "}"}


class Fn:
    def __init__(self, name, owner, params, ret, body, attrs):
        self.name, self.owner, self.params, self.ret, self.body, self.attrs = name, owner, params, ret, body, attrs


class RP:
    def __init__(self, toks):
        self.t, self.i = toks, 0

    # ------------------------------------------------------------------ token helpers
    def peek(self, k=0):
        return self.t[self.i + k] if self.i + k < len(self.t) else ("eof", "")

    def at(self, v, k=0):
        tk = self.peek(k)
        return tk[0] in ("op", "id") and tk[1] == v

    def eat(self, v=None, kind=None):
        tk = self.peek()
        if (v is not None and not (tk[0] in ("op", "id") and tk[1] == v)) or (kind is not None and tk[0] != kind):
            raise Bad(f"expected {v or kind}, got {tk[1]!r} near: {untok(self.t[max(0, self.i - 6):self.i + 4])}")
        self.i += 1
        return tk

    def match_close(self, i):
        depth = 0
        for j in range(i, len(self.t)):
            if self.t[j][0] == "op" and self.t[j][1] in OPEN:
                depth += 1
            elif self.t[j][0] == "op" and self.t[j][1] in CLOSE:
                depth -= 1
                if depth == 0:
                    return j
        raise Bad("unbalanced brackets")

    def attrs(self):
        out = []
        while self.at("#"):
            j = self.i + 1
            if self.t[j] == ("op", "!"):
                j += 1
            k = self.match_close(j)
            out.append(untok(self.t[self.i:k + 1]))
            self.i = k + 1
        return out

    # ------------------------------------------------------------------ items
    def file(self):
        consts, structs, fns, order = {}, {}, {}, []
        while self.peek()[0] != "eof":
            at = self.attrs()
            if self.at("pub"):
                self.eat()
                if self.at("("):
                    self.i = self.match_close(self.i) + 1
            if self.at("use"):
                while not self.at(";"):
                    self.i += 1
                self.eat(";")
            elif self.at("const") or self.at("static"):
                self.eat()
                name = self.eat(kind="id")[1]
                self.eat(":")
                ty = self.type()
                self.eat("=")
                e = self.expr()
                self.eat(";")
                consts[name] = (ty, e)
            elif self.at("struct"):
                self.eat()
                name = self.eat(kind="id")[1]
                self.generics()
                structs[name] = (self.struct_fields(), at)
            elif self.at("impl"):
                self.eat()
                self.generics()
                first = self.type()
                owner, trait = first, None
                if self.at("for"):
                    self.eat()
                    trait, owner = first, self.type()
                oname = owner[1]
                self.eat("{")
                while not self.at("}"):
                    fat = self.attrs()
                    if self.at("pub"):
                        self.eat()
                    f = self.fn(oname, fat)
                    key = f"{oname}::{f.name}" if trait is None else f"{oname}::{trait[1].split('::')[-1]}::{f.name}"
                    fns[key] = f
                    order.append(key)
                self.eat("}")
            elif self.at("fn"):
                f = self.fn(None, at)
                fns[f.name] = f
                order.append(f.name)
            else:
                raise Bad(f"item not supported near: {untok(self.t[self.i:self.i + 8])}")
        return dict(consts=consts, structs=structs, fns=fns, order=order)

    def generics(self):
        if self.at("<"):
            depth = 0
            while True:
                if self.at("<"):
                    depth += 1
                elif self.at(">"):
                    depth -= 1
                self.i += 1
                if depth == 0:
                    return

    def struct_fields(self):
        self.eat("{")
        out = []
        while not self.at("}"):
            at = self.attrs()
            if self.at("pub"):
                self.eat()
            name = self.eat(kind="id")[1]
            self.eat(":")
            ty = self.type()
            out.append((name, ty, " ".join(at)))
            if self.at(","):
                self.eat()
        self.eat("}")
        return out

    def fn(self, owner, attrs):
        self.eat("fn")
        name = self.eat(kind="id")[1]
        self.generics()
        self.eat("(")
        params = []
        while not self.at(")"):
            pat = self.attrs()
            if self.at("&"):
                self.eat()
                life = None
                if self.peek()[0] == "life":
                    life = self.eat()[1]
                mut = False
                if self.at("mut"):
                    self.eat()
                    mut = True
                self.eat("self")
                params.append(("self", ("ref", life, mut, ("path", owner, [])), " ".join(pat)))
            elif self.at("self"):
                self.eat()
                params.append(("self", ("path", owner, []), " ".join(pat)))
            else:
                if self.at("mut"):
                    self.eat()
                pn = self.eat(kind="id")[1]
                self.eat(":")
                params.append((pn, self.type(), " ".join(pat)))
            if self.at(","):
                self.eat()
        self.eat(")")
        ret = ("tuple", [])
        if self.at("->"):
            self.eat()
            ret = self.type()
        close = self.match_close(self.i)
        try:
            body, err = self.block(), None
        except Bad as e:                      # the body is outside the subset: only this function is lost
            body, err = None, str(e)
            self.i = close + 1
        f = Fn(name, owner, params, ret, body, attrs)
        f.error = err
        return f

    # ------------------------------------------------------------------ types
    def type(self):
        if self.at("&"):
            self.eat()
            life = None
            if self.peek()[0] == "life":
                life = self.eat()[1]
            mut = False
            if self.at("mut"):
                self.eat()
                mut = True
            return ("ref", life, mut, self.type())
        if self.at("("):
            self.eat()
            items = []
            while not self.at(")"):
                items.append(self.type())
                if self.at(","):
                    self.eat()
            self.eat(")")
            return ("tuple", items)
        if self.at("["):
            self.eat()
            inner = self.type()
            if self.at(";"):
                self.eat()
                self.expr()
            self.eat("]")
            return ("slice", inner)
        name = self.eat(kind="id")[1]
        while self.at("::") and self.peek(1)[0] == "id":
            self.eat()
            name += "::" + self.eat()[1]
        args = []
        if self.at("<"):
            self.eat()
            while not self.at(">"):
                if self.peek()[0] == "life":
                    self.eat()
                else:
                    args.append(self.type())
                if self.at(","):
                    self.eat()
            self.eat(">")
        return ("path", name, args)

    # ------------------------------------------------------------------ statements
    def block(self):
        self.eat("{")
        out = []
        while not self.at("}"):
            out.append(self.stmt())
        self.eat("}")
        # a block-like expression in last position is the block's value
        if out and out[-1][0] == "expr" and out[-1][1][0] in BLOCKLIKE and out[-1][2] is False:
            out[-1] = ("tail", out[-1][1])
        return [s[:2] if s[0] == "expr" else s for s in out]

    def stmt(self):
        if self.at("let"):
            self.eat()
            pat = self.pat()
            ty = None
            if self.at(":"):
                self.eat()
                ty = self.type()
            e = None
            if self.at("="):
                self.eat()
                e = self.expr()
            els = None
            if self.at("else"):
                self.eat()
                els = self.block()
            self.eat(";")
            return ("let", pat, ty, e, els)
        if self.at("return"):
            self.eat()
            e = None if self.at(";") or self.at("}") else self.expr()
            if self.at(";"):
                self.eat()
            return ("return", e)
        if self.at("break"):
            self.eat()
            if self.at(";"):
                self.eat()
            return ("break",)
        e = self.expr(stmt=True)
        tk = self.peek()
        if tk[0] == "op" and tk[1] in ("=", "+=", "-=", "*=", "/=", "%="):
            self.eat()
            r = self.expr()
            self.eat(";")
            return ("assign", e, tk[1], r)
        if self.at(";"):
            self.eat()
            return ("expr", e, True)
        if e[0] in BLOCKLIKE:
            return ("expr", e, False)
        if self.at("}"):
            return ("tail", e)
        raise Bad(f"statement form not supported near {untok(self.t[self.i:self.i + 6])!r}")

    # ------------------------------------------------------------------ patterns
    def pat(self):
        items = [self.pat1()]
        while self.at("|"):
            self.eat()
            items.append(self.pat1())
        return items[0] if len(items) == 1 else ("por", items)

    def pat1(self):
        tk = self.peek()
        if self.at("&"):
            self.eat()
            return self.pat1()
        if self.at("mut"):
            self.eat()
            return ("pbind", self.eat(kind="id")[1])
        if self.at("_"):
            self.eat()
            return ("pwild",)
        if tk[0] in ("char", "byte", "num", "str"):
            self.eat()
            return ("plit", (tk[0], int(tk[1]) if tk[0] in ("byte", "num") else tk[1]))
        if self.at("-") and self.peek(1)[0] == "num":
            self.eat()
            return ("plit", ("num", -int(self.eat()[1])))
        if self.at("("):
            self.eat()
            items = []
            while not self.at(")"):
                items.append(self.pat())
                if self.at(","):
                    self.eat()
            self.eat(")")
            return ("ptuple", items)
        if tk[0] == "id":
            self.eat()
            name = tk[1]
            while self.at("::") and self.peek(1)[0] == "id":
                self.eat()
                name += "::" + self.eat()[1]
            if self.at("("):
                self.eat()
                items = []
                while not self.at(")"):
                    items.append(self.pat())
                    if self.at(","):
                        self.eat()
                self.eat(")")
                return ("pts", name, items)
            if name[:1].isupper() or "::" in name:
                return ("ppath", name)
            return ("pbind", name)
        raise Bad(f"pattern not supported near {tk[1]!r}")

    # ------------------------------------------------------------------ expressions
    BIN = [("||",), ("&&",), ("==", "!=", "<", ">", "<=", ">="), ("|",), ("+", "-"), ("*", "/", "%")]

    def expr(self, nostruct=False, stmt=False):
        l = self.binexpr(nostruct, 0, stmt)
        if self.at("..") or self.at("..="):
            inc = self.eat()[1] == "..="
            r = self.binexpr(nostruct, 0, False)
            return ("range", l, r, inc)
        return l

    def binexpr(self, nostruct, lvl, stmt=False):
        if lvl == len(self.BIN):
            return self.unary(nostruct, stmt)
        l = self.binexpr(nostruct, lvl + 1, stmt)
        if stmt and l[0] in BLOCKLIKE:
            return l                          # `if … { }` in statement position ends the expression
        while self.peek()[0] == "op" and self.peek()[1] in self.BIN[lvl]:
            o = self.eat()[1]
            r = self.binexpr(nostruct, lvl + 1)
            l = ("bin", o, l, r)
            if lvl == 2:
                break
        return l

    def unary(self, nostruct, stmt=False):
        if self.at("-") or self.at("!") or self.at("*"):
            o = self.eat()[1]
            return ("un", o, self.unary(nostruct))
        if self.at("&"):
            self.eat()
            mut = False
            if self.at("mut"):
                self.eat()
                mut = True
            return ("ref", mut, self.unary(nostruct))
        e = self.postfix(nostruct, stmt)
        while self.at("as"):
            self.eat()
            e = ("cast", e, self.type())
        return e

    def args(self):
        self.eat("(")
        out = []
        while not self.at(")"):
            out.append(self.expr())
            if self.at(","):
                self.eat()
        self.eat(")")
        return out

    def postfix(self, nostruct, stmt=False):
        e = self.atom(nostruct)
        if stmt and e[0] in BLOCKLIKE:
            return e
        while True:
            if self.at("."):
                self.eat()
                tk = self.eat()
                name = tk[1]
                if self.at("::"):
                    self.eat()
                    self.generics()
                if self.at("("):
                    e = ("mcall", e, name, self.args())
                else:
                    e = ("field", e, name)
            elif self.at("("):
                e = ("call", e, self.args())
            elif self.at("["):
                self.eat()
                ix = self.expr()
                self.eat("]")
                e = ("index", e, ix)
            elif self.at("?"):
                self.eat()
                e = ("try", e)
            else:
                return e

    def macro_args(self):
        """token lists of the comma separated arguments of a macro call (cursor at the opening bracket)"""
        close = self.match_close(self.i)
        inner = self.t[self.i + 1:close]
        self.i = close + 1
        out, cur, depth = [], [], 0
        for tk in inner:
            if tk[0] == "op" and tk[1] in OPEN:
                depth += 1
            elif tk[0] == "op" and tk[1] in CLOSE:
                depth -= 1
            if tk == ("op", ",") and depth == 0:
                out.append(cur)
                cur = []
            else:
                cur.append(tk)
        if cur:
            out.append(cur)
        return out

    def atom(self, nostruct):
        tk = self.peek()
        if tk[0] == "num":
            self.eat()
            return ("num", int(tk[1]))
        if tk[0] == "char":
            self.eat()
            return ("char", tk[1])
        if tk[0] == "byte":
            self.eat()
            return ("byte", int(tk[1]))
        if tk[0] == "str":
            self.eat()
            return ("str", tk[1])
        if tk == ("op", "("):
            self.eat()
            items, tuple_ = [], False
            while not self.at(")"):
                items.append(self.expr())
                if self.at(","):
                    self.eat()
                    tuple_ = True
            self.eat(")")
            return ("tuple", items) if tuple_ or not items else ("paren", items[0])
        if tk == ("op", "{"):
            return ("block", self.block())
        if tk == ("op", "||"):
            self.eat()
            return ("closure", [], self.expr())
        if tk == ("op", "|"):
            self.eat()
            names = []
            while not self.at("|"):
                names.append(self.eat(kind="id")[1])
                if self.at(","):
                    self.eat()
            self.eat("|")
            return ("closure", names, self.expr())
        if tk[0] == "id":
            if tk[1] == "if":
                return self.ifexpr()
            if tk[1] == "match":
                self.eat()
                scrut = self.expr(nostruct=True)
                self.eat("{")
                arms = []
                while not self.at("}"):
                    p = self.pat()
                    self.eat("=>")
                    if self.at("{"):
                        body = self.block()
                    elif self.at("return"):
                        self.eat()
                        body = [("return", self.expr())]
                    else:
                        e = self.expr()
                        body = [("tail", e)]
                    if self.at(","):
                        self.eat()
                    arms.append((p, body))
                self.eat("}")
                return ("match", scrut, arms)
            if tk[1] == "while":
                self.eat()
                if self.at("let"):
                    self.eat()
                    p = self.pat()
                    self.eat("=")
                    e = self.expr(nostruct=True)
                    return ("whilelet", p, e, self.block())
                c = self.expr(nostruct=True)
                return ("while", c, self.block())
            if tk[1] == "loop":
                self.eat()
                return ("loop", self.block())
            if tk[1] == "for":
                self.eat()
                p = self.pat()
                self.eat("in")
                e = self.expr(nostruct=True)
                return ("for", p, e, self.block())
            self.eat()
            name = tk[1]
            while self.at("::") and self.peek(1)[0] == "id":
                self.eat()
                name += "::" + self.eat()[1]
            if self.at("!") and self.peek(1)[0] == "op" and self.peek(1)[1] in OPEN:
                self.eat()
                return ("macro", name, self.macro_args())
            if self.at("{") and not nostruct and name[:1].isupper():
                self.eat()
                fs = []
                while not self.at("}"):
                    f = self.eat(kind="id")[1]
                    if self.at(":"):
                        self.eat()
                        fs.append((f, self.expr()))
                    else:
                        fs.append((f, ("path", f)))
                    if self.at(","):
                        self.eat()
                self.eat("}")
                return ("struct", name, fs)
            return ("path", name)
        raise Bad(f"unexpected token {tk[1]!r} near: {untok(self.t[max(0, self.i - 6):self.i + 4])}")

    def ifexpr(self):
        self.eat("if")
        if self.at("let"):
            self.eat()
            p = self.pat()
            self.eat("=")
            e = self.expr(nostruct=True)
            th = self.block()
            el = self.elsepart()
            return ("iflet", p, e, th, el)
        c = self.expr(nostruct=True)
        th = self.block()
        return ("if", c, th, self.elsepart())

    def elsepart(self):
        if not self.at("else"):
            return None
        self.eat()
        if self.at("if"):
            return [("tail", self.ifexpr())]
        return self.block()


BLOCKLIKE = {"if", "iflet", "match", "while", "whilelet", "loop", "for", "block"}


def parse_file(src):
    return RP(tokenize(src)).file()


def parse_expr_tokens(toks):
    p = RP(list(toks))
    e = p.expr()
    if p.peek()[0] != "eof":
        raise Bad("trailing tokens in macro argument: " + untok(toks))
    return e


def parse_pat_tokens(toks):
    p = RP(list(toks))
    e = p.pat()
    if p.peek()[0] != "eof":
        raise Bad("trailing tokens in pattern: " + untok(toks))
    return e
