"""Translator: `helpers.add_duration` (src/pendulum/helpers.py)  ->  lean/Pendulum/Gen/AddDuration.lean

Every top-level statement of the function becomes one Lean definition `ad_s<k>` (so that the proofs can treat the
carry steps one at a time), and `add_duration` chains them. Supported subset:
  integer expressions over the arguments and `dt.year/.month/.day`: + - *, unary -, abs(x), _sign(x) (checked to be
  `int(copysign(1, x))`), divmod(a, b) with tuple unpacking, min(a, b), `DAYS_PER_MONTHS[int(is_leap(y))][m]`,
  comparisons, truthiness of an integer, `any([...])`, and/or/not, the date-instance test
  `isinstance(dt, date) and not isinstance(dt, datetime)`;
  statements: (aug)assignment, if/elif/else with assignments, `raise E(...)`, `dt = dt.replace(year=, month=, day=)`,
  `return dt + timedelta(days=, hours=, minutes=, seconds=, microseconds=)`.
The result is `Except String (year, month, day, days, hours, minutes, seconds, microseconds)`: the replaced date
fields and the arguments handed to `timedelta`. Anything else is a fallback (prefix "AddDuration:").
"""
from __future__ import annotations

import ast
import os
from pathlib import Path

REPO = Path(os.environ.get("VERIF_REPO", "/repo"))
ARGS = ["years", "months", "weeks", "days", "hours", "minutes", "seconds", "microseconds"]


class Bad(Exception):
    pass


def L(v):
    return f"({v} : Int)"


class X:
    """expression translator over an environment name -> lean name"""

    def __init__(self, env):
        self.env = env

    def i(self, x):
        if isinstance(x, ast.Constant) and isinstance(x.value, int) and not isinstance(x.value, bool):
            return L(x.value)
        if isinstance(x, ast.Name):
            if x.id in self.env:
                return self.env[x.id]
            raise Bad("unknown name " + x.id)
        if isinstance(x, ast.Attribute) and isinstance(x.value, ast.Name) and x.value.id == "dt" and x.attr in ("year", "month", "day"):
            return "dt_" + x.attr
        if isinstance(x, ast.UnaryOp) and isinstance(x.op, ast.USub):
            return f"(-{self.i(x.operand)})"
        if isinstance(x, ast.BinOp) and type(x.op) in (ast.Add, ast.Sub, ast.Mult):
            o = {ast.Add: "+", ast.Sub: "-", ast.Mult: "*"}[type(x.op)]
            return f"({self.i(x.left)} {o} {self.i(x.right)})"
        if isinstance(x, ast.Call) and isinstance(x.func, ast.Name):
            f = x.func.id
            if f == "abs" and len(x.args) == 1:
                a = self.i(x.args[0])
                return f"(if {a} < 0 then -{a} else {a})"
            if f == "_sign" and len(x.args) == 1:
                a = self.i(x.args[0])
                return f"(if {a} < 0 then (-1 : Int) else 1)"
            if f == "min" and len(x.args) == 2:
                return f"(min {self.i(x.args[0])} {self.i(x.args[1])})"
            if f == "int" and len(x.args) == 1:
                return self.i(x.args[0])
        if isinstance(x, ast.Subscript) and isinstance(x.value, ast.Subscript) and isinstance(x.value.value, ast.Name) \
                and x.value.value.id == "DAYS_PER_MONTHS":
            sel = x.value.slice
            if isinstance(sel, ast.Call) and isinstance(sel.func, ast.Name) and sel.func.id == "int" \
                    and isinstance(sel.args[0], ast.Call) and isinstance(sel.args[0].func, ast.Name) and sel.args[0].func.id == "is_leap":
                y = self.i(sel.args[0].args[0])
                m = self.i(x.slice)
                return f"(if is_leap {y} then py_DAYS_PER_MONTHS_1 {m} else py_DAYS_PER_MONTHS_0 {m})"
        raise Bad("integer expression outside the subset: " + ast.dump(x)[:160])

    def b(self, x):
        if isinstance(x, ast.Compare) and len(x.ops) == 1:
            o = {ast.Gt: ">", ast.Lt: "<", ast.GtE: "≥", ast.LtE: "≤", ast.Eq: "=", ast.NotEq: "≠"}.get(type(x.ops[0]))
            if o:
                return f"(decide ({self.i(x.left)} {o} {self.i(x.comparators[0])}))"
        if isinstance(x, ast.BoolOp):
            src = ast.unparse(x)
            if src.startswith("isinstance(dt, date) and (not isinstance(dt, datetime))") or \
               src.startswith("isinstance(dt, date) and not isinstance(dt, datetime)"):
                rest = x.values[2:]
                parts = ["isDate"] + [self.b(v) for v in rest]
                return "(" + " && ".join(parts) + ")"
            op = " && " if isinstance(x.op, ast.And) else " || "
            return "(" + op.join(self.b(v) for v in x.values) + ")"
        if isinstance(x, ast.UnaryOp) and isinstance(x.op, ast.Not):
            return f"(!{self.b(x.operand)})"
        if isinstance(x, ast.Call) and isinstance(x.func, ast.Name) and x.func.id == "any" and isinstance(x.args[0], ast.List):
            return "(" + " || ".join(f"(decide ({self.i(e)} ≠ 0))" for e in x.args[0].elts) + ")"
        if isinstance(x, (ast.Name, ast.Attribute)):
            return f"(decide ({self.i(x)} ≠ 0))"       # truthiness of an integer
        raise Bad("condition outside the subset: " + ast.dump(x)[:160])


def assigned(stmts):
    out = []
    for s in stmts:
        if isinstance(s, ast.Assign):
            for t in s.targets:
                if isinstance(t, ast.Tuple):
                    out += [e.id for e in t.elts]
                elif isinstance(t, ast.Name):
                    out.append(t.id)
        elif isinstance(s, ast.AugAssign) and isinstance(s.target, ast.Name):
            out.append(s.target.id)
        elif isinstance(s, ast.If):
            out += assigned(s.body) + assigned(s.orelse)
    seen, res = set(), []
    for n in out:
        if n not in seen:
            seen.add(n)
            res.append(n)
    return res


def tup(names):
    return names[0] if len(names) == 1 else "(" + ", ".join(names) + ")"


def proj(r, k, n):
    if n == 1:
        return r
    return r + ".2" * k + (".1" if k < n - 1 else "")


class Blk:
    def __init__(self):
        self.n = 0

    def fresh(self, base):
        self.n += 1
        return f"{base}_{self.n}"

    def run(self, stmts, env, writes):
        """lean expression: value of the tuple `writes` after executing stmts in env"""
        if not stmts:
            return tup([env[w] for w in writes])
        s, rest = stmts[0], stmts[1:]
        x = X(env)
        if isinstance(s, ast.Assign) and len(s.targets) == 1:
            t = s.targets[0]
            if isinstance(t, ast.Tuple) and isinstance(s.value, ast.Call) and isinstance(s.value.func, ast.Name) \
                    and s.value.func.id == "divmod" and len(t.elts) == 2:
                a, bb = x.i(s.value.args[0]), x.i(s.value.args[1])
                q, r = self.fresh(t.elts[0].id), self.fresh(t.elts[1].id)
                env = dict(env, **{t.elts[0].id: q, t.elts[1].id: r})
                return f"let {q} : Int := {a} / {bb}\n    let {r} : Int := {a} % {bb}\n    {self.run(rest, env, writes)}"
            if isinstance(t, ast.Name):
                n = self.fresh(t.id)
                v = x.i(s.value)
                env = dict(env, **{t.id: n})
                return f"let {n} : Int := {v}\n    {self.run(rest, env, writes)}"
        if isinstance(s, ast.AugAssign) and isinstance(s.target, ast.Name) and type(s.op) in (ast.Add, ast.Sub):
            o = "+" if isinstance(s.op, ast.Add) else "-"
            n = self.fresh(s.target.id)
            v = f"({env[s.target.id]} {o} {x.i(s.value)})"
            env = dict(env, **{s.target.id: n})
            return f"let {n} : Int := {v}\n    {self.run(rest, env, writes)}"
        if isinstance(s, ast.If):
            ws = [w for w in assigned([s]) if w in env]
            if not ws:
                raise Bad("if-statement without effect")
            c = x.b(s.test)
            th = self.run(list(s.body), env, ws)
            el = self.run(list(s.orelse), env, ws)
            r = self.fresh("r")
            env2 = dict(env)
            lets = [f"let {r} := if {c} then\n      ({th})\n    else\n      ({el})"]
            for k, w in enumerate(ws):
                n = self.fresh(w)
                lets.append(f"let {n} : Int := {proj(r, k, len(ws))}")
                env2[w] = n
            return "\n    ".join(lets) + "\n    " + self.run(rest, env2, writes)
        raise Bad("statement outside the subset: " + ast.dump(s)[:160])


def generate(changed, fallbacks, _write):
    from tools.gen_lean import GEN
    out = ["import Pendulum.Gen.Helpers",
           "/-! GENERATED by tools/gen_addduration.py from src/pendulum/helpers.py (`add_duration`) — do not edit.",
           "One definition per top-level statement (`ad_s<k>`), chained by `add_duration`. -/",
           "namespace Pendulum.Gen", ""]
    try:
        tree = ast.parse((REPO / "src/pendulum/helpers.py").read_text())
        fns = [n for n in tree.body if isinstance(n, ast.FunctionDef) and n.name == "add_duration" and not n.decorator_list]
        if len(fns) != 1:
            raise Bad("add_duration not found exactly once")
        fn = fns[0]
        if [a.arg for a in fn.args.args] != ["dt"] + ARGS:
            raise Bad("unexpected signature")
        sg = next(n for n in tree.body if isinstance(n, ast.FunctionDef) and n.name == "_sign")
        if ast.unparse(sg.body[-1]) != "return int(copysign(1, x))":
            raise Bad("_sign is no longer int(copysign(1, x))")
        body = [s for s in fn.body if not (isinstance(s, ast.Expr) and isinstance(s.value, ast.Constant))]
        live = ["dt_year", "dt_month", "dt_day"] + ARGS         # variable names defined so far (python names)
        env_names = {a: a for a in ARGS}
        main = []
        k = 0
        fields = None
        ret = None
        for s in body:
            k += 1
            if isinstance(s, ast.If) and len(s.body) == 1 and isinstance(s.body[0], ast.Raise) and not s.orelse:
                exc = s.body[0].exc
                name = exc.func.id if isinstance(exc, ast.Call) else ast.unparse(exc)
                cond = X({**env_names}).b(s.test)
                params = " ".join(f"({v} : Int)" for v in ["dt_year", "dt_month", "dt_day"] + [env_names[a] for a in env_names])
                out.append(f"def ad_s{k} (isDate : Bool) {params} : Bool :=\n    {cond}\n")
                args = " ".join(["isDate", "dt_year", "dt_month", "dt_day"] + [env_names[a] for a in env_names])
                main.append(("raise", f"ad_s{k} {args}", name))
                continue
            if isinstance(s, ast.Assign) and isinstance(s.targets[0], ast.Name) and s.targets[0].id == "dt" \
                    and isinstance(s.value, ast.Call) and isinstance(s.value.func, ast.Attribute) and s.value.func.attr == "replace":
                kws = {kw.arg: kw.value for kw in s.value.keywords}
                if set(kws) != {"year", "month", "day"}:
                    raise Bad("dt.replace with unexpected keywords")
                x = X(env_names)
                fields = tuple(x.i(kws[f]) for f in ("year", "month", "day"))
                continue
            if isinstance(s, ast.Return):
                v = s.value
                ok = (isinstance(v, ast.BinOp) and isinstance(v.op, ast.Add) and isinstance(v.left, ast.Name) and v.left.id == "dt"
                      and isinstance(v.right, ast.Call) and isinstance(v.right.func, ast.Name) and v.right.func.id == "timedelta")
                if not ok:
                    raise Bad("return is not `dt + timedelta(...)`")
                kws = {kw.arg: kw.value for kw in v.right.keywords}
                if set(kws) != {"days", "hours", "minutes", "seconds", "microseconds"} or v.right.args:
                    raise Bad("timedelta called with unexpected arguments")
                x = X(env_names)
                ret = tuple(x.i(kws[f]) for f in ("days", "hours", "minutes", "seconds", "microseconds"))
                continue
            ws = assigned([s])
            new = [w for w in ws if w not in env_names]
            if isinstance(s, ast.If):
                ws = [w for w in ws if w in env_names]
            params_py = list(env_names)
            params = " ".join(f"({v} : Int)" for v in ["dt_year", "dt_month", "dt_day"] + params_py)
            blk = Blk()
            term = blk.run([s], {a: a for a in params_py}, ws)
            ty = " × ".join(["Int"] * len(ws))
            out.append(f"def ad_s{k} {params} : {ty} :=\n    {term}\n")
            args = " ".join(["dt_year", "dt_month", "dt_day"] + [env_names[a] for a in params_py])
            main.append(("step", f"ad_s{k} {args}", ws, k))
            for w in ws:
                env_names[w] = f"{w}_{k}"
        if fields is None or ret is None:
            raise Bad("dt.replace(...) / return dt + timedelta(...) not found")
        # main definition
        lines = []
        for m in main:
            if m[0] == "raise":
                lines.append(f"if {m[1]} then .error \"{m[2]}\" else")
            else:
                _, call, ws, kk = m
                r = f"r{kk}"
                lines.append(f"let {r} := {call}")
                for j, w in enumerate(ws):
                    lines.append(f"let {w}_{kk} : Int := {proj(r, j, len(ws))}")
        lines.append(".ok (" + ", ".join(fields + ret) + ")")
        params = " ".join(f"({v} : Int)" for v in ARGS)
        out.append("def add_duration (dt_year dt_month dt_day : Int) (isDate : Bool) " + params +
                   " :\n    Except String (Int × Int × Int × Int × Int × Int × Int × Int) :=\n  " + "\n  ".join(lines) + "\n")
    except (Bad, StopIteration, OSError, SyntaxError) as e:
        fallbacks.append(f"AddDuration: cannot translate helpers.add_duration: {e}")
        out.append(f"-- UNTRANSLATABLE: {str(e)[:300]}")
    out += ["end Pendulum.Gen", ""]
    _write(GEN / "AddDuration.lean", "\n".join(out), changed)
    return 0
