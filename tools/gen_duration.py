"""Translator: the integer core of src/pendulum/duration.py  ->  lean/Pendulum/Gen/Duration.lean

Translated (each one a Lean definition in `Pendulum.Gen.Duration`):
  `_divide_and_round(a, b)`                       -> `divide_and_round`
  `Duration._sign(value)`                         -> `sign`
  `Duration.__new__`: the positional arguments handed to `timedelta.__new__`          -> `new_native_args`
                      the normalisation that follows it (the `self._x = ...` slots)   -> `new_slots`
                      the `_signature` dict (values in the fixed key order)           -> `new_signature`
  properties `hours`, `minutes`, `remaining_seconds` (the cached body)               -> `hours`, `minutes`, `remaining_seconds`
  `_to_microseconds`, `_native_microseconds`       -> `to_microseconds`, `native_microseconds`
  module functions `_native_microseconds` / `_timedelta_to_microseconds` (plain-timedelta branch)
                                                  -> `td_native_microseconds`, `td_to_microseconds`
Subset: integer expressions (+ - *, unary -, `//` and `%` — by a positive constant as Lean `/` `%`, otherwise as
`Int.fdiv`/`Int.fmod` —, `abs`, `int(x)` of an integer, `self._sign(x)`, `divmod` with tuple unpacking, constants of
constants.py, `self._attr`, `timedelta.<slot>.__get__(self)`), comparisons, and/or/not, conditional expressions,
statements: (aug)assignment, one-armed `if` with (aug)assignments, `return`.
`self._total = total_us / US_PER_SECOND` (a float) is emitted as the numerator only (`total_us`), the division is
recorded in the doc comment. Anything else is a fallback (prefix "Duration:").
"""
from __future__ import annotations

import ast
import os
from pathlib import Path

REPO = Path(os.environ.get("VERIF_REPO", "/repo"))
NEW_ARGS = ["days", "seconds", "microseconds", "milliseconds", "minutes", "hours", "weeks", "years", "months"]
SLOTS = ["_total", "_years", "_months", "_weeks", "_days", "_remaining_days", "_seconds", "_microseconds"]
SIG_KEYS = ["years", "months", "weeks", "days", "hours", "minutes", "seconds", "microseconds"]
NATIVE = {"days": "nd", "seconds": "ns", "microseconds": "nus"}


class Bad(Exception):
    pass


def L(v):
    return f"({v} : Int)"


class X:
    def __init__(self, env, consts):
        self.env, self.consts = dict(env), consts

    def const_val(self, x):
        if isinstance(x, ast.Constant) and isinstance(x.value, int) and not isinstance(x.value, bool):
            return x.value
        if isinstance(x, ast.Name) and x.id not in self.env and isinstance(self.consts.get(x.id), int):
            return self.consts[x.id]
        if isinstance(x, ast.BinOp) and isinstance(x.op, ast.Mult):
            a, b = self.const_val(x.left), self.const_val(x.right)
            if a is not None and b is not None:
                return a * b
        return None

    def i(self, x):
        cv = self.const_val(x)
        if cv is not None:
            return L(cv)
        if isinstance(x, ast.Name):
            if x.id in self.env:
                return self.env[x.id]
            raise Bad("unknown name " + x.id)
        if isinstance(x, ast.Attribute) and isinstance(x.value, ast.Name) and x.value.id == "self":
            k = "self." + x.attr
            if k in self.env:
                return self.env[k]
            raise Bad("unknown attribute " + k)
        if isinstance(x, ast.UnaryOp) and isinstance(x.op, ast.USub):
            return f"(-{self.i(x.operand)})"
        if isinstance(x, ast.BinOp):
            a, b = self.i(x.left), self.i(x.right)
            if type(x.op) in (ast.Add, ast.Sub, ast.Mult):
                o = {ast.Add: "+", ast.Sub: "-", ast.Mult: "*"}[type(x.op)]
                return f"({a} {o} {b})"
            if type(x.op) in (ast.FloorDiv, ast.Mod):
                rv = self.const_val(x.right)
                if rv is not None and rv > 0:
                    o = "/" if isinstance(x.op, ast.FloorDiv) else "%"
                    return f"({a} {o} {b})"
                f = "Int.fdiv" if isinstance(x.op, ast.FloorDiv) else "Int.fmod"
                return f"({f} {a} {b})"
        if isinstance(x, ast.Call):
            f = x.func
            if isinstance(f, ast.Name) and f.id == "abs" and len(x.args) == 1:
                a = self.i(x.args[0])
                return f"(if {a} < 0 then -{a} else {a})"
            if isinstance(f, ast.Name) and f.id == "int" and len(x.args) == 1:
                return self.i(x.args[0])          # int() of an integer-valued expression
            if isinstance(f, ast.Attribute) and f.attr == "_sign" and ast.unparse(f.value) == "self" and len(x.args) == 1:
                return f"(sign {self.i(x.args[0])})"
            # timedelta.<slot>.__get__(self)
            if (isinstance(f, ast.Attribute) and f.attr == "__get__" and isinstance(f.value, ast.Attribute)
                    and ast.unparse(f.value.value) == "timedelta" and f.value.attr in NATIVE
                    and len(x.args) == 1 and ast.unparse(x.args[0]) == "self"):
                return NATIVE[f.value.attr]
        if isinstance(x, ast.IfExp):
            return f"(if {self.b(x.test)} then {self.i(x.body)} else {self.i(x.orelse)})"
        raise Bad("integer expression outside the subset: " + ast.unparse(x)[:120])

    def b(self, x):
        if isinstance(x, ast.Name) and x.id in self.env and self.env[x.id].startswith("b!"):
            return self.env[x.id][2:]
        if isinstance(x, ast.BoolOp):
            op = " && " if isinstance(x.op, ast.And) else " || "
            return "(" + op.join(self.b(v) for v in x.values) + ")"
        if isinstance(x, ast.UnaryOp) and isinstance(x.op, ast.Not):
            return f"(!{self.b(x.operand)})"
        if isinstance(x, ast.Compare) and len(x.ops) == 1:
            o = {ast.Eq: "=", ast.NotEq: "≠", ast.Lt: "<", ast.LtE: "≤", ast.Gt: ">", ast.GtE: "≥"}.get(type(x.ops[0]))
            if o:
                return f"(decide ({self.i(x.left)} {o} {self.i(x.comparators[0])}))"
        if isinstance(x, ast.IfExp):
            return f"(if {self.b(x.test)} then {self.b(x.body)} else {self.b(x.orelse)})"
        raise Bad("boolean expression outside the subset: " + ast.unparse(x)[:120])


class Blk:
    """statement list -> nested `let`s; `ret(env)` produces the final term"""

    def __init__(self, consts):
        self.consts, self.n = consts, 0

    def fresh(self, base):
        self.n += 1
        return f"{base.strip('_').replace('.', '_')}_{self.n}"

    def isbool(self, v):
        return isinstance(v, (ast.Compare, ast.BoolOp)) or (isinstance(v, ast.IfExp) and self.isbool(v.body)) \
            or (isinstance(v, ast.UnaryOp) and isinstance(v.op, ast.Not))

    def target(self, t):
        if isinstance(t, ast.Name):
            return t.id
        if isinstance(t, ast.Attribute) and isinstance(t.value, ast.Name) and t.value.id == "self":
            return "self." + t.attr
        raise Bad("assignment target outside the subset: " + ast.unparse(t))

    def assign(self, name, value_term, env, isb=False):
        n = self.fresh(name)
        env = dict(env)
        env[name] = ("b!" + n) if isb else n
        ty = "Bool" if isb else "Int"
        return f"let {n} : {ty} := {value_term}\n  ", env

    def run(self, stmts, env, ret, skip=()):
        if not stmts:
            return ret(env)
        s, rest = stmts[0], stmts[1:]
        x = X(env, self.consts)
        if isinstance(s, ast.Expr) and isinstance(s.value, ast.Constant):
            return self.run(rest, env, ret, skip)
        if isinstance(s, ast.Return):
            return x.i(s.value)
        if isinstance(s, ast.AnnAssign) and s.value is not None:
            s = ast.Assign(targets=[s.target], value=s.value)
        if isinstance(s, ast.Assign) and len(s.targets) == 1:
            t = s.targets[0]
            if isinstance(t, ast.Tuple) and len(t.elts) == 2 and isinstance(s.value, ast.Call) \
                    and isinstance(s.value.func, ast.Name) and s.value.func.id == "divmod" and len(s.value.args) == 2:
                a, b = s.value.args
                q = ast.BinOp(left=a, op=ast.FloorDiv(), right=b)
                r = ast.BinOp(left=a, op=ast.Mod(), right=b)
                l1, env1 = self.assign(self.target(t.elts[0]), x.i(q), env)
                l2, env2 = self.assign(self.target(t.elts[1]), x.i(r), env1)
                return l1 + l2 + self.run(rest, env2, ret, skip)
            name = self.target(t)
            if name in skip:
                return self.run(rest, env, ret, skip)
            if name == "self._total":
                v = s.value
                if not (isinstance(v, ast.BinOp) and isinstance(v.op, ast.Div)
                        and x.const_val(v.right) == 1000000):
                    raise Bad("self._total is no longer `<int> / US_PER_SECOND`")
                l, env1 = self.assign(name, x.i(v.left), env)
                return l + self.run(rest, env1, ret, skip)
            if isinstance(s.value, ast.Dict):
                env = dict(env)
                env[name] = s.value
                return self.run(rest, env, ret, skip)
            isb = self.isbool(s.value)
            l, env1 = self.assign(name, x.b(s.value) if isb else x.i(s.value), env, isb)
            return l + self.run(rest, env1, ret, skip)
        if isinstance(s, ast.AugAssign) and type(s.op) in (ast.Add, ast.Sub, ast.Mult):
            name = self.target(s.target)
            o = {ast.Add: "+", ast.Sub: "-", ast.Mult: "*"}[type(s.op)]
            cur = x.i(s.target)
            l, env1 = self.assign(name, f"({cur} {o} {x.i(s.value)})", env)
            return l + self.run(rest, env1, ret, skip)
        if isinstance(s, ast.If) and not s.orelse:
            c = x.b(s.test)
            out = ""
            cur = env
            for t in s.body:
                xc = X(cur, self.consts)
                if isinstance(t, ast.Assign) and len(t.targets) == 1:
                    name = self.target(t.targets[0])
                    new = xc.i(t.value)
                elif isinstance(t, ast.AugAssign) and type(t.op) in (ast.Add, ast.Sub, ast.Mult):
                    name = self.target(t.target)
                    o = {ast.Add: "+", ast.Sub: "-", ast.Mult: "*"}[type(t.op)]
                    new = f"({xc.i(t.target)} {o} {xc.i(t.value)})"
                else:
                    raise Bad("statement in an `if` outside the subset: " + ast.unparse(t)[:100])
                if name not in cur:
                    raise Bad(f"`{name}` assigned only under a condition")
                l, cur = self.assign(name, f"if {c} then {new} else {cur[name]}", cur)
                out += l
            return out + self.run(rest, cur, ret, skip)
        raise Bad("statement outside the subset: " + ast.unparse(s)[:120])


def _params(names):
    return " ".join(f"({n} : Int)" for n in names)


def _cached_property(fn, slot):
    """`if self._h is None: <body>; return self._h`  ->  the statements of <body>"""
    body = [s for s in fn.body if not (isinstance(s, ast.Expr) and isinstance(s.value, ast.Constant))]
    if (len(body) == 2 and isinstance(body[0], ast.If) and not body[0].orelse
            and ast.unparse(body[0].test) == f"self.{slot} is None"
            and isinstance(body[1], ast.Return) and ast.unparse(body[1].value) == f"self.{slot}"):
        return list(body[0].body)
    raise Bad(f"property {fn.name} is no longer `if self.{slot} is None: ...; return self.{slot}`")


def generate(changed, fallbacks, _write):
    from tools.gen_lean import GEN, py_constants
    consts = py_constants()
    out = ["/-! GENERATED by tools/gen_duration.py from src/pendulum/duration.py — do not edit.",
           "`nd ns nus` stand for the native slots `timedelta.days/.seconds/.microseconds.__get__(self)` of the value",
           "`timedelta.__new__` returned for `new_native_args`; `_total` is `total_us / 10^6` as a float in the code. -/",
           "set_option linter.unusedVariables false", "namespace Pendulum.Gen.Duration", ""]

    def emit(label, thunk):
        try:
            out.append(thunk())
        except (Bad, StopIteration, KeyError, OSError, SyntaxError) as e:
            fallbacks.append(f"Duration: cannot translate {label}: {e}")
            out.append(f"-- UNTRANSLATABLE {label}: {str(e)[:300]}\n")

    try:
        tree = ast.parse((REPO / "src/pendulum/duration.py").read_text())
    except (OSError, SyntaxError) as e:
        fallbacks.append(f"Duration: cannot read duration.py: {e}")
        out += ["end Pendulum.Gen.Duration", ""]
        _write(GEN / "Duration.lean", "\n".join(out), changed)
        return 0
    mfns = {n.name: n for n in tree.body if isinstance(n, ast.FunctionDef)}
    cls = next((n for n in tree.body if isinstance(n, ast.ClassDef) and n.name == "Duration"), None)
    cfns = {}
    if cls is not None:
        for n in cls.body:                       # first definition wins (the PYPY variants come in `if PYPY:` blocks)
            if isinstance(n, ast.FunctionDef) and n.name not in cfns:
                cfns[n.name] = n

    def t_sign():
        fn = cfns["_sign"]
        body = [s for s in fn.body]
        if (len(body) == 2 and isinstance(body[0], ast.If) and not body[0].orelse and len(body[0].body) == 1
                and isinstance(body[0].body[0], ast.Return) and isinstance(body[1], ast.Return)):
            x = X({"value": "value"}, consts)
            return (f"def sign (value : Int) : Int :=\n  if {x.b(body[0].test)} then {x.i(body[0].body[0].value)} "
                    f"else {x.i(body[1].value)}\n")
        raise Bad("_sign has a new shape")

    def t_dar():
        fn = mfns["_divide_and_round"]
        args = [a.arg for a in fn.args.args]
        if args != ["a", "b"]:
            raise Bad(f"signature {args}")
        term = Blk(consts).run(list(fn.body), {"a": "a", "b": "b"}, lambda env: (_ for _ in ()).throw(Bad("no return")))
        return f"def divide_and_round (a b : Int) : Int :=\n  {term}\n"

    def new_parts():
        fn = cfns["__new__"]
        args = [a.arg for a in fn.args.args]
        if args != ["cls"] + NEW_ARGS:
            raise Bad(f"__new__ signature {args}")
        body = [s for s in fn.body if not (isinstance(s, ast.Expr) and isinstance(s.value, ast.Constant))]
        # the float-year guard
        g = body[0]
        if not (isinstance(g, ast.If) and isinstance(g.body[0], ast.Raise)
                and ast.unparse(g.test) == "not isinstance(years, int) or not isinstance(months, int)"):
            raise Bad("__new__ no longer starts with the integer years/months guard")
        c = body[1]
        if not (isinstance(c, ast.Assign) and ast.unparse(c.targets[0]) == "self" and isinstance(c.value, ast.Call)
                and ast.unparse(c.value.func) == "timedelta.__new__" and not c.value.keywords
                and len(c.value.args) == 8 and ast.unparse(c.value.args[0]) == "cls"):
            raise Bad("__new__: second statement is no longer `self = timedelta.__new__(cls, <7 positional>)`")
        if not (isinstance(body[-1], ast.Return) and ast.unparse(body[-1].value) == "self"):
            raise Bad("__new__ no longer ends with `return self`")
        return c.value.args[1:], body[2:-1]

    def t_native_args():
        targs, _ = new_parts()
        x = X({a: a for a in NEW_ARGS}, consts)
        return ("/-- positional arguments of `timedelta.__new__`: days, seconds, microseconds, milliseconds, minutes, hours, weeks -/\n"
                f"def new_native_args {_params(NEW_ARGS)} : Int × Int × Int × Int × Int × Int × Int :=\n  ("
                + ", ".join(x.i(a) for a in targs) + ")\n")

    def t_slots():
        _, stmts = new_parts()
        env = {a: a for a in NEW_ARGS}

        def ret(e):
            miss = [s for s in SLOTS if "self." + s not in e]
            if miss:
                raise Bad(f"slots never assigned: {miss}")
            return "(" + ", ".join(e["self." + s] for s in SLOTS) + ")"
        term = Blk(consts).run(stmts, env, ret, skip=())
        return ("/-- (" + ", ".join(SLOTS) + ") with `_total` as its µs numerator -/\n"
                f"def new_slots (nd ns nus : Int) {_params(NEW_ARGS)} : Int × Int × Int × Int × Int × Int × Int × Int :=\n  {term}\n")

    def t_signature():
        _, stmts = new_parts()
        d = next((s.value for s in stmts if isinstance(s, ast.Assign) and isinstance(s.value, ast.Dict)
                  and ast.unparse(s.targets[0]) == "self._signature"), None)
        if d is None:
            raise Bad("no `self._signature = {...}`")
        keys = [k.value if isinstance(k, ast.Constant) else None for k in d.keys]
        if keys != SIG_KEYS:
            raise Bad(f"_signature keys {keys}")
        x = X({a: a for a in NEW_ARGS}, consts)
        return ("/-- values of `_signature` in the key order " + ", ".join(SIG_KEYS) + " -/\n"
                f"def new_signature {_params(NEW_ARGS)} : List Int :=\n  [" + ", ".join(x.i(v) for v in d.values) + "]\n")

    def t_prop(name, slot):
        def go():
            stmts = _cached_property(cfns[name], slot)
            env = {"self._seconds": "_seconds"}

            def ret(e):
                return e["self." + slot]
            term = Blk(consts).run(stmts, env, ret)
            return f"def {name} (_seconds : Int) : Int :=\n  {term}\n"
        return go

    def t_method(name, lname, attrs):
        def go():
            fn = cfns[name]
            env = {"self." + a: a for a in attrs}
            term = Blk(consts).run(list(fn.body), env, lambda e: (_ for _ in ()).throw(Bad("no return")))
            return f"def {lname} {_params(attrs)} : Int :=\n  {term}\n"
        return go

    def t_tdfn(name, lname):
        def go():
            fn = mfns[name]
            body = [s for s in fn.body if not (isinstance(s, ast.Expr) and isinstance(s.value, ast.Constant))]
            if not (len(body) == 2 and isinstance(body[0], ast.If) and ast.unparse(body[0].test) == "isinstance(delta, Duration)"
                    and isinstance(body[1], ast.Return)):
                raise Bad("new shape")
            env = {"delta": "delta"}

            class XX(X):
                def i(self, x):
                    if isinstance(x, ast.Attribute) and ast.unparse(x.value) == "delta" and x.attr in NATIVE:
                        return NATIVE[x.attr]
                    return super().i(x)
            term = XX(env, consts).i(body[1].value)
            return (f"/-- plain-timedelta branch; the Duration branch is `{ast.unparse(body[0].body[0])}` -/\n"
                    f"def {lname} (nd ns nus : Int) : Int :=\n  {term}\n")
        return go

    emit("_sign", t_sign)
    emit("_divide_and_round", t_dar)
    emit("__new__ (timedelta.__new__ arguments)", t_native_args)
    emit("__new__ (slots)", t_slots)
    emit("__new__ (_signature)", t_signature)
    emit("hours", t_prop("hours", "_h"))
    emit("minutes", t_prop("minutes", "_i"))
    emit("remaining_seconds", t_prop("remaining_seconds", "_s"))
    emit("_to_microseconds", t_method("_to_microseconds", "to_microseconds", ["_days", "_seconds", "_microseconds"]))
    emit("Duration._native_microseconds", t_method("_native_microseconds", "native_microseconds",
                                                   ["_years", "_months", "_days", "_seconds", "_microseconds"]))
    emit("_native_microseconds(delta)", t_tdfn("_native_microseconds", "td_native_microseconds"))
    emit("_timedelta_to_microseconds(delta)", t_tdfn("_timedelta_to_microseconds", "td_to_microseconds"))
    out += ["end Pendulum.Gen.Duration", ""]
    _write(GEN / "Duration.lean", "\n".join(out), changed)
    return 0
