"""usage: /venv/bin/python tools/baseline_check.py [repo_dir]
Runs the pinned test suite of a pendulum checkout and reports stable-pass tests that no longer pass."""
import json, os, subprocess, sys, tempfile
import xml.etree.ElementTree as ET
repo = os.path.abspath(sys.argv[1] if len(sys.argv) > 1 else "/repo")
base = json.load(open("/root/.vp/BASELINE.json"))
want = set(base["stable_pass"])
with tempfile.TemporaryDirectory() as td:
    xml = os.path.join(td, "j.xml")
    env = dict(os.environ, PYTHONPATH=os.path.join(repo, "src"))
    env.pop("PENDULUM_EXTENSIONS", None)
    p = subprocess.run(["/venv/bin/python", "-m", "pytest", "-q", "-p", "no:cacheprovider", "--timeout=900",
                        "--continue-on-collection-errors", f"--junitxml={xml}"], cwd=repo, env=env, capture_output=True, text=True)
    passed = set()
    for tc in ET.parse(xml).getroot().iter("testcase"):
        if not any(c.tag in ("failure", "error", "skipped") for c in tc):
            passed.add(f"{tc.get('classname')}::{tc.get('name')}")
missing = sorted(want - passed)
print(p.stdout.strip().split("\n")[-1])
print(f"stable_pass={len(want)} passing_now={len(want & passed)} regressions={len(missing)}")
for m in missing[:40]:
    print("  REGRESSION", m)
sys.exit(1 if missing else 0)
