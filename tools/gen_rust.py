"""Translator: closed-form helpers of rust/src/helpers.rs  ->  lean/Pendulum/Gen/RsHelpers.lean

A tiny recursive-descent parser for the expression subset these functions use:
  integer literals, identifiers, + - * / %, comparisons, && ||, parentheses, calls f(a, b),
  `T::from(e)` (bool -> 0/1, integer -> identity), `e as T` (identity), table indexing
  CONST[e], method `.unsigned_abs()`;
statements: `let x[: T] = e;`, `if c { return e; }`, `return e;`, tail expression.
Rust `/` and `%` are truncating: they become `Int.tdiv` / `Int.tmod`. Fixed-width integer types are
rendered as unbounded `Int` (the theorems state the domain on which no overflow can occur).
Anything outside the subset is reported as a fallback (prefix "RsHelpers:").
"""
from __future__ import annotations

import os
import re
from pathlib import Path

REPO = Path(os.environ.get("VERIF_REPO", "/repo"))
WANT = ["p", "is_leap", "is_long_year", "days_in_year", "week_day", "day_number"]
BOOLF = {"is_leap", "is_long_year"}

TOK = re.compile(r"\s*(?:(\d[\d_]*)|([A-Za-z_][A-Za-z0-9_]*(?:::[A-Za-z_][A-Za-z0-9_]*)*)|(==|!=|<=|>=|&&|\|\||[-+*/%<>()\[\]{};:,.=!]))")


class Bad(Exception):
    pass


def tokenize(src):
    src = re.sub(r"//[^\n]*", "", src)
    pos, out = 0, []
    while pos < len(src):
        if src[pos:].strip() == "":
            break
        m = TOK.match(src, pos)
        if not m:
            raise Bad("cannot tokenize at: " + src[pos:pos + 30])
        pos = m.end()
        if m.group(1):
            out.append(("num", m.group(1).replace("_", "")))
        elif m.group(2):
            out.append(("id", m.group(2)))
        else:
            out.append(("op", m.group(3)))
    return out


class P:
    def __init__(self, toks, consts):
        self.t, self.i, self.consts = toks, 0, consts

    def peek(self, k=0):
        return self.t[self.i + k] if self.i + k < len(self.t) else ("eof", "")

    def eat(self, kind=None, val=None):
        tk = self.peek()
        if (kind and tk[0] != kind) or (val is not None and tk[1] != val):
            raise Bad(f"expected {kind} {val}, got {tk}")
        self.i += 1
        return tk

    # expressions return (lean_text, is_bool)
    def expr(self):
        return self.p_or()

    def p_or(self):
        l = self.p_and()
        while self.peek() == ("op", "||"):
            self.eat()
            r = self.p_and()
            l = (f"({self.b(l)} || {self.b(r)})", True)
        return l

    def p_and(self):
        l = self.p_cmp()
        while self.peek() == ("op", "&&"):
            self.eat()
            r = self.p_cmp()
            l = (f"({self.b(l)} && {self.b(r)})", True)
        return l

    def b(self, e):
        if not e[1]:
            raise Bad("integer used as bool: " + e[0])
        return e[0]

    def n(self, e):
        if e[1]:
            raise Bad("bool used as integer: " + e[0])
        return e[0]

    def p_cmp(self):
        l = self.p_add()
        tk = self.peek()
        if tk[0] == "op" and tk[1] in ("==", "!=", "<", "<=", ">", ">="):
            self.eat()
            r = self.p_add()
            o = {"==": "==", "!=": "!=", "<": "<", "<=": "≤", ">": ">", ">=": "≥"}[tk[1]]
            if o in ("==", "!="):
                return (f"({self.n(l)} {o} {self.n(r)})", True)
            return (f"(decide ({self.n(l)} {o} {self.n(r)}))", True)
        return l

    def p_add(self):
        l = self.p_mul()
        while self.peek()[0] == "op" and self.peek()[1] in ("+", "-"):
            o = self.eat()[1]
            r = self.p_mul()
            l = (f"({self.n(l)} {o} {self.n(r)})", False)
        return l

    def p_mul(self):
        l = self.p_cast()
        while self.peek()[0] == "op" and self.peek()[1] in ("*", "/", "%"):
            o = self.eat()[1]
            r = self.p_cast()
            if o == "*":
                l = (f"({self.n(l)} * {self.n(r)})", False)
            elif o == "/":
                l = (f"(Int.tdiv {self.n(l)} {self.n(r)})", False)
            else:
                l = (f"(Int.tmod {self.n(l)} {self.n(r)})", False)
        return l

    def p_cast(self):
        e = self.p_post()
        while self.peek() == ("id", "as"):
            self.eat()
            self.eat("id")       # integer type: identity on Int
        return e

    def p_post(self):
        e = self.p_atom()
        while True:
            if self.peek() == ("op", "."):
                self.eat()
                m = self.eat("id")[1]
                self.eat("op", "(")
                self.eat("op", ")")
                if m == "unsigned_abs":
                    e = (f"((Int.natAbs {self.n(e)} : Nat) : Int)", False)
                else:
                    raise Bad("method ." + m)
            else:
                return e

    def p_atom(self):
        tk = self.peek()
        if tk[0] == "num":
            self.eat()
            return (f"({tk[1]} : Int)", False)
        if tk == ("op", "("):
            self.eat()
            e = self.expr()
            self.eat("op", ")")
            return e
        if tk[0] == "id":
            self.eat()
            name = tk[1]
            if self.peek() == ("op", "("):
                self.eat()
                args = []
                while self.peek() != ("op", ")"):
                    args.append(self.expr())
                    if self.peek() == ("op", ","):
                        self.eat()
                self.eat("op", ")")
                if name.endswith("::from"):
                    a = args[0]
                    return (f"(if {a[0]} then (1 : Int) else 0)", False) if a[1] else a
                if name not in WANT:
                    raise Bad("call to " + name)
                return ("(" + name + " " + " ".join(self.n(a) for a in args) + ")", name in BOOLF)
            if self.peek() == ("op", "["):
                self.eat()
                idx = self.expr()
                self.eat("op", "]")
                if name not in self.consts:
                    raise Bad("index of unknown table " + name)
                return (f"(Gen.rs_{name} {self.n(idx)})", False)
            if name in self.consts:
                return (f"Gen.rs_{name}", False)
            return (name, False)
        raise Bad(f"unexpected token {tk}")

    def block(self, isbool):
        """statements up to the closing brace of the function body -> lean term"""
        tk = self.peek()
        if tk == ("id", "let"):
            self.eat()
            if self.peek() == ("id", "mut"):
                raise Bad("let mut")
            name = self.eat("id")[1]
            if self.peek() == ("op", ":"):
                self.eat()
                self.eat("id")
            self.eat("op", "=")
            e = self.expr()
            self.eat("op", ";")
            return f"let {name} := {self.n(e)}\n  {self.block(isbool)}"
        if tk == ("id", "if"):
            self.eat()
            c = self.expr()
            self.eat("op", "{")
            self.eat("id", "return")
            e = self.expr()
            self.eat("op", ";")
            self.eat("op", "}")
            v = self.b(e) if isbool else self.n(e)
            return f"if {self.b(c)} then {v} else\n  {self.block(isbool)}"
        if tk == ("id", "return"):
            self.eat()
            e = self.expr()
            self.eat("op", ";")
            return self.b(e) if isbool else self.n(e)
        e = self.expr()
        if self.peek() != ("op", "}"):
            raise Bad(f"statement form not supported near {self.peek()}")
        return self.b(e) if isbool else self.n(e)


def generate(changed, fallbacks, _write, rs_consts):
    src = (REPO / "rust/src/helpers.rs").read_text()
    out = ["import Pendulum.Gen.Tables",
           "/-! GENERATED by tools/gen_rust.py from rust/src/helpers.rs — do not edit.",
           "Rust `/`,`%` = `Int.tdiv`,`Int.tmod` (truncating); fixed-width integers rendered as `Int`. -/",
           "namespace Pendulum.Rs", "open Pendulum", ""]
    for name in WANT:
        m = re.search(r"fn\s+" + name + r"\s*\(([^)]*)\)\s*->\s*(\w+)\s*\{", src)
        if not m:
            fallbacks.append(f"RsHelpers: function {name} not found in helpers.rs")
            continue
        # body = up to the matching brace
        i, depth = m.end(), 1
        while depth and i < len(src):
            depth += {"{": 1, "}": -1}.get(src[i], 0)
            i += 1
        body = src[m.end():i - 1]
        params = [p.split(":")[0].strip() for p in m.group(1).split(",") if p.strip()]
        isbool = m.group(2) == "bool"
        try:
            toks = tokenize(body) + [("op", "}")]
            term = P(toks, rs_consts).block(isbool)
            args = " ".join(f"({a} : Int)" for a in params)
            out.append(f"def {name} {args} : {'Bool' if isbool else 'Int'} :=\n  {term}\n")
        except Bad as e:
            fallbacks.append(f"RsHelpers: cannot translate {name}: {e}")
            out.append(f"-- UNTRANSLATABLE {name}: {e}\n")
    out += ["end Pendulum.Rs", ""]
    from tools.gen_lean import GEN
    _write(GEN / "RsHelpers.lean", "\n".join(out), changed)
    return 0
