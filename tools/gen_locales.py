"""Translator: src/pendulum/locales/*/{locale,custom}.py  ->  lean/Pendulum/Gen/Locales/L_<name>.lean + Gen/Locales.lean

Regenerated from the *current* source on every check (called by tools/gen_lean.regenerate()).
Per locale:
  * the `locale` dictionary (with `custom` merged in exactly as locale.py does it) as a `Pendulum.Loc.Node` tree;
    int keys are spelled in decimal; strings under the paths that the code passes through `str.format`
    (TEMPLATE_PATHS) are pre-split with `string.Formatter().parse` into literal / field segments;
  * the CLDR `plural` / `ordinal` lambdas translated by the restricted expression translator (`Tr` of gen_lean.py
    extended with string constants) to `Int -> String` functions, together with the list of string constants
    they can return (`pluralClasses`, `ordinalClasses`).
The locale modules are not imported (that would import pendulum); their source is parsed, the one
`from pendulum.locales.<x>.custom import translations as ...` line is resolved by executing custom.py (a pure literal),
and the remaining literal is evaluated in an empty namespace.
Anything that cannot be expressed is reported in `fallbacks` with the prefix "Locales:".
"""
from __future__ import annotations

import ast
import string
import unicodedata
from pathlib import Path

from tools import gen_lean
from tools.gen_lean import Tr, Untranslatable

# paths (first components; '*' = any key) whose string leaves are str.format templates in the code:
#   difference_formatter.py: translations.units.<u>.<p>, translations.relative.<u>.<dir>.<p>,
#   custom.units_relative.<u>.<dir>.<p>, custom.<ago|from_now|after|before>;  duration.py/interval.py in_words: translations.units
TEMPLATE_PATHS = [
    ("translations", "units", "*", "*"),
    ("translations", "relative", "*", "*", "*"),
    ("custom", "units_relative", "*", "*", "*"),
    ("custom", "ago"), ("custom", "from_now"), ("custom", "after"), ("custom", "before"),
]


def is_template_path(path):
    for pat in TEMPLATE_PATHS:
        if len(pat) == len(path) and all(a == "*" or a == b for a, b in zip(pat, path)):
            return True
    return False


def lean_str(s: str) -> str:
    out = []
    for ch in s:
        if ch == "\\":
            out.append("\\\\")
        elif ch == '"':
            out.append('\\"')
        elif ch == "\n":
            out.append("\\n")
        elif ch == "\t":
            out.append("\\t")
        elif ch == " " or (ch.isprintable() and not ch.isspace() and unicodedata.category(ch) not in ("Cf", "Mn", "Me")):
            out.append(ch)
        elif ord(ch) <= 0xFFFF:
            out.append("\\u%04x" % ord(ch))
        else:
            out.append(ch)
    return '"' + "".join(out) + '"'


class TrL(Tr):
    """Tr + string constants as values (the CLDR lambdas return class names)"""

    def __init__(self):
        super().__init__({}, set())
        self.strings = []

    def e(self, x):
        if isinstance(x, ast.Constant) and isinstance(x.value, str):
            if x.value not in self.strings:
                self.strings.append(x.value)
            return lean_str(x.value)
        if isinstance(x, ast.Name) and x.id != "n":
            raise Untranslatable("free name " + x.id)
        if isinstance(x, ast.Call):
            raise Untranslatable("call " + ast.dump(x)[:120])
        return super().e(x)


def split_template(s: str):
    """-> list of ('lit', text) / ('hole', field) or raises Untranslatable"""
    segs = []
    try:
        parsed = list(string.Formatter().parse(s))
    except ValueError as e:
        raise Untranslatable(f"malformed template {s!r}: {e}")
    for lit, field, spec, conv in parsed:
        if lit:
            segs.append(("lit", lit))
        if field is not None:
            if spec or conv:
                raise Untranslatable(f"template {s!r} uses a format spec / conversion")
            if not (field == "" or field.isdigit() or field.isidentifier()):
                raise Untranslatable(f"template {s!r} uses a compound field name {field!r}")
            segs.append(("hole", field))
    return segs


def render_segs(segs):
    return "".join(t.replace("{", "{{").replace("}", "}}") if k == "lit" else "{" + t + "}" for k, t in segs)


class LocaleGen:
    def __init__(self, repo: Path, name: str, fallbacks: list):
        self.repo, self.name, self.fallbacks = repo, name, fallbacks
        self.selftest = 0

    def fb(self, msg):
        self.fallbacks.append(f"Locales: {self.name}: {msg}")

    def load(self):
        p = self.repo / "src/pendulum/locales" / self.name / "locale.py"
        tree = ast.parse(p.read_text())
        ns: dict = {}
        body = []
        for n in tree.body:
            if isinstance(n, ast.ImportFrom) and n.module and n.module.startswith("pendulum.locales."):
                q = self.repo / "src" / (n.module.replace(".", "/") + ".py")
                ns2: dict = {}
                exec(compile(q.read_text(), str(q), "exec"), ns2)  # custom.py: a dict literal
                for a in n.names:
                    ns[a.asname or a.name] = ns2[a.name]
            elif isinstance(n, (ast.Import, ast.ImportFrom)) and getattr(n, "module", None) != "__future__":
                raise Untranslatable("unexpected import " + ast.dump(n)[:100])
            else:
                body.append(n)
        tree.body = body
        exec(compile(tree, str(p), "exec"), ns)
        data = ns["locale"]
        lambdas = {}
        for n in body:
            if isinstance(n, ast.Assign) and isinstance(n.targets[0], ast.Name) and n.targets[0].id == "locale" \
                    and isinstance(n.value, ast.Dict):
                for k, v in zip(n.value.keys, n.value.values):
                    if isinstance(k, ast.Constant) and k.value in ("plural", "ordinal"):
                        lambdas[k.value] = v
        return data, lambdas

    def node(self, v, path, ind):
        pad = "  " * ind
        if isinstance(v, bool) or v is None:
            raise Untranslatable(f"value of type {type(v).__name__} at {'.'.join(map(str, path))}")
        if isinstance(v, str):
            if is_template_path(path):
                try:
                    segs = split_template(v)
                    assert render_segs(segs) == v or "{{" in v or "}}" in v
                    self.selftest += 1
                    inner = ", ".join((".lit " + lean_str(t)) if k == "lit" else (".hole " + lean_str(t)) for k, t in segs)
                    return f".tmpl [{inner}]"
                except Untranslatable as e:
                    self.fb(str(e))
            return f".str {lean_str(v)}"
        if isinstance(v, int):
            return f".int ({v})"
        if isinstance(v, dict):
            keys = []
            items = []
            for k, x in v.items():
                if isinstance(k, bool) or not isinstance(k, (str, int)):
                    raise Untranslatable(f"dict key {k!r} at {'.'.join(map(str, path))}")
                ks = str(k)
                if ks in keys:
                    raise Untranslatable(f"keys {k!r} and its other spelling clash at {'.'.join(map(str, path))}")
                if isinstance(k, str) and (k.lstrip("-").isdigit() or "." in k):
                    # an int-looking / dotted str key would be confused with an int key / a path separator
                    raise Untranslatable(f"ambiguous str key {k!r} at {'.'.join(map(str, path))}")
                keys.append(ks)
                items.append(f"{pad}  ({lean_str(ks)}, {self.node(x, path + (ks,), ind + 1)})")
            if not items:
                return ".dict []"
            return ".dict [\n" + ",\n".join(items) + "]"
        raise Untranslatable(f"value of type {type(v).__name__} at {'.'.join(map(str, path))}")

    def lam(self, kind, lam_ast, pyfn):
        t = TrL()
        if not (isinstance(lam_ast, ast.Lambda) and len(lam_ast.args.args) == 1 and lam_ast.args.args[0].arg == "n"):
            raise Untranslatable(f"{kind} is not `lambda n: ...`")
        body = t.e(lam_ast.body)
        # self-test of the class list against the real lambda
        for n in range(-120, 1300):
            r = pyfn(n)
            self.selftest += 1
            if r not in t.strings:
                raise Untranslatable(f"{kind}({n}) = {r!r} is not among the constants {t.strings}")
        return body, t.strings

    def text(self):
        data, lambdas = self.load()
        out = ["import Pendulum.Model.LocData", "set_option linter.unusedVariables false",
               f"/-! GENERATED by tools/gen_locales.py from src/pendulum/locales/{self.name}/locale.py and custom.py — do not edit -/",
               f"namespace Pendulum.Gen.Locales.L_{self.name}", "open Pendulum.Loc", ""]
        cls = {}
        for kind in ("plural", "ordinal"):
            try:
                if kind not in lambdas or not callable(data.get(kind)):
                    raise Untranslatable(f"no {kind} lambda")
                body, strings = self.lam(kind, lambdas[kind], data[kind])
            except Untranslatable as e:
                self.fb(f"cannot translate {kind}: {e}")
                body, strings = '"other"', ["other"]
            cls[kind] = strings
            out.append(f"def {kind} (n : Int) : String :=\n  {body}\n")
        rest = {k: v for k, v in data.items() if k not in ("plural", "ordinal")}
        try:
            tree = self.node(rest, (), 1)
        except Untranslatable as e:
            self.fb(f"cannot translate the dictionary: {e}")
            tree = ".dict []"
        out.append(f"def data : Node :=\n  {tree}\n")
        lst = lambda xs: "[" + ", ".join(lean_str(x) for x in xs) + "]"  # noqa: E731
        out.append("def loc : Locale :=\n"
                   f"  {{ name := {lean_str(self.name)}, plural := plural, ordinal := ordinal,\n"
                   f"    pluralClasses := {lst(cls['plural'])}, ordinalClasses := {lst(cls['ordinal'])}, data := data }}\n")
        out += [f"end Pendulum.Gen.Locales.L_{self.name}", ""]
        return "\n".join(out)


def locale_names(repo: Path):
    d = repo / "src/pendulum/locales"
    return sorted(p.name for p in d.iterdir() if (p / "locale.py").exists())


def generate(changed, fallbacks, _write) -> int:
    repo = gen_lean.REPO
    gen = gen_lean.GEN
    names = locale_names(repo)
    selftest = 0
    ok = []
    for name in names:
        if not name.isidentifier():
            fallbacks.append(f"Locales: directory name {name!r} is not an identifier")
            continue
        g = LocaleGen(repo, name, fallbacks)
        try:
            text = g.text()
        except Exception as e:  # noqa: BLE001
            fallbacks.append(f"Locales: {name}: generator failed: {e!r}")
            continue
        _write(gen / "Locales" / f"L_{name}.lean", text, changed)
        selftest += g.selftest
        ok.append(name)
    # remove modules of locales that no longer exist
    if (gen / "Locales").exists():
        for f in (gen / "Locales").glob("L_*.lean"):
            if f.stem[2:] not in ok:
                f.unlink()
                changed.append(f.name + " (removed)")
    top = [f"import Pendulum.Gen.Locales.L_{n}" for n in ok]
    top += ["/-! GENERATED by tools/gen_locales.py — the list of shipped locales (directories of src/pendulum/locales) -/",
            "namespace Pendulum.Gen.Locales", "open Pendulum.Loc", "",
            "def all : List Locale :=\n  [" + ", ".join(f"L_{n}.loc" for n in ok) + "]", "",
            "def names : List String :=\n  [" + ", ".join(lean_str(n) for n in ok) + "]", "",
            "end Pendulum.Gen.Locales", ""]
    _write(gen / "Locales.lean", "\n".join(top), changed)
    return selftest


if __name__ == "__main__":
    import json
    ch, fbk = [], []
    n = generate(ch, fbk, gen_lean._write)
    print(json.dumps(dict(changed=ch, fallbacks=fbk, selftest=n), indent=1))
